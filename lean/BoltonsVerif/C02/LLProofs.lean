import BoltonsVerif.C02.LL
import BoltonsVerif.C02.Facts
/-
C02 — the pointer-level linked list implements the ring: representation predicate `Rep` and the
effect of `_init_ll` and the four `_ll` helpers on it.
-/
set_option linter.unusedSectionVars false
namespace C02
variable {K V : Type} [DecidableEq K]

/-! memories -/

theorem rd_upd {α : Type} [Inhabited α] (m : List α) (a b : Nat) (x : α) :
    rd (upd m a x) b = if b = a then x else rd m b := by
  unfold rd upd
  by_cases h : a < m.length
  · simp only [h, if_true, List.getD_eq_getElem?_getD, List.getElem?_set]
    by_cases e : b = a
    · subst e; simp
    · simp [e, Ne.symm e]
  · simp only [h, if_false, List.getD_eq_getElem?_getD]
    have hle : m.length ≤ a := Nat.le_of_not_lt h
    by_cases e : b = a
    · subst e
      rw [if_pos rfl, List.getElem?_append_right (by simp; omega)]
      have : b - (m ++ List.replicate (b - m.length) default).length = 0 := by simp; omega
      rw [this]; rfl
    · rw [if_neg e]
      by_cases hb : b < m.length
      · rw [List.append_assoc, List.getElem?_append_left hb]
      · have hb' : m.length ≤ b := Nat.le_of_not_lt hb
        rw [List.getElem?_eq_none hb']
        by_cases hb2 : b < a
        · rw [List.getElem?_append_left (by simp; omega), List.getElem?_append_right hb']
          simp only [List.getElem?_replicate]; split <;> rfl
        · rw [List.getElem?_eq_none (by simp; omega)]

theorem rd_upd_self {α : Type} [Inhabited α] (m : List α) (a : Nat) (x : α) : rd (upd m a x) a = x := by
  rw [rd_upd, if_pos rfl]

theorem rd_upd_ne {α : Type} [Inhabited α] (m : List α) {a b : Nat} (x : α) (h : b ≠ a) :
    rd (upd m a x) b = rd m b := by
  rw [rd_upd, if_neg h]

/-! doubly linked segments -/

/-- from link `a` through the links `xs` to link `z`, following NEXT; PREV points back -/
def Chain (nx pv : Nat → Nat) : Nat → List Nat → Nat → Prop
  | a, [], z => nx a = z ∧ pv z = a
  | a, x :: xs, z => nx a = x ∧ pv x = a ∧ Chain nx pv x xs z

/-- the last link of the segment that starts at `a` and continues with `xs` -/
def lastOf : Nat → List Nat → Nat
  | a, [] => a
  | _, x :: xs => lastOf x xs

theorem lastOf_mem (a : Nat) (xs : List Nat) : lastOf a xs ∈ a :: xs := by
  induction xs generalizing a with
  | nil => simp [lastOf]
  | cons x xs ih => simp only [lastOf]; exact List.mem_cons_of_mem _ (ih x)

theorem lastOf_append (a : Nat) (xs : List Nat) (n : Nat) : lastOf a (xs ++ [n]) = n := by
  induction xs generalizing a with
  | nil => rfl
  | cons x xs ih => simp only [List.cons_append, lastOf]; exact ih x

theorem Chain.pv_end {nx pv : Nat → Nat} {a z : Nat} {xs : List Nat} (h : Chain nx pv a xs z) :
    pv z = lastOf a xs := by
  induction xs generalizing a with
  | nil => exact h.2
  | cons x xs ih => exact ih h.2.2

theorem Chain.nx_start {nx pv : Nat → Nat} {a z : Nat} {xs : List Nat} (h : Chain nx pv a xs z) :
    nx a = xs.headD z := by
  cases xs with
  | nil => exact h.1
  | cons x xs => exact h.1

theorem chain_append {nx pv : Nat → Nat} {a z m : Nat} {xs ys : List Nat} :
    Chain nx pv a (xs ++ m :: ys) z ↔ Chain nx pv a xs m ∧ Chain nx pv m ys z := by
  induction xs generalizing a with
  | nil =>
    simp only [List.nil_append, Chain]
    constructor
    · rintro ⟨h1, h2, h3⟩; exact ⟨⟨h1, h2⟩, h3⟩
    · rintro ⟨⟨h1, h2⟩, h3⟩; exact ⟨h1, h2, h3⟩
  | cons x xs ih =>
    simp only [List.cons_append, Chain, ih]
    constructor
    · rintro ⟨h1, h2, h3, h4⟩; exact ⟨⟨h1, h2, h3⟩, h4⟩
    · rintro ⟨⟨h1, h2, h3⟩, h4⟩; exact ⟨h1, h2, h3, h4⟩

/-- frame: a segment only depends on NEXT of its start and inner links, PREV of its inner links and end -/
theorem Chain.congr {nx pv nx' pv' : Nat → Nat} {a z : Nat} {xs : List Nat} (h : Chain nx pv a xs z)
    (hn : ∀ b ∈ a :: xs, nx' b = nx b) (hp : ∀ b ∈ xs ++ [z], pv' b = pv b) : Chain nx' pv' a xs z := by
  induction xs generalizing a with
  | nil =>
    exact ⟨(hn a (by simp)).trans h.1, (hp z (by simp)).trans h.2⟩
  | cons x xs ih =>
    refine ⟨(hn a (by simp)).trans h.1, (hp x (by simp)).trans h.2.1, ?_⟩
    exact ih h.2.2 (fun b hb => hn b (List.mem_cons_of_mem _ hb)) (fun b hb => hp b (by simp only [List.cons_append]; exact List.mem_cons_of_mem _ hb))

/-- the segment `a … xs` made to end in `z'` instead: only NEXT of its last link and PREV of `z'` change -/
theorem Chain.retarget {nx pv nx' pv' : Nat → Nat} {a m z' : Nat} {xs : List Nat} (h : Chain nx pv a xs m)
    (hnd : (a :: xs).Nodup) (hz : z' ∉ xs)
    (hn1 : nx' (lastOf a xs) = z') (hn : ∀ b ∈ a :: xs, b ≠ lastOf a xs → nx' b = nx b)
    (hp1 : pv' z' = lastOf a xs) (hp : ∀ b ∈ xs, pv' b = pv b) : Chain nx' pv' a xs z' := by
  induction xs generalizing a with
  | nil => exact ⟨hn1, hp1⟩
  | cons x xs ih =>
    simp only [lastOf] at hn1 hp1 hn
    have hax : a ≠ lastOf x xs := by
      intro e
      have := lastOf_mem x xs
      rw [← e] at this
      exact (List.nodup_cons.1 hnd).1 this
    refine ⟨(hn a (by simp) hax).trans h.1, (hp x (by simp)).trans h.2.1, ?_⟩
    apply ih h.2.2 (List.nodup_cons.1 hnd).2 (fun hm => hz (List.mem_cons_of_mem _ hm)) hn1
    · intro b hb hne; exact hn b (List.mem_cons_of_mem _ hb) hne
    · exact hp1
    · intro b hb; exact hp b (List.mem_cons_of_mem _ hb)

/-- splicing the link `m` out: `m[PREV][NEXT] = m[NEXT]; m[NEXT][PREV] = m[PREV]` -/
theorem Chain.splice {nx pv nx' pv' : Nat → Nat} {a z m : Nat} {xs ys : List Nat}
    (h : Chain nx pv a (xs ++ m :: ys) z) (hnd : (a :: (xs ++ m :: ys)).Nodup) (hz : z ∉ xs ++ m :: ys)
    (hn1 : nx' (pv m) = nx m) (hn : ∀ b, b ≠ pv m → nx' b = nx b)
    (hp1 : pv' (nx m) = pv m) (hp : ∀ b, b ≠ nx m → pv' b = pv b) : Chain nx' pv' a (xs ++ ys) z := by
  obtain ⟨h1, h2⟩ := chain_append.1 h
  have hpm : pv m = lastOf a xs := h1.pv_end
  have hnm : nx m = ys.headD z := h2.nx_start
  have hnd1 : (a :: xs).Nodup := by
    have := hnd; rw [← List.cons_append] at this; exact (List.nodup_append.1 this).1
  have hlast : lastOf a xs ∈ a :: xs := lastOf_mem a xs
  -- members of a :: xs are different from m and from the members of ys
  have hdis : ∀ b ∈ a :: xs, b ≠ m ∧ b ∉ ys := by
    intro b hb
    have := hnd; rw [← List.cons_append] at this
    have hd := (List.nodup_append.1 this).2.2
    exact ⟨fun e => hd b hb m (by simp) e, fun hy => hd b hb b (List.mem_cons_of_mem _ hy) rfl⟩
  have hmys : m ∉ ys := by
    have := hnd; rw [← List.cons_append] at this
    have hd := (List.nodup_append.1 this).2.1
    exact (List.nodup_cons.1 hd).1
  cases ys with
  | nil =>
    simp only [List.append_nil]
    simp only [List.headD_nil] at hnm
    apply h1.retarget hnd1 (fun hm => hz (by simp [hm]))
    · rw [← hpm, hn1, hnm]
    · intro b _ hne; exact hn b (hpm ▸ hne)
    · rw [← hpm, ← hnm]; exact hp1
    · intro b hb
      apply hp
      rw [hnm]; intro e; exact hz (by simp [← e, hb])
  | cons y ys =>
    simp only [List.headD_cons] at hnm
    obtain ⟨g1, g2, g3⟩ := h2
    have hyx : y ∉ xs := fun hy => (hdis y (List.mem_cons_of_mem _ hy)).2 (by simp)
    refine chain_append.2 ⟨?_, ?_⟩
    · apply h1.retarget hnd1 hyx
      · rw [← hpm, hn1, hnm]
      · intro b _ hne; exact hn b (hpm ▸ hne)
      · rw [← hpm, ← hnm]; exact hp1
      · intro b hb
        apply hp
        rw [hnm]; intro e; exact hyx (e ▸ hb)
    · have hnd2 : (y :: ys).Nodup := by
        have := hnd; rw [← List.cons_append] at this
        have hd := (List.nodup_append.1 this).2.1
        exact (List.nodup_cons.1 hd).2
      apply g3.congr
      · intro b hb
        apply hn
        rw [hpm]; intro e
        exact (hdis _ hlast).2 (e ▸ hb)
      · intro b hb
        apply hp
        rw [hnm]
        simp only [List.mem_append, List.mem_singleton] at hb
        rcases hb with hb | hb
        · intro e; exact (List.nodup_cons.1 hnd2).1 (e ▸ hb)
        · intro e; exact hz (by simp [hb ▸ e])

/-- linking `n` in before `z`: `s = z[PREV]; s[NEXT] = z[PREV] = n; n[PREV] = s; n[NEXT] = z` -/
theorem Chain.snoc {nx pv nx' pv' : Nat → Nat} {a z n : Nat} {xs : List Nat}
    (h : Chain nx pv a xs z) (hnd : (a :: xs).Nodup) (hz : z ∉ xs) (hna : n ∉ a :: xs)
    (hn1 : nx' (pv z) = n) (hn2 : nx' n = z) (hn : ∀ b, b ≠ pv z → b ≠ n → nx' b = nx b)
    (hp1 : pv' z = n) (hp2 : pv' n = pv z) (hp : ∀ b, b ≠ z → b ≠ n → pv' b = pv b) :
    Chain nx' pv' a (xs ++ [n]) z := by
  have hpz : pv z = lastOf a xs := h.pv_end
  refine chain_append.2 ⟨?_, hn2, hp1⟩
  apply h.retarget hnd (fun hm => hna (List.mem_cons_of_mem _ hm))
  · rw [← hpz]; exact hn1
  · intro b hb hne
    exact hn b (hpz ▸ hne) (fun e => hna (e ▸ hb))
  · rw [← hpz]; exact hp2
  · intro b hb
    exact hp b (fun e => hz (e ▸ hb)) (fun e => hna (e ▸ List.mem_cons_of_mem _ hb))

/-- the anchor rotation of `_set_key_and_evict_last_in_ll`: no pointer changes, the oldest link `e`
    becomes the anchor and the old anchor the newest link -/
theorem Chain.rotate {nx pv : Nat → Nat} {a e : Nat} {rest : List Nat} (h : Chain nx pv a (e :: rest) a) :
    Chain nx pv e (rest ++ [a]) e :=
  chain_append.2 ⟨h.2.2, h.1, h.2.1⟩

/-! association lists whose values are projected -/

/-- apply `f` to the values of an association list -/
def mapVal {A B : Type} (f : A → B) (l : List (K × A)) : List (K × B) := l.map fun c => (c.1, f c.2)

section mapVal
variable {A B : Type} (f : A → B)

@[simp] theorem mapVal_nil : mapVal f ([] : List (K × A)) = [] := rfl
@[simp] theorem mapVal_cons (c : K × A) (l : List (K × A)) : mapVal f (c :: l) = (c.1, f c.2) :: mapVal f l := rfl
@[simp] theorem mapVal_append (l m : List (K × A)) : mapVal f (l ++ m) = mapVal f l ++ mapVal f m := by
  simp [mapVal]

theorem keys_mapVal (l : List (K × A)) : keys (mapVal f l) = keys l := by
  simp [keys, mapVal, List.map_map, Function.comp_def]

theorem lookup_mapVal (k : K) (l : List (K × A)) : lookup k (mapVal f l) = (lookup k l).map f := by
  induction l with
  | nil => rfl
  | cons c l ih => simp only [mapVal_cons, lookup]; split <;> simp [ih]

theorem eraseKey_mapVal (k : K) (l : List (K × A)) : eraseKey k (mapVal f l) = mapVal f (eraseKey k l) := by
  induction l with
  | nil => rfl
  | cons c l ih => simp only [mapVal_cons, eraseKey]; split <;> simp [ih]

theorem length_mapVal (l : List (K × A)) : (mapVal f l).length = l.length := by simp [mapVal]
end mapVal

/-- an entry that is found splits the list around it -/
theorem lookup_split {A : Type} {k : K} {x : A} {l : List (K × A)} (h : lookup k l = some x) :
    ∃ xs ys, l = xs ++ (k, x) :: ys ∧ lookup k xs = none ∧ eraseKey k l = xs ++ ys := by
  induction l with
  | nil => simp [lookup] at h
  | cons c l ih =>
    simp only [lookup] at h
    by_cases e : c.1 = k
    · rw [if_pos e] at h
      refine ⟨[], l, ?_, rfl, ?_⟩
      · cases c; simp_all
      · simp [eraseKey, e]
    · rw [if_neg e] at h
      obtain ⟨xs, ys, h1, h2, h3⟩ := ih h
      refine ⟨c :: xs, ys, by simp [h1], by simp [lookup, e, h2], ?_⟩
      simp only [eraseKey, e, if_false, h3, List.cons_append]

/-! the representation of a ring by links -/

/-- cell = key ↦ (address of its link, value); oldest first -/
abbrev Cells (K V : Type) := List (K × (Nat × V))

def addrsOf (cells : Cells K V) : List Nat := cells.map (·.2.1)
def ringOf (cells : Cells K V) : List (K × V) := mapVal (·.2) cells

@[simp] theorem addrsOf_nil : addrsOf ([] : Cells K V) = [] := rfl
@[simp] theorem addrsOf_cons (c : K × (Nat × V)) (l : Cells K V) : addrsOf (c :: l) = c.2.1 :: addrsOf l := rfl
@[simp] theorem addrsOf_append (l m : Cells K V) : addrsOf (l ++ m) = addrsOf l ++ addrsOf m := by
  simp [addrsOf]

structure Rep (l : LL K V) (cells : Cells K V) : Prop where
  chain : Chain (rd l.next) (rd l.prev) l.anchor (addrsOf cells) l.anchor
  nodup : (l.anchor :: addrsOf cells).Nodup
  bound : ∀ a ∈ l.anchor :: addrsOf cells, a < l.fresh
  cnt : cells.length < l.fresh
  kv : ∀ c ∈ cells, rd l.key c.2.1 = some c.1 ∧ rd l.val c.2.1 = some c.2.2
  nk : (keys cells).Nodup
  tn : (keys l.table).Nodup
  tbl : ∀ k, lookup k l.table = (lookup k cells).map (·.1)

theorem Rep.new : Rep (LL.new : LL K V) [] := by
  refine ⟨?_, by simp, by simp [LL.new], by simp [LL.new], by simp, by simp, by simp [LL.new], by simp [LL.new, lookup]⟩
  simp only [LL.new, addrsOf_nil, Chain, rd_upd_self, and_self]

theorem Rep.reinit (l : LL K V) : Rep l.reinit [] := by
  refine ⟨?_, by simp, by simp [LL.reinit], by simp [LL.reinit], by simp, by simp, by simp [LL.reinit],
    by simp [LL.reinit, lookup]⟩
  simp only [LL.reinit, addrsOf_nil, Chain, rd_upd_self, and_self]

/-- membership facts of a nodup list `A :: (xs ++ n :: ys)` -/
theorem nodup_mid {A n : Nat} {xs ys : List Nat} (h : (A :: (xs ++ n :: ys)).Nodup) :
    (A :: (xs ++ ys)).Nodup ∧ n ∉ A :: (xs ++ ys) ∧ A ∉ xs ++ n :: ys := by
  have hp : (A :: (xs ++ n :: ys)).Perm (n :: A :: (xs ++ ys)) :=
    ((List.perm_middle).cons A).trans (List.Perm.swap _ _ _)
  have := hp.nodup_iff.1 h
  rw [List.nodup_cons] at this
  exact ⟨this.2, this.1, (List.nodup_cons.1 h).1⟩

theorem Rep.moveToFront {l : LL K V} {xs ys : Cells K V} {k : K} {n : Nat} {v : V}
    (h : Rep l (xs ++ (k, (n, v)) :: ys)) :
    ∃ l', l.moveToFront k = some (l', n) ∧ Rep l' (xs ++ ys ++ [(k, (n, v))]) ∧
      l'.key = l.key ∧ l'.val = l.val ∧ l'.table = l.table ∧ l'.fresh = l.fresh ∧ l'.anchor = l.anchor := by
  have hnk := h.nk
  have hkx : lookup k xs = none := by
    rw [lookup_none_iff]
    simp only [keys_append, keys_cons] at hnk
    intro hm
    exact (List.nodup_append.1 hnk).2.2 k hm k (by simp) rfl
  have hlk : lookup k (xs ++ (k, (n, v)) :: ys) = some (n, v) := by
    rw [lookup_append, hkx]; simp [lookup]
  have ht : lookup k l.table = some n := by rw [h.tbl, hlk]; rfl
  have hch := h.chain
  have hnd := h.nodup
  simp only [addrsOf_append, addrsOf_cons] at hch hnd
  obtain ⟨hnd', hn', hA⟩ := nodup_mid hnd
  -- the link before n is not n
  have hpv : rd l.prev n = lastOf l.anchor (addrsOf xs) := (chain_append.1 hch).1.pv_end
  have hpn : rd l.prev n ≠ n := by
    rw [hpv]; intro e
    have hm := lastOf_mem l.anchor (addrsOf xs)
    rw [e] at hm
    apply hn'
    simp only [List.mem_cons, List.mem_append] at hm ⊢
    rcases hm with hm | hm
    · exact Or.inl hm
    · exact Or.inr (Or.inl hm)
  -- step A: splice n out
  have hA1 := hch.splice (nx' := rd (upd l.next (rd l.prev n) (rd l.next n)))
    (pv' := rd (upd l.prev (rd l.next n) (rd l.prev n))) hnd hA
    (rd_upd_self _ _ _) (fun b hb => rd_upd_ne _ _ hb) (rd_upd_self _ _ _) (fun b hb => rd_upd_ne _ _ hb)
  have hnx1 : rd (upd l.next (rd l.prev n) (rd l.next n)) n = rd l.next n := rd_upd_ne _ _ (Ne.symm hpn)
  -- step B: link n in before the anchor
  have hs := lastOf_mem l.anchor (addrsOf xs ++ addrsOf ys)
  have hsn : lastOf l.anchor (addrsOf xs ++ addrsOf ys) ≠ n := fun e => hn' (e ▸ hs)
  have hAn : l.anchor ≠ n := fun e => hn' (by simp [e])
  have hs1 := hA1.pv_end
  refine ⟨{ l with
      prev := upd (upd (upd l.prev (rd l.next n) (rd l.prev n)) l.anchor n) n
        (rd (upd l.prev (rd l.next n) (rd l.prev n)) l.anchor),
      next := upd (upd (upd l.next (rd l.prev n) (rd l.next n))
        (rd (upd l.prev (rd l.next n) (rd l.prev n)) l.anchor) n) n l.anchor }, ?_, ?_, rfl, rfl, rfl, rfl, rfl⟩
  · simp only [LL.moveToFront, ht, hnx1]
  · have hA2 := hA1.snoc (n := n)
      (nx' := rd (upd (upd (upd l.next (rd l.prev n) (rd l.next n))
        (rd (upd l.prev (rd l.next n) (rd l.prev n)) l.anchor) n) n l.anchor))
      (pv' := rd (upd (upd (upd l.prev (rd l.next n) (rd l.prev n)) l.anchor n) n
        (rd (upd l.prev (rd l.next n) (rd l.prev n)) l.anchor)))
      hnd' (fun hm => (List.nodup_cons.1 hnd').1 hm) hn'
      (by rw [rd_upd_ne _ _ (by rw [hs1]; exact hsn), rd_upd_self])
      (rd_upd_self _ _ _)
      (fun b h1 h2 => by rw [rd_upd_ne _ _ h2, rd_upd_ne _ _ h1])
      (by rw [rd_upd_ne _ _ hAn, rd_upd_self])
      (rd_upd_self _ _ _)
      (fun b h1 h2 => by rw [rd_upd_ne _ _ h2, rd_upd_ne _ _ h1])
    have hperm : (xs ++ ys ++ [(k, (n, v))]).Perm (xs ++ (k, (n, v)) :: ys) := by
      rw [List.append_assoc]
      exact (List.perm_append_left_iff xs).2 (List.perm_append_singleton _ _)
    refine ⟨?_, ?_, ?_, ?_, ?_, ?_, h.tn, ?_⟩
    · simpa [addrsOf] using hA2
    · have : (l.anchor :: addrsOf (xs ++ ys ++ [(k, (n, v))])).Perm (l.anchor :: addrsOf (xs ++ (k, (n, v)) :: ys)) :=
        (hperm.map _).cons _
      exact this.nodup_iff.2 h.nodup
    · intro a ha
      apply h.bound a
      simp only [addrsOf_append, addrsOf_cons, addrsOf_nil, List.mem_cons, List.mem_append, List.not_mem_nil, or_false] at ha ⊢
      rcases ha with ha | (ha | ha) | ha
      · exact Or.inl ha
      · exact Or.inr (Or.inl ha)
      · exact Or.inr (Or.inr (Or.inr ha))
      · exact Or.inr (Or.inr (Or.inl ha))
    · have := h.cnt; simp only [List.length_append, List.length_cons, List.length_nil] at this ⊢; omega
    · intro c hc; exact h.kv c (hperm.mem_iff.1 hc)
    · have : (keys (xs ++ ys ++ [(k, (n, v))])).Perm (keys (xs ++ (k, (n, v)) :: ys)) := hperm.map _
      exact this.nodup_iff.2 h.nk
    · intro k'
      rw [h.tbl k']
      congr 1
      simp only [lookup_append, lookup]
      by_cases e : k = k'
      · subst e
        have hky : lookup k ys = none := by
          rw [lookup_none_iff]
          simp only [keys_append, keys_cons] at hnk
          intro hm
          exact (List.nodup_cons.1 (List.nodup_append.1 hnk).2.1).1 hm
        simp [hkx, hky]
      · simp only [e, if_false]
        cases lookup k' xs <;> cases lookup k' ys <;> rfl

theorem Rep.table_none {l : LL K V} {cells : Cells K V} (h : Rep l cells) {k : K} (hk : lookup k cells = none) :
    lookup k l.table = none := by rw [h.tbl, hk]; rfl

theorem Rep.moveToFront_none {l : LL K V} {cells : Cells K V} (h : Rep l cells) {k : K}
    (hk : lookup k cells = none) : l.moveToFront k = none := by
  simp only [LL.moveToFront, h.table_none hk]

/-- `link[VALUE] = value` on the newest link -/
theorem Rep.setVal {l : LL K V} {cs : Cells K V} {k : K} {n : Nat} {v : V} (h : Rep l (cs ++ [(k, (n, v))])) (v' : V) :
    Rep { l with val := upd l.val n (some v') } (cs ++ [(k, (n, v'))]) := by
  have hnd := h.nodup
  refine ⟨by simpa [addrsOf] using h.chain, by simpa [addrsOf] using h.nodup, ?_, by simpa using h.cnt, ?_, ?_, h.tn, ?_⟩
  · intro a ha; apply h.bound a; simpa [addrsOf] using ha
  · intro c hc
    simp only [List.mem_append, List.mem_singleton] at hc
    rcases hc with hc | hc
    · have := h.kv c (by simp [hc])
      refine ⟨this.1, ?_⟩
      show rd (upd l.val n (some v')) c.2.1 = _
      rw [rd_upd_ne, this.2]
      intro e
      simp only [addrsOf_append, addrsOf_cons, addrsOf_nil] at hnd
      have hn2 := (List.nodup_cons.1 hnd).2
      have : c.2.1 ∈ addrsOf cs := List.mem_map_of_mem (f := fun c : K × (Nat × V) => c.2.1) hc
      exact (List.nodup_append.1 hn2).2.2 _ this n (by simp) e
    · subst hc
      have := h.kv (k, (n, v)) (by simp)
      exact ⟨this.1, rd_upd_self _ _ _⟩
  · simpa [keys] using h.nk
  · intro k'
    rw [h.tbl k']
    simp only [lookup_append, lookup]
    cases lookup k' cs <;> simp <;> split <;> rfl

theorem Rep.addFront {l : LL K V} {cells : Cells K V} (h : Rep l cells) {k : K} (v : V)
    (hk : lookup k cells = none) : Rep (l.addFront k v) (cells ++ [(k, (l.fresh, v))]) := by
  have hfr : l.fresh ∉ l.anchor :: addrsOf cells := fun hm => Nat.lt_irrefl _ (h.bound _ hm)
  have hAf : l.anchor ≠ l.fresh := fun e => hfr (by simp [e])
  have hs := lastOf_mem l.anchor (addrsOf cells)
  have hs1 := h.chain.pv_end
  have hsf : rd l.prev l.anchor ≠ l.fresh := by rw [hs1]; intro e; exact hfr (e ▸ hs)
  have hc := h.chain.snoc (n := l.fresh)
    (nx' := rd (upd (upd l.next l.fresh l.anchor) (rd l.prev l.anchor) l.fresh))
    (pv' := rd (upd (upd l.prev l.fresh (rd l.prev l.anchor)) l.anchor l.fresh))
    h.nodup (List.nodup_cons.1 h.nodup).1 hfr
    (rd_upd_self _ _ _)
    (by rw [rd_upd_ne _ _ (Ne.symm hsf), rd_upd_self])
    (fun b h1 h2 => by rw [rd_upd_ne _ _ h1, rd_upd_ne _ _ h2])
    (rd_upd_self _ _ _)
    (by rw [rd_upd_ne _ _ (Ne.symm hAf), rd_upd_self])
    (fun b h1 h2 => by rw [rd_upd_ne _ _ h1, rd_upd_ne _ _ h2])
  refine ⟨by simpa [LL.addFront, addrsOf] using hc, ?_, ?_, ?_, ?_, ?_, ?_, ?_⟩
  · show (l.anchor :: addrsOf (cells ++ [(k, (l.fresh, v))])).Nodup
    simp only [addrsOf_append, addrsOf_cons, addrsOf_nil, ← List.cons_append]
    refine List.nodup_append.2 ⟨h.nodup, by simp, ?_⟩
    intro a ha b hb
    simp at hb; subst hb
    intro e; exact hfr (e ▸ ha)
  · intro a ha
    show a < l.fresh + 1
    simp only [addrsOf_append, addrsOf_cons, addrsOf_nil, ← List.cons_append, List.mem_append, List.mem_singleton] at ha
    rcases ha with ha | ha
    · exact Nat.lt_succ_of_lt (h.bound a ha)
    · show a < l.fresh + 1; rw [ha]; exact Nat.lt_succ_self _
  · show (cells ++ [(k, (l.fresh, v))]).length < l.fresh + 1
    have := h.cnt; simp; omega
  · intro c hc
    simp only [List.mem_append, List.mem_singleton] at hc
    have hne : ∀ c ∈ cells, c.2.1 ≠ l.fresh := by
      intro c hc e
      have : c.2.1 ∈ addrsOf cells := List.mem_map_of_mem (f := fun c : K × (Nat × V) => c.2.1) hc
      exact hfr (by rw [← e]; exact List.mem_cons_of_mem _ this)
    rcases hc with hc | hc
    · have := h.kv c hc
      exact ⟨by show rd (upd l.key l.fresh (some k)) c.2.1 = _; rw [rd_upd_ne _ _ (hne c hc), this.1],
        by show rd (upd l.val l.fresh (some v)) c.2.1 = _; rw [rd_upd_ne _ _ (hne c hc), this.2]⟩
    · subst hc; exact ⟨rd_upd_self _ _ _, rd_upd_self _ _ _⟩
  · simpa [keys] using nodup_snoc h.nk (l.fresh, v) hk
  · show (keys (dset k l.fresh l.table)).Nodup
    rw [keys_dset, h.table_none hk]
    simpa using nodup_snoc h.tn l.fresh (h.table_none hk)
  · intro k'
    show lookup k' (dset k l.fresh l.table) = _
    by_cases e : k' = k
    · subst e; rw [lookup_dset_self, lookup_append, hk]; simp [lookup]
    · rw [lookup_dset_ne e, h.tbl k', lookup_append]
      cases lookup k' cells with
      | some x => rfl
      | none => simp [lookup, Ne.symm e]

theorem Rep.evictLast {l : LL K V} {e : K} {ae : Nat} {ve : V} {rest : Cells K V} (h : Rep l ((e, (ae, ve)) :: rest))
    {k : K} (v : V) (hk : lookup k ((e, (ae, ve)) :: rest) = none) :
    ∃ l', l.evictLast k v = (l', some e) ∧ Rep l' (rest ++ [(k, (l.anchor, v))]) := by
  have hch := h.chain
  have hnd := h.nodup
  simp only [addrsOf_cons] at hch hnd
  have hnx : rd l.next l.anchor = ae := hch.1
  have hAe : l.anchor ≠ ae := fun e' => (List.nodup_cons.1 hnd).1 (by simp [e'])
  have hke : rd l.key ae = some e := (h.kv (e, (ae, ve)) (by simp)).1
  have hek : e ≠ k := by
    intro e'; simp [lookup, e'] at hk
  have hkr : lookup k rest = none := by
    simp only [lookup, if_neg hek] at hk; exact hk
  have her : lookup e rest = none := by
    rw [lookup_none_iff]
    have := h.nk; simp only [keys_cons, List.nodup_cons] at this; exact this.1
  have hev : rd (upd l.key l.anchor (some k)) (rd l.next l.anchor) = some e := by
    rw [hnx, rd_upd_ne _ _ (Ne.symm hAe), hke]
  have hte : lookup k (eraseKey e l.table) = none := by
    rw [lookup_eraseKey_ne (Ne.symm hek)]; exact h.table_none hk
  refine ⟨{ l with
      key := upd (upd l.key l.anchor (some k)) ae none
      val := upd (upd l.val l.anchor (some v)) ae none
      anchor := ae
      table := dset k l.anchor (eraseKey e l.table) }, ?_, ?_⟩
  · rw [hnx] at hev
    simp only [LL.evictLast, hnx, hev]
  · have hperm : (ae :: (addrsOf rest ++ [l.anchor])).Perm (l.anchor :: ae :: addrsOf rest) := by
      refine (List.Perm.cons _ (List.perm_append_singleton _ _)).trans (List.Perm.swap _ _ _)
    have hmem : ∀ c ∈ rest, c.2.1 ≠ l.anchor ∧ c.2.1 ≠ ae := by
      intro c hc
      have hm : c.2.1 ∈ addrsOf rest := List.mem_map_of_mem (f := fun c : K × (Nat × V) => c.2.1) hc
      have h1 := List.nodup_cons.1 hnd
      have h2 := List.nodup_cons.1 h1.2
      exact ⟨fun e' => h1.1 (by rw [← e']; exact List.mem_cons_of_mem _ hm), fun e' => h2.1 (e' ▸ hm)⟩
    refine ⟨?_, ?_, ?_, ?_, ?_, ?_, ?_, ?_⟩
    · simpa [addrsOf] using hch.rotate
    · simpa [addrsOf] using hperm.nodup_iff.2 hnd
    · intro a ha
      apply h.bound a
      have : a ∈ ae :: (addrsOf rest ++ [l.anchor]) := by simpa [addrsOf] using ha
      simpa using hperm.mem_iff.1 this
    · have := h.cnt; simp at this ⊢; omega
    · intro c hc
      simp only [List.mem_append, List.mem_singleton] at hc
      rcases hc with hc | hc
      · have := h.kv c (List.mem_cons_of_mem _ hc)
        have hne := hmem c hc
        exact ⟨by show rd (upd (upd l.key l.anchor (some k)) ae none) c.2.1 = _
                  rw [rd_upd_ne _ _ hne.2, rd_upd_ne _ _ hne.1, this.1],
               by show rd (upd (upd l.val l.anchor (some v)) ae none) c.2.1 = _
                  rw [rd_upd_ne _ _ hne.2, rd_upd_ne _ _ hne.1, this.2]⟩
      · subst hc
        exact ⟨by show rd (upd (upd l.key l.anchor (some k)) ae none) l.anchor = _
                  rw [rd_upd_ne _ _ hAe, rd_upd_self],
               by show rd (upd (upd l.val l.anchor (some v)) ae none) l.anchor = _
                  rw [rd_upd_ne _ _ hAe, rd_upd_self]⟩
    · have := h.nk; simp only [keys_cons, List.nodup_cons] at this
      simpa [keys] using nodup_snoc this.2 (l.anchor, v) hkr
    · show (keys (dset k l.anchor (eraseKey e l.table))).Nodup
      rw [keys_dset, hte]
      simpa using nodup_snoc (nodup_eraseKey e l.table h.tn) l.anchor hte
    · intro k'
      show lookup k' (dset k l.anchor (eraseKey e l.table)) = _
      by_cases e1 : k' = k
      · subst e1; rw [lookup_dset_self, lookup_append, hkr]; simp [lookup]
      · rw [lookup_dset_ne e1, lookup_append]
        by_cases e2 : k' = e
        · subst e2
          rw [lookup_eraseKey_self _ _ h.tn, her]; simp [lookup, Ne.symm e1]
        · rw [lookup_eraseKey_ne e2, h.tbl k']
          simp only [lookup, if_neg (Ne.symm e2)]
          cases lookup k' rest with
          | some x => rfl
          | none => simp [Ne.symm e1]

theorem Rep.remove {l : LL K V} {xs ys : Cells K V} {k : K} {n : Nat} {v : V}
    (h : Rep l (xs ++ (k, (n, v)) :: ys)) : ∃ l', l.remove k = some l' ∧ Rep l' (xs ++ ys) := by
  have hnk := h.nk
  have hkx : lookup k xs = none := by
    rw [lookup_none_iff]
    simp only [keys_append, keys_cons] at hnk
    intro hm
    exact (List.nodup_append.1 hnk).2.2 k hm k (by simp) rfl
  have hky : lookup k ys = none := by
    rw [lookup_none_iff]
    simp only [keys_append, keys_cons] at hnk
    intro hm
    exact (List.nodup_cons.1 (List.nodup_append.1 hnk).2.1).1 hm
  have hlk : lookup k (xs ++ (k, (n, v)) :: ys) = some (n, v) := by
    rw [lookup_append, hkx]; simp [lookup]
  have ht : lookup k l.table = some n := by rw [h.tbl, hlk]; rfl
  have hch := h.chain
  have hnd := h.nodup
  simp only [addrsOf_append, addrsOf_cons] at hch hnd
  obtain ⟨hnd', hn', hA⟩ := nodup_mid hnd
  have hpv : rd l.prev n = lastOf l.anchor (addrsOf xs) := (chain_append.1 hch).1.pv_end
  have hpn : rd l.prev n ≠ n := by
    rw [hpv]; intro e
    have hm := lastOf_mem l.anchor (addrsOf xs)
    rw [e] at hm
    apply hn'
    simp only [List.mem_cons, List.mem_append] at hm ⊢
    rcases hm with hm | hm
    · exact Or.inl hm
    · exact Or.inr (Or.inl hm)
  have hA1 := hch.splice (nx' := rd (upd l.next (rd l.prev n) (rd l.next n)))
    (pv' := rd (upd l.prev (rd l.next n) (rd l.prev n))) hnd hA
    (rd_upd_self _ _ _) (fun b hb => rd_upd_ne _ _ hb) (rd_upd_self _ _ _) (fun b hb => rd_upd_ne _ _ hb)
  have hnx1 : rd (upd l.next (rd l.prev n) (rd l.next n)) n = rd l.next n := rd_upd_ne _ _ (Ne.symm hpn)
  refine ⟨{ l with
      prev := upd l.prev (rd l.next n) (rd l.prev n)
      next := upd l.next (rd l.prev n) (rd l.next n)
      table := eraseKey k l.table }, ?_, ?_⟩
  · simp only [LL.remove, ht, hnx1]
  · have hsub : ∀ c ∈ xs ++ ys, c ∈ xs ++ (k, (n, v)) :: ys := by
      intro c hc; simp only [List.mem_append, List.mem_cons] at hc ⊢; rcases hc with hc | hc
      · exact Or.inl hc
      · exact Or.inr (Or.inr hc)
    refine ⟨by simpa [addrsOf] using hA1, by simpa [addrsOf] using hnd', ?_, ?_, ?_, ?_, nodup_eraseKey k _ h.tn, ?_⟩
    · intro a ha
      apply h.bound a
      simp only [addrsOf_append, addrsOf_cons, List.mem_cons, List.mem_append] at ha ⊢
      rcases ha with ha | ha | ha
      · exact Or.inl ha
      · exact Or.inr (Or.inl ha)
      · exact Or.inr (Or.inr (Or.inr ha))
    · have := h.cnt; simp only [List.length_append, List.length_cons] at this ⊢; omega
    · intro c hc; exact h.kv c (hsub c hc)
    · have : (keys (xs ++ ys)).Sublist (keys (xs ++ (k, (n, v)) :: ys)) := by
        simp only [keys_append, keys_cons]
        exact List.Sublist.append (List.Sublist.refl _) (List.sublist_cons_self _ _)
      exact hnk.sublist this
    · intro k'
      show lookup k' (eraseKey k l.table) = _
      by_cases e : k' = k
      · subst e; rw [lookup_eraseKey_self _ _ h.tn, lookup_append, hkx, hky]; rfl
      · rw [lookup_eraseKey_ne e, h.tbl k']
        simp only [lookup_append, lookup, if_neg (Ne.symm e)]

theorem Rep.remove_none {l : LL K V} {cells : Cells K V} (h : Rep l cells) {k : K}
    (hk : lookup k cells = none) : l.remove k = none := by
  simp only [LL.remove, h.table_none hk]

/-! the traversal of `copy()` -/

theorem walk_chain (l : LL K V) {a : Nat} {xs : List Nat} (h : Chain (rd l.next) (rd l.prev) a xs l.anchor)
    (hA : l.anchor ∉ xs) (fuel : Nat) (hf : xs.length ≤ fuel) :
    l.walk fuel (rd l.next a) = xs.map (fun x => (rd l.key x, rd l.val x)) := by
  induction xs generalizing a fuel with
  | nil =>
    rw [h.1]
    cases fuel with
    | zero => rfl
    | succ f => simp [LL.walk]
  | cons x xs ih =>
    cases fuel with
    | zero => simp at hf
    | succ f =>
      rw [h.1]
      have hx : x ≠ l.anchor := fun e => hA (by simp [e])
      simp only [LL.walk, if_neg hx, List.map_cons]
      rw [ih h.2.2 (fun hm => hA (List.mem_cons_of_mem _ hm)) f (by simpa using hf)]

theorem Rep.flatten {l : LL K V} {cells : Cells K V} (h : Rep l cells) :
    l.flatten = (ringOf cells).map (fun p => (some p.1, some p.2)) := by
  unfold LL.flatten
  rw [walk_chain l h.chain (List.nodup_cons.1 h.nodup).1 l.fresh (by simp [addrsOf]; exact Nat.le_of_lt h.cnt)]
  simp only [addrsOf, ringOf, mapVal, List.map_map]
  apply List.map_congr_left
  intro c hc
  have := h.kv c hc
  simp [this.1, this.2]

theorem ringOf_snoc (cells : Cells K V) (k : K) (n : Nat) (v : V) :
    ringOf (cells ++ [(k, (n, v))]) = ringOf cells ++ [(k, v)] := by simp [ringOf]

theorem lookup_ringOf (k : K) (cells : Cells K V) : lookup k (ringOf cells) = (lookup k cells).map (·.2) :=
  lookup_mapVal _ k cells

theorem Rep.addAll {l0 : LL K V} {c0 : Cells K V} (h : Rep l0 c0) (r : List (K × V))
    (hr : (keys (ringOf c0 ++ r)).Nodup) :
    ∃ c1, Rep (l0.addAll (r.map fun p => (some p.1, some p.2))) c1 ∧ ringOf c1 = ringOf c0 ++ r := by
  induction r generalizing l0 c0 with
  | nil => exact ⟨c0, h, by simp⟩
  | cons p r ih =>
    have hp : lookup p.1 c0 = none := by
      rw [lookup_none_iff, ← keys_mapVal (·.2)]
      simp only [keys_append, keys_cons] at hr
      intro hm
      exact (List.nodup_append.1 hr).2.2 p.1 hm p.1 (by simp) rfl
    have h1 := h.addFront p.2 hp
    have hr' : (keys (ringOf (c0 ++ [(p.1, (l0.fresh, p.2))]) ++ r)).Nodup := by
      rw [ringOf_snoc]; simpa using hr
    obtain ⟨c1, g1, g2⟩ := ih h1 hr'
    refine ⟨c1, by simpa [LL.addAll] using g1, ?_⟩
    rw [g2, ringOf_snoc]; simp

end C02
