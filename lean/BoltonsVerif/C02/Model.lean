/-
C02 — model of `boltons.cacheutils.LRI` / `LRU` (after the `fix:` commits for `|=`,
`copy()`, `==` and `get()` on branch c02-work).

Transliteration of the Python classes:
  * the `dict` storage of the cache (it IS a dict subclass) is the association list `d`
    in CPython's dict order (insertion order; re-assignment keeps the position;
    `popitem` removes the last entry);
  * the circular doubly linked list anchored at `_anchor` is the list `ring` of the links'
    `(KEY, VALUE)` fields, OLDEST FIRST (the link after the anchor is the head, the link
    before the anchor is the last element).  `_link_lookup[key]` is "the link of `ring`
    whose KEY is `key`" (`lookup key ring`);
      _get_link_and_move_to_front_of_ll  = remove the link, append it        (`toFront`)
      _set_key_and_add_to_front_of_ll    = append a new link
      _set_key_and_evict_last_in_ll      = drop the head, append a new link (the anchor
                                            rotation changes no link order, only which
                                            cell is the sentinel)
      _remove_from_ll                    = remove the link
  * `hit_count`, `miss_count`, `soft_miss_count` are `hit`, `miss`, `soft`;
  * `omLog` is a ghost field: the keys `on_miss` has been called with, oldest first
    (observable from outside because the caller supplies `on_miss`).
  * `lru = true` is class `LRU` (only `__getitem__` differs: a hit moves the link to the
    front), `lru = false` is `LRI`.
`max` is `max_size`; the constructor rejects `max_size <= 0`.
In this file `on_miss` is a function of the key that does not touch the cache; it may return a value, raise
KeyError, or raise some other exception (`OmRes`).  A RE-ENTRANT on_miss — a callback that calls methods of the
cache that is waiting for its result, branches on what they return, keeps state — is `Reent.lean`, built on
the definitions below (`Reent`'s interpreter with callbacks that make no calls is exactly `step`:
`Props.reentrant_pure_is_plain`).
Every public method body runs under `self._lock`; one `step` = one atomic method call.
Core Lean only.
-/
namespace C02

variable {K V : Type} [DecidableEq K]

/-! association lists (dict storage, ring of links) -/

/-- value stored under `k` (first match) -/
def lookup (k : K) : List (K × V) → Option V
  | [] => none
  | p :: l => if p.1 = k then some p.2 else lookup k l

/-- remove the entry with key `k` (first match) -/
def eraseKey (k : K) : List (K × V) → List (K × V)
  | [] => []
  | p :: l => if p.1 = k then l else p :: eraseKey k l

/-- `dict.__setitem__`: overwrite in place (the stored key object is kept) or append -/
def dset (k : K) (v : V) : List (K × V) → List (K × V)
  | [] => [(k, v)]
  | p :: l => if p.1 = k then (p.1, v) :: l else p :: dset k v l

/-- keys of an association list, in order -/
def keys (l : List (K × V)) : List K := l.map Prod.fst

/-- what a call of `on_miss(key)` does: return a value, raise KeyError (which `get` / `setdefault`
    swallow like any KeyError), or raise an exception of another class (which propagates) -/
inductive OmRes (V : Type) where
  | ret (v : V)
  | keyError
  | error
deriving DecidableEq

structure Cache (K V : Type) where
  lru    : Bool
  max    : Nat
  onMiss : Option (K → OmRes V)
  d      : List (K × V)
  ring   : List (K × V)
  hit    : Nat
  miss   : Nat
  soft   : Nat
  omLog  : List K

/-- the state of one cache (name used by the concurrency model C03) -/
abbrev State (K V : Type) := Cache K V

/-- `LRI(max_size, on_miss=…)` / `LRU(…)` without initial values; `on_miss` may raise -/
def Cache.initP (lru : Bool) (max : Nat) (onMiss : Option (K → OmRes V)) : Cache K V :=
  ⟨lru, max, onMiss, [], [], 0, 0, 0, []⟩

/-- an `on_miss` that always returns -/
def totalOm (f : K → V) : K → OmRes V := fun k => .ret (f k)

/-- the same with an `on_miss` that never raises -/
def Cache.init (lru : Bool) (max : Nat) (onMiss : Option (K → V)) : Cache K V :=
  Cache.initP lru max (onMiss.map totalOm)

/-- `_get_link_and_move_to_front_of_ll(key)` followed by `link[VALUE] = v` on a ring that
    has a link for `k` -/
def toFront (k : K) (v : V) (ring : List (K × V)) : List (K × V) := eraseKey k ring ++ [(k, v)]

/-- `__setitem__`.  (Evicting from an empty ring — only possible when dict and ring are out
    of step — raises KeyError from `del self._link_lookup[evicted]` before anything changed;
    `Proofs.evict_ring_nonempty` shows the branch is unreachable.) -/
def Cache.setitem (c : Cache K V) (k : K) (v : V) : Cache K V :=
  match lookup k c.ring with
  | some _ => { c with ring := toFront k v c.ring, d := dset k v c.d }
  | none =>
    if c.d.length < c.max then { c with ring := c.ring ++ [(k, v)], d := dset k v c.d }
    else match c.ring with
      | [] => c
      | e :: rest => { c with ring := rest ++ [(k, v)], d := dset k v (eraseKey e.1 c.d) }

/-- results of one public method call (`C` = the type of caches, for the result of `copy()`) -/
inductive Out (K V C : Type) where
  | none                         -- the call returns None / is a statement
  | val (v : V)
  | keyError
  | raised                       -- an exception of another class (raised by on_miss) propagates
  | item (k : K) (v : V)
  | bool (b : Bool)
  | nat (n : Nat)
  | items (l : List (K × V))     -- iteration, in order
  | cache (c : C)                -- the new cache returned by copy()

/-- `LRI.__getitem__` / `LRU.__getitem__` -/
def Cache.getitem (c : Cache K V) (k : K) : Cache K V × Out K V (Cache K V) :=
  match lookup k c.ring with
  | some v =>
    ({ c with hit := c.hit + 1, ring := if c.lru then toFront k v c.ring else c.ring }, .val v)
  | none =>
    match c.onMiss with
    | none => ({ c with miss := c.miss + 1 }, .keyError)
    | some f =>
      -- `self.miss_count += 1` happens before `on_miss` is called: a raising on_miss is still a miss
      match f k with
      | .ret v => (({ c with miss := c.miss + 1, omLog := c.omLog ++ [k] } : Cache K V).setitem k v, .val v)
      | .keyError => ({ c with miss := c.miss + 1, omLog := c.omLog ++ [k] }, .keyError)
      | .error => ({ c with miss := c.miss + 1, omLog := c.omLog ++ [k] }, .raised)

/-- `__delitem__`, and the removal half of `pop` / `popitem`: `dict.__delitem__` then
    `_remove_from_ll` -/
def Cache.remove (c : Cache K V) (k : K) : Cache K V :=
  { c with d := eraseKey k c.d, ring := eraseKey k c.ring }

/-- the first argument of `update` / the right operand of `|=` and `==` -/
inductive Arg (K V : Type) where
  | self                              -- the cache itself
  | pairs (l : List (K × V))          -- a mapping (in its key order) or an iterable of pairs

/-- `for k, v in …: setitem(k, v)` -/
def Cache.setAll (c : Cache K V) (l : List (K × V)) : Cache K V :=
  l.foldl (fun c p => c.setitem p.1 p.2) c

/-- `dict.__eq__`: same length and every item of `a` is an item of `b` -/
def dictEq [DecidableEq V] (a b : List (K × V)) : Bool :=
  a.length == b.length && a.all (fun p => lookup p.1 b == some p.2)

/-- the dict-API operations of the property statement -/
inductive Op (K V : Type) where
  | setitem (k : K) (v : V)                         -- c[k] = v
  | getitem (k : K)                                 -- c[k]
  | delitem (k : K)                                 -- del c[k]
  | get (k : K) (dflt : V)                          -- c.get(k, dflt)
  | setdefault (k : K) (dflt : V)                   -- c.setdefault(k, dflt)
  | update (e : Arg K V) (kw : List (K × V))        -- c.update(E, **kw)
  | ior (e : Arg K V)                               -- c |= E
  | pop (k : K) (dflt : Option V)                   -- c.pop(k[, dflt])
  | popitem
  | clear
  | copy
  | contains (k : K)                                -- k in c
  | len
  | items                                           -- list(c.items()) (keys()/values()/iter agree)
  | eq (o : Arg K V)                                -- c == o
  | ne (o : Arg K V)                                -- c != o
  | updateFail (l : List (K × V))                   -- c.update(E) / c |= E where iterating E yields l, then raises
  | eqOther                                         -- c == x for an x that is not a mapping (None, 5, a list …)
  | neOther                                         -- c != x for such an x

/-- `update(E, **F)` -/
def Cache.update (c : Cache K V) (e : Arg K V) (kw : List (K × V)) : Cache K V :=
  match e with
  | .self => c                       -- `if E is self: return` (keyword arguments are ignored too)
  | .pairs l => (c.setAll l).setAll kw

def Cache.eqArg [DecidableEq V] (c : Cache K V) : Arg K V → Bool
  | .self => true
  | .pairs o => dictEq c.d o

/-- the cache `copy()` returns: same class, capacity, on_miss, dict order and ring order;
    fresh counters -/
def Cache.copied (c : Cache K V) : Cache K V :=
  { c with hit := 0, miss := 0, soft := 0, omLog := [] }

/-- one public method call, atomically: new state and result -/
def step [DecidableEq V] (c : Cache K V) : Op K V → Cache K V × Out K V (Cache K V)
  | .setitem k v => (c.setitem k v, .none)
  | .getitem k => c.getitem k
  | .delitem k =>
    match lookup k c.d with
    | none => (c, .keyError)
    | some _ => (c.remove k, .none)
  | .get k dflt =>
    match c.getitem k with
    | (c', .keyError) => ({ c' with soft := c'.soft + 1 }, .val dflt)
    | r => r
  | .setdefault k dflt =>
    match c.getitem k with
    | (c', .keyError) => (({ c' with soft := c'.soft + 1 } : Cache K V).setitem k dflt, .val dflt)
    | r => r
  | .update e kw => (c.update e kw, .none)
  | .ior e => (c.update e [], .none)
  | .pop k dflt =>
    match lookup k c.d with
    | some v => (c.remove k, .val v)
    | none => match dflt with
      | some v => (c, .val v)
      | none => (c, .keyError)
  | .popitem =>
    match c.d.getLast? with
    | none => (c, .keyError)
    | some p => ({ c with d := c.d.dropLast, ring := eraseKey p.1 c.ring }, .item p.1 p.2)
  | .clear => ({ c with d := [], ring := [] }, .none)
  | .copy => (c, .cache c.copied)
  | .contains k => (c, .bool (lookup k c.d).isSome)
  | .len => (c, .nat c.d.length)
  | .items => (c, .items c.d)
  | .eq o => (c, .bool (c.eqArg o))
  | .ne o => (c, .bool (!c.eqArg o))
  -- `for k, v in E: setitem(k, v)` assigns the pairs it gets before the iterator (or the unpacking of
  -- a malformed element) raises; the exception propagates, keyword arguments are never reached
  | .updateFail l => (c.setAll l, .raised)
  -- `dict.__eq__` answers NotImplemented for a non-dict, the reflected comparison too: identity decides
  | .eqOther => (c, .bool false)
  | .neOther => (c, .bool true)

/-- a whole history on one cache: final state (results dropped) -/
def run [DecidableEq V] (c : Cache K V) (ops : List (Op K V)) : Cache K V :=
  ops.foldl (fun c op => (step c op).1) c

/-- the results of a history, in order -/
def outs [DecidableEq V] (c : Cache K V) : List (Op K V) → List (Out K V (Cache K V))
  | [] => []
  | op :: ops => (step c op).2 :: outs (step c op).1 ops

/-! several caches: `copy()` adds a cache, `==` may compare two of them, `update` / `|=` may read one
    cache into another -/

inductive WOp (K V : Type) where
  | on (i : Nat) (op : Op K V)       -- call a method of cache number i
  | eqc (i j : Nat)                  -- cache i == cache j
  | nec (i j : Nat)                  -- cache i != cache j
  | updc (i j : Nat) (kw : List (K × V))   -- cache i .update(cache j, **kw)   (`i |= j` is `updc i j []`)

/-- `for k in E.keys(): setitem(k, E[k])` where `E` is another cache `o`: every `E[k]` is a call of
    `o.__getitem__` (it counts a hit on `o` and, for an LRU, refreshes the key in `o`).  The flag is
    false when an `E[k]` raised (impossible while `o`'s dict and ring are in step:
    `Props.update_from_cache`); the update stops there. -/
def updFrom (c o : Cache K V) : List K → Cache K V × Cache K V × Bool
  | [] => (c, o, true)
  | k :: ks =>
    match o.getitem k with
    | (o', .val v) => updFrom (c.setitem k v) o' ks
    | (o', _) => (c, o', false)

/-- the right operand "cache number j" as seen by cache number i -/
def argOf (w : List (Cache K V)) (i j : Nat) : Arg K V :=
  if i = j then .self else match w[j]? with
    | some o => .pairs o.d
    | none => .pairs []

def wstep [DecidableEq V] (w : List (Cache K V)) : WOp K V → List (Cache K V) × Out K V (Cache K V)
  | .on i op =>
    match w[i]? with
    | none => (w, .none)
    | some c =>
      match step c op with
      | (c', .cache n) => (w.set i c' ++ [n], .cache n)
      | (c', o) => (w.set i c', o)
  | .eqc i j =>
    match w[i]? with
    | none => (w, .none)
    | some c => (w, (step c (.eq (argOf w i j))).2)
  | .nec i j =>
    match w[i]? with
    | none => (w, .none)
    | some c => (w, (step c (.ne (argOf w i j))).2)
  | .updc i j kw =>
    match w[i]?, w[j]? with
    | some c, some o =>
      if i = j then (w, .none)          -- `if E is self: return`
      else match updFrom c o (keys o.d) with
        | (c', o', true) => ((w.set i (c'.setAll kw)).set j o', .none)
        | (c', o', false) => ((w.set i c').set j o', .keyError)
    | _, _ => (w, .none)

def wrun [DecidableEq V] (w : List (Cache K V)) (ops : List (WOp K V)) : List (Cache K V) :=
  ops.foldl (fun w op => (wstep w op).1) w

def wouts [DecidableEq V] (w : List (Cache K V)) : List (WOp K V) → List (Out K V (Cache K V))
  | [] => []
  | op :: ops => (wstep w op).2 :: wouts (wstep w op).1 ops

/-- a result with the payload of `copy()` forgotten -/
def Out.shape {C : Type} : Out K V C → Out K V Unit
  | .none => .none
  | .val v => .val v
  | .keyError => .keyError
  | .raised => .raised
  | .item k v => .item k v
  | .bool b => .bool b
  | .nat n => .nat n
  | .items l => .items l
  | .cache _ => .cache ()

end C02
