import BoltonsVerif.C02.ReentInst
/-
C02 — facts about ONE machine under a re-entrant on_miss: invariants carried through the interpreter
(`MInv`, derived from the binary lemma with both sides equal), the representation invariant and the
configuration of the ring model, the equations for `__getitem__` on an absent key, and the collapse
to the plain model when the programs make no calls.
-/
set_option linter.unusedSectionVars false
namespace C02
variable {K V C : Type} [DecidableEq K]

/-- a family of predicates (index: misses not yet matched by soft misses) kept by the primitive steps;
    `QC` is what holds of a cache returned by copy() -/
structure MInv (M : Mach K V C) (Q : Nat → C → Prop) (QC : C → Prop) : Prop where
  weaken : ∀ {n c}, Q (n + 1) c → Q n c
  hit : ∀ {n c} (k : K), Q n c → M.find c k = true → Q n (M.hit c k).1 ∧ ∃ v, (M.hit c k).2 = .val v
  missed : ∀ {n c} (k : K), Q n c → Q (n + 1) (M.missed c k)
  setitem : ∀ {n c} (k : K) (v : V), Q n c → Q n (M.setitem c k v)
  soft : ∀ {n c}, Q (n + 1) c → Q n (M.soft c)
  step : ∀ {n c} (op : Op K V), Q n c → op.isLookup = false →
    Q n (M.step c op).1 ∧ ∀ m, (M.step c op).2 = .cache m → QC m

variable {M : Mach K V C} {Q : Nat → C → Prop} {QC : C → Prop}

theorem OutRel.refl_of {R : C → C → Prop} (o : Out K V C) (h : ∀ m, o = .cache m → R m m) : OutRel R o o := by
  cases o with
  | cache m => exact OutRel.cache (h m rfl)
  | none => exact OutRel.none
  | val v => exact OutRel.val v
  | keyError => exact OutRel.keyError
  | raised => exact OutRel.raised
  | item k v => exact OutRel.item k v
  | bool b => exact OutRel.bool b
  | nat n => exact OutRel.nat n
  | items l => exact OutRel.items l

theorem MInv.toMSim (h : MInv M Q QC) : MSim M M (fun n c s => c = s ∧ Q n c) (fun c s => c = s ∧ QC c) where
  weaken := fun ⟨e, q⟩ => ⟨e, h.weaken q⟩
  log := fun ⟨e, _⟩ => by rw [e]
  find := fun k ⟨e, _⟩ => by rw [e]
  hit := fun k ⟨e, q⟩ hf => by
    subst e
    obtain ⟨q', v, hv⟩ := h.hit k q hf
    exact ⟨⟨rfl, q'⟩, v, hv, hv⟩
  missed := fun k ⟨e, q⟩ => by subst e; exact ⟨rfl, h.missed k q⟩
  setitem := fun k v ⟨e, q⟩ => by subst e; exact ⟨rfl, h.setitem k v q⟩
  soft := fun ⟨e, q⟩ => by subst e; exact ⟨rfl, h.soft q⟩
  step := fun op ⟨e, q⟩ hop => by
    subst e
    obtain ⟨q', hc⟩ := h.step op q hop
    exact ⟨⟨rfl, q'⟩, OutRel.refl_of _ (fun m hm => ⟨rfl, hc m hm⟩)⟩

/-- one public call with a re-entrant on_miss keeps the invariant; a cache returned by copy() has it -/
theorem MInv.rstep (h : MInv M Q QC) (P : List K → K → OmProg K V) (fuel : Nat) {n : Nat} {c : C} (q : Q n c) (op : Op K V) :
    Q n (M.rstep P fuel c op).1 ∧ ∀ m, (M.rstep P fuel c op).2 = .cache m → QC m := by
  have := h.toMSim.rstep P fuel (n := n) (c := c) (s := c) ⟨rfl, q⟩ op
  refine ⟨this.1.2, fun m hm => ?_⟩
  have ho := this.2
  rw [hm] at ho
  cases ho with
  | cache hn => exact hn.2

/-- `__getitem__` with a re-entrant on_miss keeps the invariant; after a KeyError outcome one more miss
    than soft misses has been counted -/
theorem MInv.rget (h : MInv M Q QC) (P : List K → K → OmProg K V) (fuel : Nat) {n : Nat} {c : C} (q : Q n c) (k : K) :
    Q n (M.rget P fuel c k).1 ∧ ((M.rget P fuel c k).2 = .keyError → Q (n + 1) (M.rget P fuel c k).1) := by
  have := h.toMSim.rget P fuel n c c k ⟨rfl, q⟩
  exact ⟨this.1.2, fun e => (this.2.2 e).2⟩

/-- a run of the callback keeps the invariant -/
theorem MInv.runBody (h : MInv M Q QC) (P : List K → K → OmProg K V) (fuel : Nat) (p : OmProg K V) {n : Nat} {c : C}
    (q : Q n c) : Q n (runProg (M.rstep P fuel) c p).1 :=
  (h.toMSim.runProg (h.toMSim.rget P fuel) p (n := n) (c := c) (s := c) ⟨rfl, q⟩).1.2

/-- a whole history -/
theorem MInv.rrun (h : MInv M Q QC) (P : List K → K → OmProg K V) (fuel : Nat) {n : Nat} {c : C} (q : Q n c)
    (ops : List (Op K V)) : Q n (M.rrun P fuel c ops) := by
  unfold Mach.rrun
  induction ops generalizing c with
  | nil => exact q
  | cons op ops ih => exact ih (h.rstep P fuel q op).1

/-! ### the ring model -/

variable [DecidableEq V]

/-- representation invariant + `soft_miss_count + n <= miss_count` -/
def InvN (n : Nat) (c : Cache K V) : Prop := Inv c ∧ c.soft + n ≤ c.miss

theorem InvN.zero_iff {c : Cache K V} : InvN 0 c ↔ Inv c := ⟨fun h => h.1, fun h => ⟨h, h.soft_le⟩⟩

theorem Cache.getitem_found {c : Cache K V} {k : K} (hf : (Cache.mach (V := V)).find c k = true) :
    ∃ v, lookup k c.ring = some v ∧ c.getitem k =
      ({ c with hit := c.hit + 1, ring := if c.lru then toFront k v c.ring else c.ring }, .val v) := by
  have hf' : (lookup k c.ring).isSome = true := hf
  obtain ⟨v, hk⟩ := Option.isSome_iff_exists.1 hf'
  exact ⟨v, hk, Cache.getitem_hit hk⟩

/-- only copy() returns a cache -/
theorem step_cache_out {c m : Cache K V} {op : Op K V} (hop : op.isLookup = false)
    (hm : (C02.step c op).2 = .cache m) : m = c.copied := by
  cases op with
  | copy => simp only [C02.step] at hm; cases hm; rfl
  | getitem k => simp [Op.isLookup] at hop
  | get k d => simp [Op.isLookup] at hop
  | setdefault k d => simp [Op.isLookup] at hop
  | delitem k => simp only [C02.step] at hm; split at hm <;> cases hm
  | pop k d =>
    simp only [C02.step] at hm
    split at hm
    · cases hm
    · split at hm <;> cases hm
  | popitem => simp only [C02.step] at hm; split at hm <;> cases hm
  | setitem k v => cases hm
  | update e kw => cases hm
  | ior e => cases hm
  | clear => cases hm
  | contains k => cases hm
  | len => cases hm
  | items => cases hm
  | eq o => cases hm
  | ne o => cases hm
  | updateFail l => cases hm
  | eqOther => cases hm
  | neOther => cases hm

theorem Cache.machInv : MInv (Cache.mach (K := K) (V := V)) InvN (InvN 0) where
  weaken := fun h => ⟨h.1, by have := h.2; omega⟩
  hit := fun {n c} k h hf => by
    obtain ⟨v, _, hg⟩ := Cache.getitem_found hf
    have hi := Cache.getitem_inv h.1 k
    show InvN n (c.getitem k).1 ∧ ∃ v, (c.getitem k).2 = .val v
    refine ⟨⟨hi, ?_⟩, v, by rw [hg]⟩
    rw [hg]; exact h.2
  missed := fun {n c} k h =>
    ⟨⟨h.1.sync, h.1.cap, h.1.pos, Nat.le_succ_of_le h.1.soft_le⟩, by show c.soft + (n + 1) ≤ c.miss + 1; have := h.2; omega⟩
  setitem := fun {n c} k v h =>
    ⟨Cache.setitem_inv h.1 k v, by show (c.setitem k v).soft + n ≤ (c.setitem k v).miss; simp; exact h.2⟩
  soft := fun {n c} h =>
    ⟨⟨h.1.sync, h.1.cap, h.1.pos, by show c.soft + 1 ≤ c.miss; have := h.2; omega⟩,
     by show c.soft + 1 + n ≤ c.miss; have := h.2; omega⟩
  step := fun {n c} op h hop => by
    have hc := step_nonlookup c op (Op.lookupKey_of_not_isLookup hop)
    refine ⟨⟨step_inv h.1 op, by show (C02.step c op).1.soft + n ≤ (C02.step c op).1.miss; rw [hc.2.2.1, hc.2.1]; exact h.2⟩,
      fun m hm => ?_⟩
    have := step_cache_out hop hm
    subst this
    exact ⟨⟨h.1.sync, h.1.cap, h.1.pos, Nat.le_refl _⟩, Nat.le_refl _⟩

/-- class, capacity and on_miss field are constant -/
theorem Cache.machConfig (cfg : Bool × Nat × Option (K → OmRes V)) :
    MInv (Cache.mach (K := K) (V := V)) (fun _ c => c.config = cfg) (fun c => c.config = cfg) where
  weaken := fun h => h
  hit := fun {n c} k h hf => by
    obtain ⟨v, _, hg⟩ := Cache.getitem_found hf
    exact ⟨(getitem_config c k).trans h, v, by show (c.getitem k).2 = _; rw [hg]⟩
  missed := fun k h => h
  setitem := fun {n c} k v h => (setitem_config c k v).trans h
  soft := fun h => h
  step := fun {n c} op h hop =>
    ⟨(step_config c op).trans h, fun m hm => (step_copy_config c op (c' := (C02.step c op).1) (n := m) (Prod.ext rfl hm)).trans h⟩

/-! worlds and single lookups -/

theorem rwstep_config (P : List K → K → OmProg K V) (fuel : Nat) {w : List (Cache K V)} {cfg : Bool × Nat × Option (K → OmRes V)}
    (h : ∀ c ∈ w, c.config = cfg) (op : WOp K V) : ∀ c ∈ (rwstep P fuel w op).1, c.config = cfg := by
  cases op with
  | on i op =>
    cases hi : w[i]? with
    | none => simp only [rwstep, rwstepG, hi]; exact h
    | some c =>
      have hc : c.config = cfg := h c (List.mem_of_getElem? hi)
      have hs := (Cache.machConfig cfg).rstep P fuel (n := 0) hc op
      cases hr : Cache.mach.rstep P fuel c op with
      | mk c' o =>
        rw [hr] at hs
        have hset : ∀ x ∈ w.set i c', x.config = cfg := by
          intro x hx
          rcases List.mem_or_eq_of_mem_set hx with hx | hx
          · exact h x hx
          · rw [hx]; exact hs.1
        cases o with
        | cache m =>
          simp only [rwstep, rwstepG, hi, hr]
          intro x hx
          simp only [List.mem_append, List.mem_singleton] at hx
          rcases hx with hx | hx
          · exact hset x hx
          · rw [hx]; exact hs.2 m rfl
        | none => simp only [rwstep, rwstepG, hi, hr]; exact hset
        | val v => simp only [rwstep, rwstepG, hi, hr]; exact hset
        | keyError => simp only [rwstep, rwstepG, hi, hr]; exact hset
        | raised => simp only [rwstep, rwstepG, hi, hr]; exact hset
        | item k v => simp only [rwstep, rwstepG, hi, hr]; exact hset
        | bool b => simp only [rwstep, rwstepG, hi, hr]; exact hset
        | nat n => simp only [rwstep, rwstepG, hi, hr]; exact hset
        | items l => simp only [rwstep, rwstepG, hi, hr]; exact hset
  | eqc i j => exact (show ∀ c ∈ (wstep w (.eqc i j)).1, c.config = cfg from wstep_config h _)
  | nec i j => exact (show ∀ c ∈ (wstep w (.nec i j)).1, c.config = cfg from wstep_config h _)
  | updc i j kw => exact (show ∀ c ∈ (wstep w (.updc i j kw)).1, c.config = cfg from wstep_config h _)

theorem rwrun_config (P : List K → K → OmProg K V) (fuel : Nat) {w : List (Cache K V)} {cfg : Bool × Nat × Option (K → OmRes V)}
    (h : ∀ c ∈ w, c.config = cfg) (ops : List (WOp K V)) : ∀ c ∈ wrunG (rwstep P fuel) w ops, c.config = cfg := by
  unfold wrunG
  induction ops generalizing w with
  | nil => exact h
  | cons op ops ih => exact ih (rwstep_config P fuel h op)

/-- `__getitem__` of a key that is in the cache: the hit path, whatever on_miss is -/
theorem Cache.rget_found (P : List K → K → OmProg K V) (fuel : Nat) {c : Cache K V} {k : K} {v : V}
    (hk : lookup k c.ring = some v) : Cache.mach.rget P fuel c k = c.getitem k := by
  have hf : (Cache.mach (V := V)).find c k = true := by show (lookup k c.ring).isSome = true; rw [hk]; rfl
  cases fuel <;> simp only [Mach.rget, hf, if_true] <;> rfl

/-- the end of `__getitem__` on the miss path, after the callback ended in state `body` with outcome `r` -/
def Cache.finish (body : Cache K V) (k : K) : OmRes V → Cache K V × Out K V (Cache K V)
  | .ret v => (body.setitem k v, .val v)
  | .keyError => (body, .keyError)
  | .error => (body, .raised)

/-- `__getitem__` of an absent key at nesting depth >= 1: count the miss, run the callback (final state `body`,
    outcome `r`); a returned value is stored by the full `__setitem__`, an exception propagates -/
theorem Cache.rget_absent (P : List K → K → OmProg K V) (n : Nat) {c body : Cache K V} {k : K} {r : OmRes V}
    (hk : lookup k c.ring = none)
    (hb : runProg (Cache.mach.rstep P n) (Cache.mach.missed c k) (P c.omLog k) = (body, r)) :
    Cache.mach.rget P (n + 1) c k = Cache.finish body k r := by
  have hf : (Cache.mach (V := V)).find c k = false := by show (lookup k c.ring).isSome = false; rw [hk]; rfl
  have hb' : runProg (Cache.mach.stepWith (Cache.mach.rget P n)) (Cache.mach.missed c k)
      (P ((Cache.mach (V := V)).log c) k) = (body, r) := hb
  simp only [Mach.rget, hf, Bool.false_eq_true, if_false, hb']
  cases r <;> rfl

/-- … at the depth guard: the callback raises at once -/
theorem Cache.rget_absent_zero (P : List K → K → OmProg K V) {c : Cache K V} {k : K} (hk : lookup k c.ring = none) :
    Cache.mach.rget P 0 c k = ({ c with miss := c.miss + 1, omLog := c.omLog ++ [k] }, .raised) := by
  have hf : (Cache.mach (V := V)).find c k = false := by show (lookup k c.ring).isSome = false; rw [hk]; rfl
  simp only [Mach.rget, hf, Bool.false_eq_true, if_false]
  rfl

/-- callbacks that make no calls: the re-entrant `__getitem__` is the plain one -/
theorem Cache.rget_pure (P : List K → K → OmProg K V) (f : K → OmRes V) (hP : ∀ lg k, P lg k = .done (f k)) (n : Nat)
    (c : Cache K V) (hom : c.onMiss = some f) (k : K) : Cache.mach.rget P (n + 1) c k = c.getitem k := by
  cases hk : lookup k c.ring with
  | some v => exact Cache.rget_found P _ hk
  | none =>
    have hb : runProg (Cache.mach.rstep P n) (Cache.mach.missed c k) (P c.omLog k) = (Cache.mach.missed c k, f k) := by
      rw [hP]; rfl
    rw [Cache.rget_absent P n hk hb]
    cases hres : f k with
    | ret v => rw [Cache.getitem_onMiss hk hom hres]; rfl
    | keyError => rw [Cache.getitem_onMiss_keyError hk hom hres]; rfl
    | error => rw [Cache.getitem_onMiss_error hk hom hres]; rfl

theorem Cache.rstep_pure (P : List K → K → OmProg K V) (f : K → OmRes V) (hP : ∀ lg k, P lg k = .done (f k)) (n : Nat)
    (c : Cache K V) (hom : c.onMiss = some f) (op : Op K V) : Cache.mach.rstep P (n + 1) c op = C02.step c op := by
  cases op with
  | getitem k => exact Cache.rget_pure P f hP n c hom k
  | get k d =>
    simp only [Mach.rstep, Mach.stepWith, C02.step, Cache.rget_pure P f hP n c hom k]
    cases c.getitem k with
    | mk c' o => cases o <;> rfl
  | setdefault k d =>
    simp only [Mach.rstep, Mach.stepWith, C02.step, Cache.rget_pure P f hP n c hom k]
    cases c.getitem k with
    | mk c' o => cases o <;> rfl
  | setitem k v => rfl
  | delitem k => rfl
  | update e kw => rfl
  | ior e => rfl
  | pop k d => rfl
  | popitem => rfl
  | clear => rfl
  | copy => rfl
  | contains k => rfl
  | len => rfl
  | items => rfl
  | eq o => rfl
  | ne o => rfl
  | updateFail l => rfl
  | eqOther => rfl
  | neOther => rfl

/-! what a call can only add to: the on_miss log and the three counters -/

/-- `c` comes after `b`: its on_miss log extends `b`'s, no counter went down -/
structure Mono (b c : Cache K V) : Prop where
  log : ∃ l, c.omLog = b.omLog ++ l
  miss : b.miss ≤ c.miss
  hit : b.hit ≤ c.hit
  soft : b.soft ≤ c.soft

theorem Mono.refl (b : Cache K V) : Mono b b := ⟨⟨[], by simp⟩, Nat.le_refl _, Nat.le_refl _, Nat.le_refl _⟩

theorem Cache.machMono (b : Cache K V) :
    MInv (Cache.mach (K := K) (V := V)) (fun _ c => Mono b c) (fun _ => True) where
  weaken := fun h => h
  hit := fun {n c} k h hf => by
    obtain ⟨v, _, hg⟩ := Cache.getitem_found hf
    refine ⟨?_, v, by show (c.getitem k).2 = _; rw [hg]⟩
    show Mono b (c.getitem k).1
    rw [hg]
    exact ⟨h.log, h.miss, Nat.le_succ_of_le h.hit, h.soft⟩
  missed := fun {n c} k h => by
    obtain ⟨l, hl⟩ := h.log
    exact ⟨⟨l ++ [k], by show c.omLog ++ [k] = _; rw [hl, List.append_assoc]⟩, Nat.le_succ_of_le h.miss, h.hit, h.soft⟩
  setitem := fun {n c} k v h => by
    show Mono b (c.setitem k v)
    exact ⟨by simpa using h.log, by simpa using h.miss, by simpa using h.hit, by simpa using h.soft⟩
  soft := fun {n c} h => ⟨h.log, h.miss, h.hit, Nat.le_succ_of_le h.soft⟩
  step := fun {n c} op h hop => by
    have hc := step_nonlookup c op (Op.lookupKey_of_not_isLookup hop)
    refine ⟨?_, fun _ _ => trivial⟩
    show Mono b (C02.step c op).1
    exact ⟨by rw [hc.2.2.2]; exact h.log, by rw [hc.2.1]; exact h.miss, by rw [hc.1]; exact h.hit,
      by rw [hc.2.2.1]; exact h.soft⟩

/-- get / setdefault add nothing to the on_miss log, the hits and the misses of their `__getitem__` -/
theorem Cache.rstep_lookup_log (P : List K → K → OmProg K V) (fuel : Nat) (c : Cache K V) {op : Op K V} {k : K}
    (hop : op.lookupKey = some k) :
    (Cache.mach.rstep P fuel c op).1.omLog = (Cache.mach.rget P fuel c k).1.omLog ∧
    (Cache.mach.rstep P fuel c op).1.miss = (Cache.mach.rget P fuel c k).1.miss ∧
    (Cache.mach.rstep P fuel c op).1.hit = (Cache.mach.rget P fuel c k).1.hit := by
  cases op with
  | getitem k' => simp [Op.lookupKey] at hop; subst hop; exact ⟨rfl, rfl, rfl⟩
  | get k' d =>
    simp [Op.lookupKey] at hop; subst hop
    simp only [Mach.rstep, Mach.stepWith]
    cases Cache.mach.rget P fuel c k' with
    | mk c' o => cases o <;> exact ⟨rfl, rfl, rfl⟩
  | setdefault k' d =>
    simp [Op.lookupKey] at hop; subst hop
    simp only [Mach.rstep, Mach.stepWith]
    cases Cache.mach.rget P fuel c k' with
    | mk c' o =>
      cases o <;> first | exact ⟨rfl, rfl, rfl⟩ | (refine ⟨?_, ?_, ?_⟩ <;> simp [Cache.mach])
  | _ => simp [Op.lookupKey] at hop

/-- `__getitem__` of an absent key: on_miss is entered with that key first; whatever it does then only
    extends the log and raises the counters -/
theorem Cache.rget_absent_log (P : List K → K → OmProg K V) (fuel : Nat) {c : Cache K V} {k : K}
    (hk : lookup k c.ring = none) :
    (∃ l, (Cache.mach.rget P fuel c k).1.omLog = c.omLog ++ k :: l) ∧
    c.miss + 1 ≤ (Cache.mach.rget P fuel c k).1.miss ∧ c.hit ≤ (Cache.mach.rget P fuel c k).1.hit := by
  cases fuel with
  | zero => rw [Cache.rget_absent_zero P hk]; exact ⟨⟨[], rfl⟩, Nat.le_refl _, Nat.le_refl _⟩
  | succ n =>
    have hb := (Cache.machMono (Cache.mach.missed c k)).runBody P n (P c.omLog k) (n := 0) (Mono.refl _)
    cases hr : runProg (Cache.mach.rstep P n) (Cache.mach.missed c k) (P c.omLog k) with
    | mk body e =>
      rw [hr] at hb
      obtain ⟨l, hl⟩ := hb.log
      have hl' : body.omLog = c.omLog ++ k :: l := by
        rw [hl]; show (c.omLog ++ [k]) ++ l = _; simp
      have hm : c.miss + 1 ≤ body.miss := hb.miss
      have hh : c.hit ≤ body.hit := hb.hit
      rw [Cache.rget_absent P n hk hr]
      cases e with
      | ret v => exact ⟨⟨l, by simpa [Cache.finish] using hl'⟩, by simpa [Cache.finish] using hm, by simpa [Cache.finish] using hh⟩
      | keyError => exact ⟨⟨l, hl'⟩, hm, hh⟩
      | error => exact ⟨⟨l, hl'⟩, hm, hh⟩

/-- a method call on one cache of a world — whatever its on_miss does — leaves every other cache alone -/
theorem rwstepG_others {C : Type} (st : C → Op K V → C × Out K V C) (wst : List C → WOp K V → List C × Out K V C)
    (w : List C) (i : Nat) (op : Op K V) (j : Nat) (hj : j < w.length) (hne : j ≠ i) :
    (rwstepG st wst w (.on i op)).1[j]? = w[j]? := by
  simp only [rwstepG]
  split
  · rfl
  · rename_i c hc
    split
    · rename_i c' n hs
      simp only []
      rw [List.getElem?_append_left (by simpa using hj), List.getElem?_set_ne (Ne.symm hne)]
    · simp only []; rw [List.getElem?_set_ne (Ne.symm hne)]

/-! copy() behaves like its source for ever under a re-entrant on_miss that keeps no state of its own -/

/-- the ring-model machine with the callback's history hidden (for callbacks that do not look at it) -/
def Cache.machNoLog : Mach K V (Cache K V) := { (Cache.mach (K := K) (V := V)) with log := fun _ => [] }

theorem OutCore.toRel {x y : Out K V (Cache K V)} (h : OutCore x y) : OutRel SameCore x y := by
  cases h with
  | same => exact OutRel.refl_of _ (fun m _ => ⟨rfl, rfl, rfl, rfl, rfl⟩)
  | cache h => exact OutRel.cache h

theorem SameCore.mach : MSim (Cache.machNoLog (K := K) (V := V)) Cache.machNoLog (fun _ => SameCore) SameCore where
  weaken := fun h => h
  log := fun _ => rfl
  find := fun {n a b} k h => by
    show (lookup k a.ring).isSome = (lookup k b.ring).isSome
    rw [h.ring]
  hit := fun {n a b} k h hf => by
    have hg := h.getitem k
    have hf' : (Cache.mach (V := V)).find b k = true := by
      show (lookup k b.ring).isSome = true
      rw [← h.ring]; exact hf
    obtain ⟨v, _, hb⟩ := Cache.getitem_found hf'
    refine ⟨hg.1, v, ?_, ?_⟩
    · show (a.getitem k).2 = _; rw [hg.2, hb]
    · show (b.getitem k).2 = _; rw [hb]
  missed := fun k h => ⟨h.lru, h.max, h.om, h.d, h.ring⟩
  setitem := fun k v h => h.setitem k v
  soft := fun h => ⟨h.lru, h.max, h.om, h.d, h.ring⟩
  step := fun op h _ => ⟨(h.step op).1, (h.step op).2.toRel⟩

/-- a callback that ignores its own history runs the same on both machines -/
theorem Cache.rget_noLog (P0 : K → OmProg K V) (n : Nat) :
    (Cache.mach (K := K) (V := V)).rget (fun _ => P0) n = Cache.machNoLog.rget (fun _ => P0) n := by
  induction n with
  | zero => rfl
  | succ m ih =>
    funext c k
    simp only [Mach.rget]
    rw [ih]
    rfl

theorem Cache.rstep_noLog (P0 : K → OmProg K V) (n : Nat) :
    (Cache.mach (K := K) (V := V)).rstep (fun _ => P0) n = Cache.machNoLog.rstep (fun _ => P0) n := by
  unfold Mach.rstep
  rw [Cache.rget_noLog]
  rfl

theorem SameCore.rrun {a b : Cache K V} (h : SameCore a b) (P0 : K → OmProg K V) (fuel : Nat) (ops : List (Op K V)) :
    SameCore (Cache.mach.rrun (fun _ => P0) fuel a ops) (Cache.mach.rrun (fun _ => P0) fuel b ops) := by
  unfold Mach.rrun
  induction ops generalizing a b with
  | nil => exact h
  | cons op ops ih =>
    simp only [List.foldl_cons]
    apply ih
    rw [Cache.rstep_noLog]
    exact (SameCore.mach.rstep (fun _ => P0) fuel (n := 0) h op).1

/-! callbacks whose calls are never lookups (e.g. the self-priming loader) cannot nest: the depth is irrelevant -/

/-- no call of the strategy is an item get / get / setdefault, whatever the earlier calls answered -/
inductive OmProg.NoLookup : OmProg K V → Prop where
  | done (r : OmRes V) : OmProg.NoLookup (.done r)
  | call (op : Op K V) (next : Out K V Unit → OmProg K V) (hop : op.isLookup = false)
      (hn : ∀ o, OmProg.NoLookup (next o)) : OmProg.NoLookup (.call op next)

theorem Mach.stepWith_nonlookup {C : Type} (M : Mach K V C) (g g' : C → K → C × Out K V C) (c : C) {op : Op K V}
    (hop : op.isLookup = false) : M.stepWith g c op = M.stepWith g' c op := by
  cases op <;> first | rfl | simp [Op.isLookup] at hop

theorem runProg_noLookup {C : Type} (M : Mach K V C) (g g' : C → K → C × Out K V C) {p : OmProg K V}
    (h : p.NoLookup) (c : C) : runProg (M.stepWith g) c p = runProg (M.stepWith g') c p := by
  induction h generalizing c with
  | done r => rfl
  | call op next hop hn ih =>
    simp only [runProg, M.stepWith_nonlookup g g' c hop]
    exact ih _ _

/-- for such callbacks any depth >= 1 gives the same `__getitem__` -/
theorem Mach.rget_depth_irrelevant {C : Type} (M : Mach K V C) (P : List K → K → OmProg K V)
    (hP : ∀ lg k, (P lg k).NoLookup) (n : Nat) : M.rget P (n + 1) = M.rget P 1 := by
  funext c k
  simp only [Mach.rget]
  rw [runProg_noLookup M (M.rget P n) (M.rget P 0) (hP _ _)]
  rfl

/-! the depth beyond what a run needs is irrelevant: if a lookup, run at depth `n`, never reaches the depth guard,
    every greater depth gives exactly the same run -/

/-- the key an operation hands to `__getitem__` -/
def Op.getKey : Op K V → Option K
  | .getitem k => some k
  | .get k _ => some k
  | .setdefault k _ => some k
  | _ => none

/-- every lookup made by the callback run `p` from state `c` satisfies `sg` -/
def safeProg {C : Type} (sg : C → K → Prop) (st : C → Op K V → C × Out K V C) : C → OmProg K V → Prop
  | _, .done _ => True
  | c, .call op next =>
    (match op.getKey with
     | some k => sg c k
     | none => True) ∧ safeProg sg st (st c op).1 (next (st c op).2.shape)

/-- `__getitem__(k)` run at depth `n` from state `c` does not reach the depth guard -/
def Mach.safeGet {C : Type} (M : Mach K V C) (P : List K → K → OmProg K V) : Nat → C → K → Prop
  | 0 => fun c k => M.find c k = true
  | n + 1 => fun c k =>
    M.find c k = true ∨
    safeProg (M.safeGet P n) (M.stepWith (M.rget P n)) (M.missed c k) (P (M.log c) k)

theorem Mach.stepWith_congr {C : Type} (M : Mach K V C) (g g' : C → K → C × Out K V C) (c : C) (op : Op K V)
    (h : ∀ k, op.getKey = some k → g c k = g' c k) : M.stepWith g c op = M.stepWith g' c op := by
  cases op with
  | getitem k => exact h k rfl
  | get k d => simp only [Mach.stepWith, h k rfl]
  | setdefault k d => simp only [Mach.stepWith, h k rfl]
  | _ => rfl

theorem safeProg_congr {C : Type} (M : Mach K V C) {sg sg' : C → K → Prop} {g g' : C → K → C × Out K V C}
    (hg : ∀ c k, sg c k → g' c k = g c k ∧ sg' c k) (p : OmProg K V) (c : C)
    (h : safeProg sg (M.stepWith g) c p) :
    runProg (M.stepWith g') c p = runProg (M.stepWith g) c p ∧ safeProg sg' (M.stepWith g') c p := by
  induction p generalizing c with
  | done r => exact ⟨rfl, trivial⟩
  | call op next ih =>
    obtain ⟨h1, h2⟩ := h
    have hst : M.stepWith g' c op = M.stepWith g c op := by
      apply M.stepWith_congr
      intro k hk
      rw [hk] at h1
      exact (hg c k h1).1
    have := ih _ _ h2
    refine ⟨by simp only [runProg, hst]; exact this.1, ?_, by rw [hst]; exact this.2⟩
    cases hk : op.getKey with
    | none => trivial
    | some k => rw [hk] at h1; exact (hg c k h1).2

/-- the end of `__getitem__` on the miss path -/
def Mach.finish {C : Type} (M : Mach K V C) (k : K) : C × OmRes V → C × Out K V C
  | (c2, .ret v) => (M.setitem c2 k v, .val v)
  | (c2, .keyError) => (c2, .keyError)
  | (c2, .error) => (c2, .raised)

theorem Mach.rget_miss {C : Type} (M : Mach K V C) (P : List K → K → OmProg K V) (n : Nat) {c : C} {k : K}
    (hf : M.find c k = false) :
    M.rget P (n + 1) c k = M.finish k (runProg (M.stepWith (M.rget P n)) (M.missed c k) (P (M.log c) k)) := by
  simp only [Mach.rget, hf, Bool.false_eq_true, if_false]
  cases runProg (M.stepWith (M.rget P n)) (M.missed c k) (P (M.log c) k) with
  | mk c2 r => cases r <;> rfl

/-- once a run does not reach the guard, one more level of depth changes nothing (and so, by induction, any
    greater depth) -/
theorem Mach.rget_stable {C : Type} (M : Mach K V C) (P : List K → K → OmProg K V) (n : Nat) (c : C) (k : K)
    (h : M.safeGet P n c k) : M.rget P (n + 1) c k = M.rget P n c k ∧ M.safeGet P (n + 1) c k := by
  induction n generalizing c k with
  | zero =>
    have h' : M.find c k = true := h
    exact ⟨by simp only [Mach.rget, h', if_true], Or.inl h'⟩
  | succ m ih =>
    cases hf : M.find c k with
    | true => exact ⟨by simp only [Mach.rget, hf, if_true], Or.inl hf⟩
    | false =>
      have h' : safeProg (M.safeGet P m) (M.stepWith (M.rget P m)) (M.missed c k) (P (M.log c) k) := by
        rcases h with h | h
        · rw [hf] at h; cases h
        · exact h
      have := safeProg_congr M (sg := M.safeGet P m) (sg' := M.safeGet P (m + 1)) (g := M.rget P m)
        (g' := M.rget P (m + 1)) (fun c k hs => ih c k hs) _ _ h'
      refine ⟨?_, Or.inr this.2⟩
      rw [M.rget_miss P (m + 1) hf, M.rget_miss P m hf, this.1]

theorem Mach.rget_stable_all {C : Type} (M : Mach K V C) (P : List K → K → OmProg K V) (n : Nat) (c : C) (k : K)
    (h : M.safeGet P n c k) (m : Nat) : M.rget P (n + m) c k = M.rget P n c k ∧ M.safeGet P (n + m) c k := by
  induction m with
  | zero => exact ⟨rfl, h⟩
  | succ j ih =>
    have := M.rget_stable P (n + j) c k ih.2
    exact ⟨this.1.trans ih.1, this.2⟩

end C02
