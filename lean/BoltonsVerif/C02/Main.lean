import BoltonsVerif.C02.Driver
def main : IO Unit := BV.mainLoop C02.Driver.handle
