import BoltonsVerif.C02.Model
/-
C02 — helper lemmas: association lists, the dict/ring synchronisation invariant `Sync`,
the cache invariant `Inv` and its preservation by every operation.
-/
namespace C02
variable {K V : Type} [DecidableEq K]

@[simp] theorem keys_nil : keys ([] : List (K × V)) = [] := rfl
@[simp] theorem keys_cons (p : K × V) (l : List (K × V)) : keys (p :: l) = p.1 :: keys l := rfl
@[simp] theorem keys_append (l m : List (K × V)) : keys (l ++ m) = keys l ++ keys m := by simp [keys]

theorem lookup_none_iff (k : K) (l : List (K × V)) : lookup k l = none ↔ k ∉ keys l := by
  induction l with
  | nil => simp [lookup]
  | cons p l ih =>
    by_cases h : p.1 = k
    · simp [lookup, h]
    · have h' : ¬ k = p.1 := fun e => h e.symm
      simp [lookup, h, h', ih]
theorem lookup_append (k : K) (l m : List (K × V)) :
    lookup k (l ++ m) = match lookup k l with | some v => some v | none => lookup k m := by
  induction l with
  | nil => simp [lookup]
  | cons p l ih => simp only [List.cons_append, lookup]; split <;> simp_all

theorem lookup_eraseKey_ne {k k' : K} (h : k' ≠ k) (l : List (K × V)) :
    lookup k' (eraseKey k l) = lookup k' l := by
  induction l with
  | nil => rfl
  | cons p l ih => grind [lookup, eraseKey]

theorem lookup_eraseKey_self (k : K) (l : List (K × V)) (hn : (keys l).Nodup) :
    lookup k (eraseKey k l) = none := by
  induction l with
  | nil => rfl
  | cons p l ih =>
    simp only [keys, List.map_cons, List.nodup_cons] at hn
    simp only [eraseKey]
    split
    · rename_i h; subst h; exact (lookup_none_iff _ _).2 hn.1
    · simp only [lookup]; simp_all [keys]

theorem lookup_dset_self (k : K) (v : V) (l : List (K × V)) : lookup k (dset k v l) = some v := by
  induction l with
  | nil => simp [dset, lookup]
  | cons p l ih => grind [lookup, dset]

theorem lookup_dset_ne {k k' : K} (h : k' ≠ k) (v : V) (l : List (K × V)) :
    lookup k' (dset k v l) = lookup k' l := by
  induction l with
  | nil => simp [dset, lookup]; exact fun h' => h h'.symm
  | cons p l ih => grind [lookup, dset]

theorem keys_dset (k : K) (v : V) (l : List (K × V)) :
    keys (dset k v l) = if (lookup k l).isSome then keys l else keys l ++ [k] := by
  induction l with
  | nil => simp [dset, lookup, keys]
  | cons p l ih => 
    simp only [dset, lookup]
    split
    · simp [keys]
    · simp only [keys, List.map_cons] at *; rw [ih]; split <;> simp

theorem keys_eraseKey_sublist (k : K) (l : List (K × V)) : (keys (eraseKey k l)).Sublist (keys l) := by
  induction l with
  | nil => simp [eraseKey, keys]
  | cons p l ih =>
    simp only [eraseKey]; split
    · simp [keys]
    · simp only [keys, List.map_cons] at *; exact ih.cons_cons _

theorem length_eraseKey (k : K) (l : List (K × V)) :
    (eraseKey k l).length = if (lookup k l).isSome then l.length - 1 else l.length := by
  induction l with
  | nil => rfl
  | cons p l ih => 
    simp only [eraseKey, lookup]; split
    · simp
    · simp only [List.length_cons, ih]; split
      · have : l.length ≠ 0 := by intro h; simp [List.length_eq_zero_iff.1 h, lookup] at *
        omega
      · rfl

theorem length_dset (k : K) (v : V) (l : List (K × V)) :
    (dset k v l).length = if (lookup k l).isSome then l.length else l.length + 1 := by
  induction l with
  | nil => rfl
  | cons p l ih => simp only [dset, lookup]; split <;> simp [ih]; split <;> rfl


theorem lookup_isSome_iff (k : K) (l : List (K × V)) : (lookup k l).isSome ↔ k ∈ keys l := by
  have := lookup_none_iff k l
  cases h : lookup k l <;> simp_all

theorem nodup_eraseKey (k : K) (l : List (K × V)) (h : (keys l).Nodup) : (keys (eraseKey k l)).Nodup :=
  h.sublist (keys_eraseKey_sublist k l)

/-- dict storage and ring describe the same mapping, without duplicate keys -/
structure Sync (d r : List (K × V)) : Prop where
  nd : (keys d).Nodup
  nr : (keys r).Nodup
  agree : ∀ k, lookup k d = lookup k r
  len : d.length = r.length

theorem Sync.nil : Sync ([] : List (K × V)) [] := ⟨by simp, by simp, fun _ => rfl, rfl⟩

theorem Sync.remove {d r : List (K × V)} (h : Sync d r) (k : K) : Sync (eraseKey k d) (eraseKey k r) := by
  refine ⟨nodup_eraseKey k d h.nd, nodup_eraseKey k r h.nr, fun k' => ?_, ?_⟩
  · by_cases e : k' = k
    · subst e; rw [lookup_eraseKey_self _ _ h.nd, lookup_eraseKey_self _ _ h.nr]
    · rw [lookup_eraseKey_ne e, lookup_eraseKey_ne e, h.agree]
  · rw [length_eraseKey, length_eraseKey, h.agree k, h.len]

theorem nodup_snoc {l : List (K × V)} (h : (keys l).Nodup) {k : K} (v : V) (hk : lookup k l = none) :
    (keys (l ++ [(k, v)])).Nodup := by
  rw [lookup_none_iff] at hk
  simp only [keys_append, keys_cons, keys_nil]
  exact List.nodup_append.2 ⟨h, by simp, by intro a ha b hb; simp at hb; subst hb; intro e; exact hk (e ▸ ha)⟩

theorem Sync.add {d r : List (K × V)} (h : Sync d r) {k : K} (v : V) (hk : lookup k r = none) :
    Sync (dset k v d) (r ++ [(k, v)]) := by
  have hkd : lookup k d = none := by rw [h.agree, hk]
  refine ⟨?_, nodup_snoc h.nr v hk, fun k' => ?_, ?_⟩
  · rw [keys_dset, hkd]; simpa using nodup_snoc h.nd v hkd
  · by_cases e : k' = k
    · subst e; rw [lookup_dset_self, lookup_append, hk]; simp [lookup]
    · rw [lookup_dset_ne e, lookup_append, h.agree]
      cases lookup k' r with
      | some _ => rfl
      | none => simp [lookup]; exact fun e' => e e'.symm
  · rw [length_dset, hkd]; simp [h.len]

theorem Sync.touch {d r : List (K × V)} (h : Sync d r) {k : K} {v : V} (hk : lookup k r = some v) :
    Sync d (toFront k v r) := by
  have h1 := h.remove k
  have h2 := h1.add v (lookup_eraseKey_self k r h.nr)
  refine ⟨h.nd, h2.nr, fun k' => ?_, ?_⟩
  · show _ = lookup k' (eraseKey k r ++ [(k, v)])
    rw [← h2.agree]
    by_cases e : k' = k
    · subst e; rw [lookup_dset_self, h.agree, hk]
    · rw [lookup_dset_ne e, lookup_eraseKey_ne e]
  · unfold toFront
    rw [List.length_append, length_eraseKey, hk, h.len]
    have : r.length ≠ 0 := by intro h0; simp [List.length_eq_zero_iff.1 h0, lookup] at hk
    simp; omega

theorem Sync.front {d r : List (K × V)} (h : Sync d r) {k : K} (v : V) {v0 : V} (hk : lookup k r = some v0) :
    Sync (dset k v d) (toFront k v r) := by
  have h1 := h.remove k
  have h2 := h1.add v (lookup_eraseKey_self k r h.nr)
  have hkd : lookup k d = some v0 := by rw [h.agree, hk]
  refine ⟨?_, h2.nr, fun k' => ?_, ?_⟩
  · rw [keys_dset, hkd]; exact h.nd
  · show _ = lookup k' (eraseKey k r ++ [(k, v)])
    rw [← h2.agree]
    by_cases e : k' = k
    · subst e; rw [lookup_dset_self, lookup_dset_self]
    · rw [lookup_dset_ne e, lookup_dset_ne e, lookup_eraseKey_ne e]
  · rw [length_dset, hkd]; exact (h.touch hk).len ▸ (by simp [toFront])


/-- the representation invariant of one cache -/
structure Inv (c : Cache K V) : Prop where
  sync : Sync c.d c.ring
  cap : c.d.length ≤ c.max
  pos : 1 ≤ c.max
  soft_le : c.soft ≤ c.miss

theorem Inv.initP (lru : Bool) (max : Nat) (om : Option (K → OmRes V)) (h : 1 ≤ max) :
    Inv (Cache.initP lru max om) := ⟨Sync.nil, Nat.zero_le _, h, Nat.le_refl _⟩

theorem Inv.init (lru : Bool) (max : Nat) (om : Option (K → V)) (h : 1 ≤ max) :
    Inv (Cache.init lru max om) := Inv.initP lru max _ h

theorem eraseKey_head (e : K × V) (rest : List (K × V)) : eraseKey e.1 (e :: rest) = rest := by
  simp [eraseKey]

/-- the eviction branch of `__setitem__` always finds a link to evict -/
theorem evict_ring_nonempty {c : Cache K V} (h : Inv c) (hfull : ¬ c.d.length < c.max) : c.ring ≠ [] := by
  intro e
  have h1 := h.sync.len
  have h2 := h.pos
  rw [e, List.length_nil] at h1
  omega

theorem Cache.setitem_inv {c : Cache K V} (h : Inv c) (k : K) (v : V) : Inv (c.setitem k v) := by
  unfold Cache.setitem
  split
  · rename_i v0 hk
    have hs := h.sync.front v hk
    refine ⟨hs, ?_, h.pos, h.soft_le⟩
    show (dset k v c.d).length ≤ c.max
    rw [length_dset, h.sync.agree, hk]; exact h.cap
  · rename_i hk
    split
    · rename_i hlt
      refine ⟨h.sync.add v hk, ?_, h.pos, h.soft_le⟩
      show (dset k v c.d).length ≤ c.max
      rw [length_dset, h.sync.agree, hk]; simp; omega
    · rename_i hfull
      split
      · exact h
      · rename_i e rest hr
        have h1 := h.sync.remove e.1
        rw [hr, eraseKey_head] at h1
        have hkrest : lookup k rest = none := by
          rw [hr] at hk; simp only [lookup] at hk; split at hk <;> simp_all
        have hke : lookup k (eraseKey e.1 c.d) = none := by rw [h1.agree, hkrest]
        refine ⟨h1.add v hkrest, ?_, h.pos, h.soft_le⟩
        show (dset k v (eraseKey e.1 c.d)).length ≤ c.max
        have hl := h1.len
        have hl0 := h.sync.len
        rw [hr] at hl0
        rw [length_dset, hke]
        simp only [Option.isSome_none, Bool.false_eq_true, if_false]
        have := h.cap
        simp at hl0; omega


theorem dropLast_eq_eraseKey {l : List (K × V)} (hn : (keys l).Nodup) {p : K × V}
    (hp : l.getLast? = some p) : l.dropLast = eraseKey p.1 l := by
  induction l with
  | nil => simp at hp
  | cons q l ih =>
    cases l with
    | nil => simp at hp; subst hp; simp [eraseKey]
    | cons q' l' =>
      have hp' : (q' :: l').getLast? = some p := by simpa [List.getLast?_cons_cons] using hp
      have hmem : p ∈ q' :: l' := List.mem_of_getLast? hp'
      simp only [keys_cons, List.nodup_cons] at hn
      have hne : ¬ q.1 = p.1 := by
        intro e
        apply hn.1
        rw [e]
        have : p.1 ∈ keys (q' :: l') := List.mem_map_of_mem hmem
        simpa using this
      rw [List.dropLast_cons_cons, eraseKey, if_neg hne, ih (by simpa using hn.2) hp']

theorem Cache.getitem_inv {c : Cache K V} (h : Inv c) (k : K) : Inv (c.getitem k).1 := by
  unfold Cache.getitem
  split
  · rename_i v hk
    refine ⟨?_, h.cap, h.pos, h.soft_le⟩
    show Sync c.d (if c.lru then toFront k v c.ring else c.ring)
    split
    · exact h.sync.touch hk
    · exact h.sync
  · split
    · exact ⟨h.sync, h.cap, h.pos, Nat.le_succ_of_le h.soft_le⟩
    · split
      · apply Cache.setitem_inv
        exact ⟨h.sync, h.cap, h.pos, Nat.le_succ_of_le h.soft_le⟩
      · exact ⟨h.sync, h.cap, h.pos, Nat.le_succ_of_le h.soft_le⟩
      · exact ⟨h.sync, h.cap, h.pos, Nat.le_succ_of_le h.soft_le⟩

theorem Cache.remove_inv {c : Cache K V} (h : Inv c) (k : K) : Inv (c.remove k) := by
  refine ⟨h.sync.remove k, ?_, h.pos, h.soft_le⟩
  show (eraseKey k c.d).length ≤ c.max
  rw [length_eraseKey]; have := h.cap; split <;> omega

theorem Cache.setAll_inv {c : Cache K V} (h : Inv c) (l : List (K × V)) : Inv (c.setAll l) := by
  unfold Cache.setAll
  induction l generalizing c with
  | nil => exact h
  | cons p l ih => exact ih (Cache.setitem_inv h p.1 p.2)

theorem Cache.update_inv {c : Cache K V} (h : Inv c) (e : Arg K V) (kw : List (K × V)) :
    Inv (c.update e kw) := by
  unfold Cache.update
  split
  · exact h
  · exact Cache.setAll_inv (Cache.setAll_inv h _) _

/-- getitem answers keyError only for an absent key, with the miss counted and nothing else
    but the on_miss log changed (so get/setdefault may add a soft miss) -/
theorem Cache.getitem_keyError {c : Cache K V} {k : K} {c' : Cache K V}
    (h : c.getitem k = (c', .keyError)) :
    c'.d = c.d ∧ c'.ring = c.ring ∧ c'.max = c.max ∧ c'.soft = c.soft ∧ c'.miss = c.miss + 1 ∧
    c'.hit = c.hit ∧ c'.lru = c.lru ∧ c'.onMiss = c.onMiss ∧ lookup k c.ring = none := by
  unfold Cache.getitem at h
  split at h
  · simp at h
  · rename_i hk
    split at h
    · simp at h; subst h; exact ⟨rfl, rfl, rfl, rfl, rfl, rfl, rfl, rfl, hk⟩
    · split at h
      · simp at h
      · simp at h; subst h; exact ⟨rfl, rfl, rfl, rfl, rfl, rfl, rfl, rfl, hk⟩
      · simp at h

theorem Inv.softBump {c c' : Cache K V} (h : Inv c) (hd : c'.d = c.d) (hr : c'.ring = c.ring)
    (hm : c'.max = c.max) (hs : c'.soft = c.soft) (hmi : c'.miss = c.miss + 1) :
    Inv ({ c' with soft := c'.soft + 1 } : Cache K V) := by
  refine ⟨?_, ?_, ?_, ?_⟩
  · show Sync c'.d c'.ring; rw [hd, hr]; exact h.sync
  · show c'.d.length ≤ c'.max; rw [hd, hm]; exact h.cap
  · show 1 ≤ c'.max; rw [hm]; exact h.pos
  · show c'.soft + 1 ≤ c'.miss; rw [hs, hmi]; exact Nat.succ_le_succ h.soft_le

variable [DecidableEq V]

theorem step_inv {c : Cache K V} (h : Inv c) (op : Op K V) : Inv (step c op).1 := by
  cases op with
  | setitem k v => exact Cache.setitem_inv h k v
  | getitem k => exact Cache.getitem_inv h k
  | delitem k => simp only [step]; split; exact h; exact Cache.remove_inv h k
  | get k dflt =>
    simp only [step]
    split
    · rename_i c' hg
      have hh := Cache.getitem_keyError hg
      exact h.softBump hh.1 hh.2.1 hh.2.2.1 hh.2.2.2.1 hh.2.2.2.2.1
    · exact Cache.getitem_inv h k
  | setdefault k dflt =>
    simp only [step]
    split
    · rename_i c' hg
      have hh := Cache.getitem_keyError hg
      apply Cache.setitem_inv
      exact h.softBump hh.1 hh.2.1 hh.2.2.1 hh.2.2.2.1 hh.2.2.2.2.1
    · exact Cache.getitem_inv h k
  | update e kw => exact Cache.update_inv h e kw
  | ior e => exact Cache.update_inv h e []
  | pop k dflt =>
    simp only [step]
    split
    · exact Cache.remove_inv h k
    · split <;> exact h
  | popitem =>
    simp only [step]
    split
    · exact h
    · rename_i p hp
      show Inv { c with d := c.d.dropLast, ring := eraseKey p.1 c.ring }
      rw [dropLast_eq_eraseKey h.sync.nd hp]
      exact Cache.remove_inv h p.1
  | clear => exact ⟨Sync.nil, Nat.zero_le _, h.pos, h.soft_le⟩
  | copy => exact h
  | contains k => exact h
  | len => exact h
  | items => exact h
  | eq o => exact h
  | ne o => exact h
  | updateFail l => exact Cache.setAll_inv h l
  | eqOther => exact h
  | neOther => exact h

theorem run_inv {c : Cache K V} (h : Inv c) (ops : List (Op K V)) : Inv (run c ops) := by
  unfold run
  induction ops generalizing c with
  | nil => exact h
  | cons op ops ih => exact ih (step_inv h op)

end C02
