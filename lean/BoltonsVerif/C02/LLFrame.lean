import BoltonsVerif.C02.HRefine
import BoltonsVerif.C02.Extra
/-
C02 — the linked lists of SEVERAL caches in one memory.

`HCache` gives every cache its own memory of links.  In CPython all links live in one heap; what keeps
two caches (a cache and its `copy()`) independent is that every `_ll` helper writes only links of the
list it is called on (its anchor and the links reachable from it) or freshly allocated links.  This file
proves exactly that (`Touches`, one lemma per helper) and the frame property of the representation
predicate (`Rep.frame`): a well-formed list is not disturbed by writes outside its own links.
-/
set_option linter.unusedSectionVars false
namespace C02
variable {K V : Type} [DecidableEq K]

/-- the memory `m` maps the addresses in `F` into `F` -/
def Closed (m : List Nat) (F : List Nat) : Prop := ∀ a ∈ F, rd m a ∈ F

theorem Closed.upd {m F : List Nat} (h : Closed m F) (a : Nat) {x : Nat} (hx : x ∈ F) : Closed (upd m a x) F := by
  intro b hb
  rw [rd_upd]
  split
  · exact hx
  · exact h b hb

/-- `m'` agrees with `m` on every address below `fr` that is not in `F` -/
def Same {α : Type} [Inhabited α] (fr : Nat) (F : List Nat) (m m' : List α) : Prop :=
  ∀ b, b ∉ F → b < fr → rd m' b = rd m b

theorem Same.refl {α : Type} [Inhabited α] (fr : Nat) (F : List Nat) (m : List α) : Same fr F m m :=
  fun _ _ _ => rfl

theorem Same.upd {α : Type} [Inhabited α] {fr : Nat} {F : List Nat} {m m' : List α} (h : Same fr F m m')
    {a : Nat} (ha : a ∈ F ∨ fr ≤ a) (x : α) : Same fr F m (upd m' a x) := by
  intro b hb hlt
  rw [rd_upd_ne _ _ (by rintro rfl; rcases ha with ha | ha; exact hb ha; omega)]
  exact h b hb hlt

/-- `l'` differs from `l` at most in the links `F` and in links that were not allocated in `l` -/
structure Touches (l l' : LL K V) (F : List Nat) : Prop where
  fresh : l.fresh ≤ l'.fresh
  prev : Same l.fresh F l.prev l'.prev
  next : Same l.fresh F l.next l'.next
  key : Same l.fresh F l.key l'.key
  val : Same l.fresh F l.val l'.val

theorem Touches.refl (l : LL K V) (F : List Nat) : Touches l l F :=
  ⟨Nat.le_refl _, Same.refl _ _ _, Same.refl _ _ _, Same.refl _ _ _, Same.refl _ _ _⟩

/-! the links of a well-formed list point to links of the list -/

theorem Chain.nx_mem {nx pv : Nat → Nat} {a z : Nat} {xs : List Nat} (h : Chain nx pv a xs z) :
    ∀ b ∈ a :: xs, nx b ∈ xs ++ [z] := by
  induction xs generalizing a with
  | nil => intro b hb; simp at hb; subst hb; simp [h.1]
  | cons x xs ih =>
    intro b hb
    simp only [List.mem_cons] at hb
    rcases hb with rfl | hb
    · simp [h.1]
    · have := ih h.2.2 b (by simpa using hb)
      simp only [List.cons_append, List.mem_cons]; exact Or.inr this

theorem Chain.pv_mem {nx pv : Nat → Nat} {a z : Nat} {xs : List Nat} (h : Chain nx pv a xs z) :
    ∀ b ∈ xs ++ [z], pv b ∈ a :: xs := by
  induction xs generalizing a with
  | nil => intro b hb; simp at hb; subst hb; simp [h.2]
  | cons x xs ih =>
    intro b hb
    simp only [List.cons_append, List.mem_cons] at hb
    rcases hb with rfl | hb
    · simp [h.2.1]
    · have := ih h.2.2 b hb
      exact List.mem_cons_of_mem _ this

/-- the links of the list: the anchor and the links of the cells -/
def footprint (l : LL K V) (cells : Cells K V) : List Nat := l.anchor :: addrsOf cells

theorem Rep.closed_next {l : LL K V} {cells : Cells K V} (h : Rep l cells) : Closed l.next (footprint l cells) := by
  intro a ha
  have := h.chain.nx_mem a ha
  simp only [List.mem_append, List.mem_singleton] at this
  simp only [footprint, List.mem_cons]
  rcases this with h1 | h1
  · exact Or.inr h1
  · exact Or.inl h1

theorem Rep.closed_prev {l : LL K V} {cells : Cells K V} (h : Rep l cells) : Closed l.prev (footprint l cells) := by
  intro a ha
  have ha' : a ∈ addrsOf cells ++ [l.anchor] := by
    simp only [footprint, List.mem_cons] at ha
    simp only [List.mem_append, List.mem_singleton]
    rcases ha with h1 | h1
    · exact Or.inr h1
    · exact Or.inl h1
  exact h.chain.pv_mem a ha'

theorem Rep.addr_of_table {l : LL K V} {cells : Cells K V} (h : Rep l cells) {k : K} {n : Nat}
    (ht : lookup k l.table = some n) : n ∈ footprint l cells := by
  rw [h.tbl] at ht
  cases hc : lookup k cells with
  | none => rw [hc] at ht; simp at ht
  | some nv =>
    rw [hc] at ht
    simp only [Option.map_some, Option.some.injEq] at ht
    have hm := lookup_mem hc
    have : nv.1 ∈ addrsOf cells := List.mem_map_of_mem (f := fun c : K × (Nat × V) => c.2.1) hm
    rw [ht] at this
    exact List.mem_cons_of_mem _ this

theorem anchor_mem_footprint (l : LL K V) (cells : Cells K V) : l.anchor ∈ footprint l cells := by simp [footprint]

/-! one lemma per helper: it writes only its own links (or new ones) -/

theorem Rep.touches_moveToFront {l l' : LL K V} {cells : Cells K V} (h : Rep l cells) {k : K} {n : Nat}
    (hm : l.moveToFront k = some (l', n)) :
    Touches l l' (footprint l cells) ∧ n ∈ footprint l cells ∧ l'.anchor = l.anchor ∧ l'.table = l.table := by
  unfold LL.moveToFront at hm
  split at hm
  · cases hm
  · rename_i n' ht
    have hn := h.addr_of_table ht
    simp only [Option.some.injEq, Prod.mk.injEq] at hm
    obtain ⟨rfl, rfl⟩ := hm
    have cn := h.closed_next
    have cp := h.closed_prev
    have cn1 := cn.upd (rd l.prev n') (cn n' hn)
    have cp1 := cp.upd (rd (upd l.next (rd l.prev n') (rd l.next n')) n') (cp n' hn)
    refine ⟨⟨Nat.le_refl _, ?_, ?_, Same.refl _ _ _, Same.refl _ _ _⟩, hn, rfl, rfl⟩
    · exact (((Same.refl _ _ _).upd (Or.inl (cn1 n' hn)) _).upd (Or.inl (anchor_mem_footprint l cells)) _).upd (Or.inl hn) _
    · exact (((Same.refl _ _ _).upd (Or.inl (cp n' hn)) _).upd (Or.inl (cp1 _ (anchor_mem_footprint l cells))) _).upd (Or.inl hn) _

theorem Rep.touches_addFront {l : LL K V} {cells : Cells K V} (h : Rep l cells) (k : K) (v : V) :
    Touches l (l.addFront k v) (footprint l cells) := by
  have cp := h.closed_prev
  refine ⟨Nat.le_succ _, ?_, ?_, ?_, ?_⟩
  · exact ((Same.refl _ _ _).upd (Or.inr (Nat.le_refl _)) _).upd (Or.inl (anchor_mem_footprint l cells)) _
  · exact ((Same.refl _ _ _).upd (Or.inr (Nat.le_refl _)) _).upd (Or.inl (cp _ (anchor_mem_footprint l cells))) _
  · exact (Same.refl _ _ _).upd (Or.inr (Nat.le_refl _)) _
  · exact (Same.refl _ _ _).upd (Or.inr (Nat.le_refl _)) _

theorem Rep.touches_evictLast {l : LL K V} {cells : Cells K V} (h : Rep l cells) (k : K) (v : V) :
    Touches l (l.evictLast k v).1 (footprint l cells) := by
  have cn := h.closed_next
  refine ⟨Nat.le_refl _, Same.refl _ _ _, Same.refl _ _ _, ?_, ?_⟩
  · exact ((Same.refl _ _ _).upd (Or.inl (anchor_mem_footprint l cells)) _).upd (Or.inl (cn _ (anchor_mem_footprint l cells))) _
  · exact ((Same.refl _ _ _).upd (Or.inl (anchor_mem_footprint l cells)) _).upd (Or.inl (cn _ (anchor_mem_footprint l cells))) _

theorem Rep.touches_remove {l l' : LL K V} {cells : Cells K V} (h : Rep l cells) {k : K}
    (hm : l.remove k = some l') :
    Touches l l' (footprint l cells) ∧ l'.anchor = l.anchor ∧ l'.table = eraseKey k l.table := by
  unfold LL.remove at hm
  split at hm
  · cases hm
  · rename_i n ht
    have hn := h.addr_of_table ht
    simp only [Option.some.injEq] at hm
    subst hm
    have cn := h.closed_next
    have cp := h.closed_prev
    have cn1 := cn.upd (rd l.prev n) (cn n hn)
    refine ⟨⟨Nat.le_refl _, ?_, ?_, Same.refl _ _ _, Same.refl _ _ _⟩, rfl, rfl⟩
    · exact (Same.refl _ _ _).upd (Or.inl (cn1 n hn)) _
    · exact (Same.refl _ _ _).upd (Or.inl (cp n hn)) _

theorem Rep.touches_reinit (l : LL K V) (F : List Nat) : Touches l l.reinit F :=
  ⟨Nat.le_succ _, (Same.refl _ _ _).upd (Or.inr (Nat.le_refl _)) _, (Same.refl _ _ _).upd (Or.inr (Nat.le_refl _)) _,
   (Same.refl _ _ _).upd (Or.inr (Nat.le_refl _)) _, (Same.refl _ _ _).upd (Or.inr (Nat.le_refl _)) _⟩

/-- `link[VALUE] = value` on a link of the list -/
theorem Rep.touches_setVal (l : LL K V) {F : List Nat} {n : Nat} (hn : n ∈ F) (x : Option V) :
    Touches l { l with val := upd l.val n x } F :=
  ⟨Nat.le_refl _, Same.refl _ _ _, Same.refl _ _ _, Same.refl _ _ _, (Same.refl _ _ _).upd (Or.inl hn) _⟩

/-! frame -/

/-- a well-formed list only depends on the four fields of its own links -/
theorem Rep.frame {l l2 : LL K V} {cells : Cells K V} (h : Rep l cells) (ha : l2.anchor = l.anchor)
    (ht : l2.table = l.table) (hf : l.fresh ≤ l2.fresh)
    (hs : ∀ a ∈ footprint l cells, rd l2.prev a = rd l.prev a ∧ rd l2.next a = rd l.next a ∧
      rd l2.key a = rd l.key a ∧ rd l2.val a = rd l.val a) : Rep l2 cells := by
  refine ⟨?_, by rw [ha]; exact h.nodup, ?_, Nat.lt_of_lt_of_le h.cnt hf, ?_, h.nk, by rw [ht]; exact h.tn,
    by rw [ht]; exact h.tbl⟩
  · rw [ha]
    refine h.chain.congr (fun b hb => (hs b hb).2.1) (fun b hb => (hs b ?_).1)
    simp only [List.mem_append, List.mem_singleton] at hb
    simp only [footprint, List.mem_cons]
    rcases hb with h1 | h1
    · exact Or.inr h1
    · exact Or.inl h1
  · intro a ha'; rw [ha] at ha'; exact Nat.lt_of_lt_of_le (h.bound a ha') hf
  · intro c hc
    have hm : c.2.1 ∈ footprint l cells :=
      List.mem_cons_of_mem _ (List.mem_map_of_mem (f := fun c : K × (Nat × V) => c.2.1) hc)
    have := hs c.2.1 hm
    rw [this.2.2.1, this.2.2.2]
    exact h.kv c hc

/-- SEPARATION: two well-formed lists in one memory with disjoint links; whatever is done to the first
    by a step that writes only its own (or new) links leaves the second well formed, with the same cells -/
theorem Rep.separate {l1 l1' l2 : LL K V} {c1 c2 : Cells K V} (h2 : Rep l2 c2)
    (hmem : l2.prev = l1.prev ∧ l2.next = l1.next ∧ l2.key = l1.key ∧ l2.val = l1.val ∧ l2.fresh = l1.fresh)
    (hdis : ∀ a ∈ footprint l2 c2, a ∉ footprint l1 c1) (ht : Touches l1 l1' (footprint l1 c1)) :
    Rep { l2 with prev := l1'.prev, next := l1'.next, key := l1'.key, val := l1'.val, fresh := l1'.fresh } c2 := by
  obtain ⟨e1, e2, e3, e4, e5⟩ := hmem
  refine h2.frame rfl rfl (by show l2.fresh ≤ l1'.fresh; rw [e5]; exact ht.fresh) (fun a ha => ?_)
  have hlt : a < l1.fresh := e5 ▸ h2.bound a ha
  have hn := hdis a ha
  exact ⟨by rw [e1]; exact ht.prev a hn hlt, by rw [e2]; exact ht.next a hn hlt,
    by rw [e3]; exact ht.key a hn hlt, by rw [e4]; exact ht.val a hn hlt⟩

/-- composition: a second step that writes only links of the (possibly grown) list -/
theorem Touches.trans {l l' l'' : LL K V} {F F' : List Nat} (h1 : Touches l l' F) (h2 : Touches l' l'' F')
    (hF : ∀ a ∈ F', a ∈ F ∨ l.fresh ≤ a) : Touches l l'' F := by
  have key : ∀ b, b ∉ F → b < l.fresh → b ∉ F' ∧ b < l'.fresh := fun b hb hlt =>
    ⟨fun hm => by rcases hF b hm with h | h; exact hb h; omega, Nat.lt_of_lt_of_le hlt h1.fresh⟩
  exact ⟨Nat.le_trans h1.fresh h2.fresh,
    fun b hb hlt => (h2.prev b (key b hb hlt).1 (key b hb hlt).2).trans (h1.prev b hb hlt),
    fun b hb hlt => (h2.next b (key b hb hlt).1 (key b hb hlt).2).trans (h1.next b hb hlt),
    fun b hb hlt => (h2.key b (key b hb hlt).1 (key b hb hlt).2).trans (h1.key b hb hlt),
    fun b hb hlt => (h2.val b (key b hb hlt).1 (key b hb hlt).2).trans (h1.val b hb hlt)⟩

/-! tracking a list through a sequence of steps: relative to its state `base` (own links `F0`) at some earlier
    time it has written only links it owned then or allocated since, and it uses only such links -/

/-- a link the list may use: one of its links at the time of `base`, or allocated since -/
def Owned (base : LL K V) (F0 : List Nat) (a : Nat) : Prop := a ∈ F0 ∨ base.fresh ≤ a

structure Track (base : LL K V) (F0 : List Nat) (l : LL K V) : Prop where
  touches : Touches base l F0
  anchor : Owned base F0 l.anchor
  table : ∀ k n, lookup k l.table = some n → Owned base F0 n

theorem Track.owns {base l : LL K V} {F0 : List Nat} {cells : Cells K V} (t : Track base F0 l) (h : Rep l cells) :
    ∀ a ∈ footprint l cells, a ∈ F0 ∨ base.fresh ≤ a := by
  intro a ha
  simp only [C02.footprint, List.mem_cons] at ha
  rcases ha with rfl | ha
  · exact t.anchor
  · obtain ⟨c, hc, rfl⟩ := List.mem_map.1 ha
    have hl := lookup_of_mem h.nk hc
    have ht : lookup c.1 l.table = some c.2.1 := by rw [h.tbl, hl]; rfl
    exact t.table _ _ ht

theorem Track.start {l : LL K V} {cells : Cells K V} (h : Rep l cells) : Track l (footprint l cells) l :=
  ⟨Touches.refl _ _, Or.inl (anchor_mem_footprint l cells), fun _ _ ht => Or.inl (h.addr_of_table ht)⟩

theorem Track.step {base l l' : LL K V} {F0 : List Nat} {cells : Cells K V} (t : Track base F0 l) (h : Rep l cells)
    (ht : Touches l l' (footprint l cells)) (ha : Owned base F0 l'.anchor)
    (htb : ∀ k n, lookup k l'.table = some n → Owned base F0 n) : Track base F0 l' :=
  ⟨t.touches.trans ht (t.owns h), ha, htb⟩

theorem Track.moveToFront {base l l' : LL K V} {F0 : List Nat} {cells : Cells K V} (t : Track base F0 l)
    (h : Rep l cells) {k : K} {n : Nat} (hm : l.moveToFront k = some (l', n)) (x : Option V) :
    Track base F0 l' ∧ Track base F0 { l' with val := upd l'.val n x } := by
  obtain ⟨ht, hn, ha, htb⟩ := h.touches_moveToFront hm
  have t1 : Track base F0 l' := t.step h ht (ha ▸ t.anchor) (by rw [htb]; exact t.table)
  refine ⟨t1, t.step h (ht.trans (Rep.touches_setVal l' hn x) (fun a ha => Or.inl ha)) t1.anchor t1.table⟩

theorem Track.addFront {base l : LL K V} {F0 : List Nat} {cells : Cells K V} (t : Track base F0 l)
    (h : Rep l cells) (k : K) (v : V) : Track base F0 (l.addFront k v) := by
  refine t.step h (h.touches_addFront k v) t.anchor (fun k' n hl => ?_)
  have hl' : lookup k' (dset k l.fresh l.table) = some n := hl
  by_cases e : k' = k
  · subst e; rw [lookup_dset_self] at hl'; cases hl'; exact Or.inr t.touches.fresh
  · rw [lookup_dset_ne e] at hl'; exact t.table _ _ hl'

theorem lookup_eraseKey_some {A : Type} {k k' : K} {x : A} {l : List (K × A)} (hn : (keys l).Nodup)
    (h : lookup k' (eraseKey k l) = some x) : lookup k' l = some x := by
  by_cases e : k' = k
  · subst e; rw [lookup_eraseKey_self _ _ hn] at h; cases h
  · rwa [lookup_eraseKey_ne e] at h

theorem Track.evictLast {base l : LL K V} {F0 : List Nat} {cells : Cells K V} (t : Track base F0 l)
    (h : Rep l cells) (k : K) (v : V) : Track base F0 (l.evictLast k v).1 := by
  refine t.step h (h.touches_evictLast k v) ?_ (fun k' n hl => ?_)
  · exact t.owns h _ (h.closed_next _ (anchor_mem_footprint l cells))
  · have hl' : lookup k' (dset k l.anchor (match rd (upd l.key l.anchor (some k)) (rd l.next l.anchor) with
        | some e => eraseKey e l.table
        | none => l.table)) = some n := hl
    by_cases e : k' = k
    · subst e; rw [lookup_dset_self] at hl'; cases hl'; exact t.anchor
    · rw [lookup_dset_ne e] at hl'
      split at hl'
      · exact t.table _ _ (lookup_eraseKey_some h.tn hl')
      · exact t.table _ _ hl'

theorem Track.remove {base l l' : LL K V} {F0 : List Nat} {cells : Cells K V} (t : Track base F0 l)
    (h : Rep l cells) {k : K} (hm : l.remove k = some l') : Track base F0 l' := by
  obtain ⟨ht, ha, htb⟩ := h.touches_remove hm
  exact t.step h ht (ha ▸ t.anchor) (fun k' n hl => t.table _ _ (lookup_eraseKey_some h.tn (htb ▸ hl)))

theorem Track.reinit {base l : LL K V} {F0 : List Nat} {cells : Cells K V} (t : Track base F0 l)
    (h : Rep l cells) : Track base F0 l.reinit :=
  t.step h (Rep.touches_reinit l _) (Or.inr t.touches.fresh) (fun _ _ hl => by simp [LL.reinit, lookup] at hl)

/-! copy() in ONE memory: `ret = self.__class__(…)` allocates a new anchor (`_init_ll`), then
    `ret._set_key_and_add_to_front_of_ll(link[KEY], link[VALUE])` for every link met on the walk of the source -/

/-- adding links one by one keeps the list well formed AND tracked -/
theorem Rep.addAll_track {base l0 : LL K V} {F0 : List Nat} {c0 : Cells K V} (h : Rep l0 c0) (t : Track base F0 l0)
    (r : List (K × V)) (hr : (keys (ringOf c0 ++ r)).Nodup) :
    ∃ c1, Rep (l0.addAll (r.map fun p => (some p.1, some p.2))) c1 ∧ ringOf c1 = ringOf c0 ++ r ∧
      Track base F0 (l0.addAll (r.map fun p => (some p.1, some p.2))) := by
  induction r generalizing l0 c0 with
  | nil => exact ⟨c0, h, by simp, t⟩
  | cons p r ih =>
    have hp : lookup p.1 c0 = none := by
      rw [lookup_none_iff, ← keys_mapVal (·.2)]
      simp only [keys_append, keys_cons] at hr
      intro hm
      exact (List.nodup_append.1 hr).2.2 p.1 hm p.1 (by simp) rfl
    have h1 := h.addFront p.2 hp
    have t1 := t.addFront h p.1 p.2
    have hr' : (keys (ringOf (c0 ++ [(p.1, (l0.fresh, p.2))]) ++ r)).Nodup := by
      rw [ringOf_snoc]; simpa using hr
    obtain ⟨c1, g1, g2, g3⟩ := ih h1 t1 hr'
    refine ⟨c1, by simpa [LL.addAll] using g1, ?_, by simpa [LL.addAll] using g3⟩
    rw [g2, ringOf_snoc]; simp

/-- the source list `l` seen in a later memory `m` (same anchor and table) -/
def LL.inMemoryOf (l m : LL K V) : LL K V :=
  { l with prev := m.prev, next := m.next, key := m.key, val := m.val, fresh := m.fresh }

/-- COPY IN ONE MEMORY: the list built by copy() from a fresh anchor holds the same items in the same (eviction)
    order, consists of new links only — disjoint from the source's — and the source list is still well formed,
    with the same cells, in the memory that now also holds the copy -/
theorem Rep.copy_in_same_memory {l : LL K V} {cells : Cells K V} (h : Rep l cells) :
    ∃ cells', Rep (l.reinit.addAll l.flatten) cells' ∧ ringOf cells' = ringOf cells ∧
      (∀ a ∈ footprint (l.reinit.addAll l.flatten) cells', a ∉ footprint l cells) ∧
      Rep (l.inMemoryOf (l.reinit.addAll l.flatten)) cells := by
  have h0 : Rep l.reinit [] := Rep.reinit l
  have hn : (keys (ringOf ([] : Cells K V) ++ ringOf cells)).Nodup := by
    simpa [ringOf, keys_mapVal] using h.nk
  obtain ⟨c1, g1, g2, g3⟩ := h0.addAll_track (Track.start h0) (ringOf cells) hn
  rw [← h.flatten] at g1 g3
  have hfp : footprint l.reinit ([] : Cells K V) = [l.fresh] := rfl
  refine ⟨c1, g1, by simpa [ringOf] using g2, fun a ha ha2 => ?_, ?_⟩
  · have hlt : a < l.fresh := h.bound a ha2
    rcases g3.owns g1 a ha with h1 | h1
    · rw [hfp] at h1; simp at h1; omega
    · have : l.reinit.fresh = l.fresh + 1 := rfl
      omega
  · -- the source in the memory right after the new anchor was allocated …
    have hs : Rep (l.inMemoryOf l.reinit) cells := by
      refine h.frame rfl rfl (Nat.le_succ _) (fun a ha => ?_)
      have hlt : a < l.fresh := h.bound a ha
      have hne : a ≠ l.fresh := Nat.ne_of_lt hlt
      exact ⟨rd_upd_ne _ _ hne, rd_upd_ne _ _ hne, rd_upd_ne _ _ hne, rd_upd_ne _ _ hne⟩
    -- … is not disturbed by the additions to the new list
    have := hs.separate (l1 := l.reinit) (c1 := []) ⟨rfl, rfl, rfl, rfl, rfl⟩
      (fun a ha ha2 => by
        have hlt : a < l.fresh := h.bound a ha
        rw [hfp] at ha2; simp at ha2; omega) g3.touches
    exact this

end C02
