import BoltonsVerif.C02.ReentProofs
/-
C02 — the generic re-entrancy lemmas instantiated: ring model vs reference cache, pointer-level
model vs ring model; the representation invariant under a re-entrant on_miss.
-/
set_option linter.unusedSectionVars false
namespace C02
variable {K V : Type} [DecidableEq K] [DecidableEq V]

theorem Op.lookupKey_of_not_isLookup {op : Op K V} (h : op.isLookup = false) : op.lookupKey = none := by
  cases op <;> simp_all [Op.isLookup, Op.lookupKey]

/-- ring model ~ reference cache, with `n` misses not yet matched by soft misses -/
def RSim (n : Nat) (c : Cache K V) (s : Ref K V) : Prop := Sim c s ∧ c.soft + n ≤ c.miss

theorem RSim.zero_iff {c : Cache K V} {s : Ref K V} : RSim 0 c s ↔ Sim c s :=
  ⟨fun h => h.1, fun h => ⟨h, h.inv.soft_le⟩⟩

theorem OutSim.toRel {a : Out K V (Cache K V)} {b : Out K V (Ref K V)} (h : OutSim a b) : OutRel (RSim 0) a b := by
  cases h with
  | cache hn => exact OutRel.cache (RSim.zero_iff.2 hn)
  | none => exact OutRel.none
  | val v => exact OutRel.val v
  | keyError => exact OutRel.keyError
  | raised => exact OutRel.raised
  | item k v => exact OutRel.item k v
  | bool b => exact OutRel.bool b
  | nat n => exact OutRel.nat n
  | items l => exact OutRel.items l

theorem Sim.mach : MSim (Cache.mach (K := K) (V := V)) Ref.mach RSim (RSim 0) where
  weaken := fun h => ⟨h.1, by have := h.2; omega⟩
  log := fun h => h.1.log
  find := fun {n c s} k h => by
    show (lookup k c.ring).isSome = (lookup k s.ents).isSome
    rw [h.1.lookup_eq k]
  hit := fun {n c s} k h hf => by
    have hf' : (lookup k c.ring).isSome = true := hf
    obtain ⟨v, hk⟩ := Option.isSome_iff_exists.1 hf'
    have hg := h.1.getitem k
    have hk' : lookup k s.ents = some v := by rw [← h.1.lookup_eq k]; exact hk
    show RSim n (c.getitem k).1 (s.lookup k).1 ∧ ∃ v, (c.getitem k).2 = .val v ∧ (s.lookup k).2 = .val v
    refine ⟨⟨hg.1, ?_⟩, v, by rw [Cache.getitem_hit hk], by rw [Ref.lookup_hit hk']⟩
    rw [Cache.getitem_hit hk]; exact h.2
  missed := fun {n c s} k h => ⟨h.1.missed k, by show c.soft + (n + 1) ≤ c.miss + 1; have := h.2; omega⟩
  setitem := fun {n c s} k v h => ⟨h.1.setitem k v, by show (c.setitem k v).soft + n ≤ (c.setitem k v).miss; simp; exact h.2⟩
  soft := fun {n c s} h => by
    have h2 : c.soft + 1 + n ≤ c.miss := by have := h.2; omega
    have g := h.1
    exact ⟨⟨g.lru, g.max, g.om, g.d, g.hit, g.miss, congrArg (· + 1) g.soft, g.log,
      ⟨g.inv.sync, g.inv.cap, g.inv.pos, by show c.soft + 1 ≤ c.miss; omega⟩, g.sorted, g.bound⟩, h2⟩
  step := fun {n c s} op h hop => by
    have hs := h.1.step op
    have hc := step_nonlookup c op (Op.lookupKey_of_not_isLookup hop)
    exact ⟨⟨hs.1, by show (C02.step c op).1.soft + n ≤ (C02.step c op).1.miss; rw [hc.2.2.1, hc.2.1]; exact h.2⟩, hs.2.toRel⟩

/-- pointer-level model ~ ring model -/
def RHSim (n : Nat) (h : HCache K V) (c : Cache K V) : Prop := HSim h c ∧ c.soft + n ≤ c.miss

theorem RHSim.zero_iff {h : HCache K V} {c : Cache K V} : RHSim 0 h c ↔ HSim h c :=
  ⟨fun x => x.1, fun x => ⟨x, x.inv.soft_le⟩⟩

theorem OutH.toRel {a : Out K V (HCache K V)} {b : Out K V (Cache K V)} (h : OutH a b) : OutRel (RHSim 0) a b := by
  cases h with
  | cache hn => exact OutRel.cache (RHSim.zero_iff.2 hn)
  | none => exact OutRel.none
  | val v => exact OutRel.val v
  | keyError => exact OutRel.keyError
  | raised => exact OutRel.raised
  | item k v => exact OutRel.item k v
  | bool b => exact OutRel.bool b
  | nat n => exact OutRel.nat n
  | items l => exact OutRel.items l

theorem HSim.find_eq {h : HCache K V} {c : Cache K V} (hs : HSim h c) (k : K) :
    (lookup k h.ll.table).isSome = (lookup k c.ring).isSome := by
  obtain ⟨cells, hrep, hring⟩ := hs.rep
  rw [hrep.tbl, ← hring, lookup_ringOf]
  cases lookup k cells <;> rfl

theorem HSim.mach : MSim (HCache.mach (K := K) (V := V)) Cache.mach RHSim (RHSim 0) where
  weaken := fun h => ⟨h.1, by have := h.2; omega⟩
  log := fun hs => hs.1.log
  find := fun {n h c} k hs => hs.1.find_eq k
  hit := fun {n h c} k hs hf => by
    have hf' : (lookup k c.ring).isSome = true := by rw [← hs.1.find_eq k]; exact hf
    obtain ⟨v, hk⟩ := Option.isSome_iff_exists.1 hf'
    have hg := hs.1.getitem k
    show RHSim n (h.getitem k).1 (c.getitem k).1 ∧ ∃ v, (h.getitem k).2 = .val v ∧ (c.getitem k).2 = .val v
    have hc := Cache.getitem_hit hk
    refine ⟨⟨hg.1, by rw [hc]; exact hs.2⟩, v, ?_, by rw [hc]⟩
    have ho := hg.2
    rw [hc] at ho
    generalize (h.getitem k).2 = x at ho
    cases ho
    rfl
  missed := fun {n h c} k hs => ⟨hs.1.missed [k], by show c.soft + (n + 1) ≤ c.miss + 1; have := hs.2; omega⟩
  setitem := fun {n h c} k v hs => ⟨hs.1.setitem k v, by show (c.setitem k v).soft + n ≤ (c.setitem k v).miss; simp; exact hs.2⟩
  soft := fun {n h c} hs =>
    ⟨hs.1.softBump (by have := hs.2; omega), by show c.soft + 1 + n ≤ c.miss; have := hs.2; omega⟩
  step := fun {n h c} op hs hop => by
    have hst := hs.1.step op
    have hc := step_nonlookup c op (Op.lookupKey_of_not_isLookup hop)
    exact ⟨⟨hst.1, by show (C02.step c op).1.soft + n ≤ (C02.step c op).1.miss; rw [hc.2.2.1, hc.2.1]; exact hs.2⟩, hst.2.toRel⟩

/-! worlds -/

theorem WSim.toRel {w : List (Cache K V)} {ws : List (Ref K V)} : WSim w ws ↔ WRel (RSim 0) w ws :=
  ⟨fun h => ⟨h.1, fun i a b ha hb => RSim.zero_iff.2 (h.2 i a b ha hb)⟩,
   fun h => ⟨h.1, fun i a b ha hb => RSim.zero_iff.1 (h.2 i a b ha hb)⟩⟩

theorem HWSim.toRel {w : List (HCache K V)} {ws : List (Cache K V)} : HWSim w ws ↔ WRel (RHSim 0) w ws :=
  ⟨fun h => ⟨h.1, fun i a b ha hb => RHSim.zero_iff.2 (h.2 i a b ha hb)⟩,
   fun h => ⟨h.1, fun i a b ha hb => RHSim.zero_iff.1 (h.2 i a b ha hb)⟩⟩

/-- one world step with a re-entrant on_miss: ring model vs reference cache -/
theorem WSim.rwstep (P : List K → K → OmProg K V) (fuel : Nat) {w : List (Cache K V)} {ws : List (Ref K V)}
    (h : WRel (RSim 0) w ws) (op : WOp K V) :
    WRel (RSim 0) (rwstep P fuel w op).1 (Ref.rwstep P fuel ws op).1 ∧
    OutRel (RSim 0) (rwstep P fuel w op).2 (Ref.rwstep P fuel ws op).2 :=
  WRel.rwstepG (fun _ _ op hr => Sim.mach.rstep P fuel hr op)
    (fun _ _ op hw => ⟨WSim.toRel.1 ((WSim.toRel.2 hw).step op).1, ((WSim.toRel.2 hw).step op).2.toRel⟩) h op

/-- … pointer-level model vs ring model -/
theorem HWSim.rwstep (P : List K → K → OmProg K V) (fuel : Nat) {w : List (HCache K V)} {ws : List (Cache K V)}
    (h : WRel (RHSim 0) w ws) (op : WOp K V) :
    WRel (RHSim 0) (rhwstep P fuel w op).1 (C02.rwstep P fuel ws op).1 ∧
    OutRel (RHSim 0) (rhwstep P fuel w op).2 (C02.rwstep P fuel ws op).2 :=
  WRel.rwstepG (fun _ _ op hr => HSim.mach.rstep P fuel hr op)
    (fun _ _ op hw => ⟨HWSim.toRel.1 ((HWSim.toRel.2 hw).step op).1, ((HWSim.toRel.2 hw).step op).2.toRel⟩) h op

end C02
