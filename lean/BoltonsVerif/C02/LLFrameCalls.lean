import BoltonsVerif.C02.LLFrame
import BoltonsVerif.C02.ReentFacts
/-
C02 — whole public method calls on the pointer-level cache, a re-entrant on_miss included, write only
links the cache's list owned before the call or allocated during it (`Track`), and the list uses only
such links afterwards.  Together with `Rep.separate` (LLFrame.lean): no call on one cache can disturb the
list of another cache that lives in the same memory.
-/
set_option linter.unusedSectionVars false
namespace C02
variable {K V : Type} [DecidableEq K] [DecidableEq V]

/-- the pointer-level cache simulates a ring-level cache (with `n` misses not yet matched by soft misses) and
    its list is tracked relative to `base` -/
def QT (base : LL K V) (F0 : List Nat) (n : Nat) (h : HCache K V) : Prop :=
  ∃ c, RHSim n h c ∧ Track base F0 h.ll

theorem LL.moveToFront_isSome {l : LL K V} {k : K} {n : Nat} (ht : lookup k l.table = some n) :
    ∃ l', l.moveToFront k = some (l', n) := by
  simp only [LL.moveToFront, ht]
  exact ⟨_, rfl⟩

theorem LL.remove_cases (l : LL K V) (k : K) :
    (l.remove k = none) ∨ ∃ l', l.remove k = some l' := by
  cases l.remove k with
  | none => exact Or.inl rfl
  | some l' => exact Or.inr ⟨l', rfl⟩

theorem track_unlink {base : LL K V} {F0 : List Nat} {h : HCache K V} {cells : Cells K V} (t : Track base F0 h.ll)
    (hrep : Rep h.ll cells) (k : K) : Track base F0 (h.unlink k).ll := by
  unfold HCache.unlink
  cases hm : h.ll.remove k with
  | none => exact t
  | some l' => exact t.remove hrep hm

theorem track_setitem {base : LL K V} {F0 : List Nat} {h : HCache K V} {cells : Cells K V} (t : Track base F0 h.ll)
    (hrep : Rep h.ll cells) (k : K) (v : V) : Track base F0 (h.setitem k v).ll := by
  unfold HCache.setitem
  cases hm : h.ll.moveToFront k with
  | some p =>
    obtain ⟨l', n⟩ := p
    exact (t.moveToFront hrep hm (some v)).2
  | none =>
    simp only []
    split
    · exact t.addFront hrep k v
    · have := t.evictLast hrep k v
      cases he : h.ll.evictLast k v with
      | mk l' e =>
        rw [he] at this
        cases e <;> exact this

theorem QT.setitem {base : LL K V} {F0 : List Nat} {n : Nat} {h : HCache K V} (q : QT base F0 n h) (k : K) (v : V) :
    QT base F0 n (h.setitem k v) := by
  obtain ⟨c, hr, t⟩ := q
  obtain ⟨cells, hrep, _⟩ := hr.1.rep
  exact ⟨_, HSim.mach.setitem k v hr, track_setitem t hrep k v⟩

theorem QT.setAll {base : LL K V} {F0 : List Nat} {n : Nat} {h : HCache K V} (q : QT base F0 n h) (l : List (K × V)) :
    QT base F0 n (h.setAll l) := by
  unfold HCache.setAll
  induction l generalizing h with
  | nil => exact q
  | cons p l ih => exact ih (q.setitem p.1 p.2)

/-- the invariant carried through the re-entrant interpreter on the pointer-level machine -/
theorem HCache.machTrack (base : LL K V) (F0 : List Nat) :
    MInv (HCache.mach (K := K) (V := V)) (QT base F0) (fun _ => True) where
  weaken := fun ⟨c, hr, t⟩ => ⟨c, HSim.mach.weaken hr, t⟩
  hit := fun {n h} k ⟨c, hr, t⟩ hf => by
    obtain ⟨cells, hrep, _⟩ := hr.1.rep
    have hh := HSim.mach.hit k hr hf
    obtain ⟨hr', v, hv, _⟩ := hh
    refine ⟨⟨_, hr', ?_⟩, v, hv⟩
    have hf' : (lookup k h.ll.table).isSome = true := hf
    obtain ⟨a, ha⟩ := Option.isSome_iff_exists.1 hf'
    show Track base F0 (h.getitem k).1.ll
    unfold HCache.getitem
    cases hl : h.lru with
    | true =>
      obtain ⟨l', hm⟩ := LL.moveToFront_isSome ha
      have t' := (t.moveToFront hrep hm (none : Option V)).1
      simp only [if_true, hm]
      split <;> exact t'
    | false =>
      simp only [Bool.false_eq_true, if_false, ha, Option.map_some]
      split <;> exact t
  missed := fun k ⟨c, hr, t⟩ => ⟨_, HSim.mach.missed k hr, t⟩
  setitem := fun k v q => q.setitem k v
  soft := fun ⟨c, hr, t⟩ => ⟨_, HSim.mach.soft hr, t⟩
  step := fun {n h} op ⟨c, hr, t⟩ hop => by
    obtain ⟨cells, hrep, _⟩ := hr.1.rep
    have hs := HSim.mach.step op hr hop
    refine ⟨⟨_, hs.1, ?_⟩, fun _ _ => trivial⟩
    show Track base F0 (hstep h op).1.ll
    cases op with
    | getitem k => simp [Op.isLookup] at hop
    | get k d => simp [Op.isLookup] at hop
    | setdefault k d => simp [Op.isLookup] at hop
    | setitem k v => exact track_setitem t hrep k v
    | delitem k =>
      simp only [hstep]
      split
      · exact t
      · exact track_unlink (h := { h with d := eraseKey k h.d }) t hrep k
    | update e kw =>
      cases e with
      | self => exact t
      | pairs l =>
        obtain ⟨_, _, t'⟩ := (QT.setAll (⟨c, hr, t⟩ : QT base F0 n h) l).setAll kw
        exact t'
    | ior e =>
      cases e with
      | self => exact t
      | pairs l =>
        obtain ⟨_, _, t'⟩ := (QT.setAll (⟨c, hr, t⟩ : QT base F0 n h) l).setAll []
        exact t'
    | pop k d =>
      simp only [hstep]
      split
      · exact track_unlink (h := { h with d := eraseKey k h.d }) t hrep k
      · split <;> exact t
    | popitem =>
      simp only [hstep]
      split
      · exact t
      · rename_i p _
        exact track_unlink (h := { h with d := h.d.dropLast }) t hrep p.1
    | clear => exact t.reinit hrep
    | copy => exact t
    | contains k => exact t
    | len => exact t
    | items => exact t
    | eq o => exact t
    | ne o => exact t
    | updateFail l =>
      obtain ⟨_, _, t'⟩ := QT.setAll (⟨c, hr, t⟩ : QT base F0 n h) l
      exact t'
    | eqOther => exact t
    | neOther => exact t

end C02
