import BoltonsVerif.C02.Model
import BoltonsVerif.C02.LL
import BoltonsVerif.C02.Spec
/-
C02 — a RE-ENTRANT `on_miss`: a callback that itself uses the cache before it returns.

`LRI.__getitem__` / `LRU.__getitem__` run `ret = self[key] = self.on_miss(key)` under `self._lock`,
an RLock, so `on_miss` may call any method of the very cache that is waiting for its result
(a self-priming loader stores the key itself, a loader looks other keys up, drops keys, clears …).
Here `on_miss(k)` is a STRATEGY (`OmProg`): it makes dict-API calls on the cache, one after the other,
each chosen according to the results (values, KeyError, other exceptions) of the previous ones, and
finally returns a value / raises KeyError / raises another exception; it may also depend on the
keys it has been called with before (its own state).  Lookups among its calls may miss and call
`on_miss` again, to any depth; the
natural number `fuel` is the nesting depth at which `on_miss` raises instead of running its program
(in CPython: RecursionError; in the harness: the callback's own depth guard), so every function
below is total and all theorems hold for every `fuel`.

The interpreter is written ONCE, over a record `Mach` of the primitive steps of `__getitem__`
(link found? / the hit path / `miss_count += 1` / `self[key] = v` / `soft_miss_count += 1` / the
other public methods), and instantiated for the ring model (`Cache`), the pointer-level model
(`HCache`) and the reference cache of the statement (`Ref`).
      __getitem__(k):  link found            -> hit path (unchanged)
                       not found             -> miss_count += 1; run on_miss(k)'s program;
                                                raised -> propagate;  returned v -> self[k] = v (the
                                                full `__setitem__`, which looks the key up AGAIN)
      get / setdefault: as in the class, on top of that `__getitem__`.
Core Lean only (the driver runs these definitions).
-/
namespace C02

variable {K V C : Type} [DecidableEq K]

/-- what a call `on_miss(k)` does, as a STRATEGY over the dict API of the cache that called it: either it is
    done — it returns a value, raises KeyError or raises another exception — or it makes one call `op` on the
    cache and continues according to what that call returned or raised (`Out … Unit`: the result with the payload
    of copy() forgotten).  Any branching on results, any `try … except` around its calls, any number of calls. -/
inductive OmProg (K V : Type) where
  | done (r : OmRes V)
  | call (op : Op K V) (next : Out K V Unit → OmProg K V)

/-- an `on_miss` that does not touch the cache -/
def OmProg.pure (r : OmRes V) : OmProg K V := .done r

/-- the straight-line callbacks of the harness: the calls in order, then the outcome `r`; a call flagged `true`
    is wrapped in `try: … except Exception: pass`, an exception of any other call ends the callback with it -/
def OmProg.ofList : List (Bool × Op K V) → OmRes V → OmProg K V
  | [], r => .done r
  | (g, a) :: as, r => .call a fun o =>
    match o with
    | .keyError => if g then OmProg.ofList as r else .done .keyError
    | .raised => if g then OmProg.ofList as r else .done .error
    | _ => OmProg.ofList as r

/-- is the call a lookup through `__getitem__` (item get, get, setdefault)? -/
def Op.isLookup : Op K V → Bool
  | .getitem _ => true
  | .get _ _ => true
  | .setdefault _ _ => true
  | _ => false

/-- the primitive steps `__getitem__` / `get` / `setdefault` are made of, and the other methods -/
structure Mach (K V C : Type) where
  log     : C → List K                        -- the keys on_miss has been called with so far (its own history)
  find    : C → K → Bool                      -- `self._link_lookup[key]` succeeds
  hit     : C → K → C × Out K V C             -- the rest of `__getitem__` when it does
  missed  : C → K → C                         -- `self.miss_count += 1`, and on_miss is entered with `key`
  setitem : C → K → V → C                     -- `self[key] = value`
  soft    : C → C                             -- `self.soft_miss_count += 1`
  step    : C → Op K V → C × Out K V C        -- every method that is not a lookup

/-- the public methods, given `__getitem__` as `g` -/
def Mach.stepWith (M : Mach K V C) (g : C → K → C × Out K V C) (c : C) (op : Op K V) : C × Out K V C :=
  match op with
  | .getitem k => g c k
  | .get k d =>
    match g c k with
    | (c', .keyError) => (M.soft c', .val d)
    | r => r
  | .setdefault k d =>
    match g c k with
    | (c', .keyError) => (M.setitem (M.soft c') k d, .val d)
    | r => r
  | op => M.step c op

/-- running a callback: its calls are public method calls `st` on the cache -/
def runProg (st : C → Op K V → C × Out K V C) : C → OmProg K V → C × OmRes V
  | c, .done r => (c, r)
  | c, .call op next =>
    match st c op with
    | (c', o) => runProg st c' (next o.shape)

/-- `__getitem__` with the callback table `P` as on_miss: `P log k` is what on_miss does when called with `k`
    after having been called with the keys `log` (so the callback may keep state of its own); `fuel` =
    remaining nesting depth -/
def Mach.rget (M : Mach K V C) (P : List K → K → OmProg K V) : Nat → C → K → C × Out K V C
  | 0 => fun c k =>
    if M.find c k then M.hit c k else (M.missed c k, .raised)
  | n + 1 => fun c k =>
    if M.find c k then M.hit c k else
    match runProg (M.stepWith (M.rget P n)) (M.missed c k) (P (M.log c) k) with
    | (c2, .ret v) => (M.setitem c2 k v, .val v)       -- ret = self[key] = on_miss(key)
    | (c2, .keyError) => (c2, .keyError)               -- the callback raised: nothing is stored
    | (c2, .error) => (c2, .raised)

/-- one public method call on a cache whose on_miss is the program table `P` -/
def Mach.rstep (M : Mach K V C) (P : List K → K → OmProg K V) (fuel : Nat) : C → Op K V → C × Out K V C :=
  M.stepWith (M.rget P fuel)

/-- a whole history on one cache -/
def Mach.rrun (M : Mach K V C) (P : List K → K → OmProg K V) (fuel : Nat) (c : C) (ops : List (Op K V)) : C :=
  ops.foldl (fun c op => (M.rstep P fuel c op).1) c

/-! the three instances -/

def Cache.mach [DecidableEq V] : Mach K V (Cache K V) where
  log c := c.omLog
  find c k := (lookup k c.ring).isSome
  hit c k := c.getitem k
  missed c k := { c with miss := c.miss + 1, omLog := c.omLog ++ [k] }
  setitem c k v := c.setitem k v
  soft c := { c with soft := c.soft + 1 }
  step := C02.step

def HCache.mach [DecidableEq V] : Mach K V (HCache K V) where
  log c := c.omLog
  find c k := (lookup k c.ll.table).isSome
  hit c k := c.getitem k
  missed c k := { c with miss := c.miss + 1, omLog := c.omLog ++ [k] }
  setitem c k v := c.setitem k v
  soft c := { c with soft := c.soft + 1 }
  step := hstep

def Ref.mach [DecidableEq V] : Mach K V (Ref K V) where
  log s := s.omLog
  find s k := (C02.lookup k s.ents).isSome
  hit s k := s.lookup k
  missed s k := { s with miss := s.miss + 1, omLog := s.omLog ++ [k] }
  setitem s k v := s.assign k v
  soft s := { s with soft := s.soft + 1 }
  step := Ref.step

/-! worlds of caches: a method call on cache number i is re-entrant, the operations between two
    caches (`==`, `update(other_cache)`: only found lookups on the other cache) are the old ones -/

def rwstepG (st : C → Op K V → C × Out K V C) (wst : List C → WOp K V → List C × Out K V C)
    (w : List C) : WOp K V → List C × Out K V C
  | .on i op =>
    match w[i]? with
    | none => (w, .none)
    | some c =>
      match st c op with
      | (c', .cache n) => (w.set i c' ++ [n], .cache n)
      | (c', o) => (w.set i c', o)
  | op => wst w op

variable [DecidableEq V]

/-- ring model -/
def rwstep (P : List K → K → OmProg K V) (fuel : Nat) : List (Cache K V) → WOp K V → List (Cache K V) × Out K V (Cache K V) :=
  rwstepG (Cache.mach.rstep P fuel) wstep

/-- pointer-level model -/
def rhwstep (P : List K → K → OmProg K V) (fuel : Nat) : List (HCache K V) → WOp K V → List (HCache K V) × Out K V (HCache K V) :=
  rwstepG (HCache.mach.rstep P fuel) hwstep

/-- reference cache -/
def Ref.rwstep (P : List K → K → OmProg K V) (fuel : Nat) : List (Ref K V) → WOp K V → List (Ref K V) × Out K V (Ref K V) :=
  rwstepG (Ref.mach.rstep P fuel) Ref.wstep

def wrunG (st : List C → WOp K V → List C × Out K V C) (w : List C) (ops : List (WOp K V)) : List C :=
  ops.foldl (fun w op => (st w op).1) w

def woutsG (st : List C → WOp K V → List C × Out K V C) : List C → List (WOp K V) → List (Out K V C)
  | _, [] => []
  | w, op :: ops => (st w op).2 :: woutsG st (st w op).1 ops

end C02
