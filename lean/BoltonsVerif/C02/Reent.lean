import BoltonsVerif.C02.Model
import BoltonsVerif.C02.LL
import BoltonsVerif.C02.Spec
/-
C02 — a RE-ENTRANT `on_miss`: a callback that itself uses the cache before it returns.

`LRI.__getitem__` / `LRU.__getitem__` run `ret = self[key] = self.on_miss(key)` under `self._lock`,
an RLock, so `on_miss` may call any method of the very cache that is waiting for its result
(a self-priming loader stores the key itself, a loader looks other keys up, drops keys, clears …).
Here `on_miss(k)` is a PROGRAM: a list of dict-API calls on the cache (`acts`) followed by its
outcome (`res`: return a value / raise KeyError / raise another exception).  The calls are executed
one after the other; the first one that raises ends the program with that exception (the callback
has no `try`).  Lookups inside the program may miss and call `on_miss` again, to any depth; the
natural number `fuel` is the nesting depth at which `on_miss` raises instead of running its program
(in CPython: RecursionError; in the harness: the callback's own depth guard), so every function
below is total and all theorems hold for every `fuel`.

The interpreter is written ONCE, over a record `Mach` of the primitive steps of `__getitem__`
(link found? / the hit path / `miss_count += 1` / `self[key] = v` / `soft_miss_count += 1` / the
other public methods), and instantiated for the ring model (`Cache`), the pointer-level model
(`HCache`) and the reference cache of the statement (`Ref`).
      __getitem__(k):  link found            -> hit path (unchanged)
                       not found             -> miss_count += 1; run on_miss(k)'s program;
                                                raised -> propagate;  returned v -> self[k] = v (the
                                                full `__setitem__`, which looks the key up AGAIN)
      get / setdefault: as in the class, on top of that `__getitem__`.
Core Lean only (the driver runs these definitions).
-/
namespace C02

variable {K V C : Type} [DecidableEq K]

/-- what a call `on_miss(k)` does: `acts` on the cache, then `res` -/
structure OmProg (K V : Type) where
  acts : List (Op K V)
  res  : OmRes V

/-- an `on_miss` that does not touch the cache -/
def OmProg.pure (r : OmRes V) : OmProg K V := ⟨[], r⟩

/-- is the call a lookup through `__getitem__` (item get, get, setdefault)? -/
def Op.isLookup : Op K V → Bool
  | .getitem _ => true
  | .get _ _ => true
  | .setdefault _ _ => true
  | _ => false

/-- the primitive steps `__getitem__` / `get` / `setdefault` are made of, and the other methods -/
structure Mach (K V C : Type) where
  find    : C → K → Bool                      -- `self._link_lookup[key]` succeeds
  hit     : C → K → C × Out K V C             -- the rest of `__getitem__` when it does
  missed  : C → K → C                         -- `self.miss_count += 1`, and on_miss is entered with `key`
  setitem : C → K → V → C                     -- `self[key] = value`
  soft    : C → C                             -- `self.soft_miss_count += 1`
  step    : C → Op K V → C × Out K V C        -- every method that is not a lookup

/-- the public methods, given `__getitem__` as `g` -/
def Mach.stepWith (M : Mach K V C) (g : C → K → C × Out K V C) (c : C) (op : Op K V) : C × Out K V C :=
  match op with
  | .getitem k => g c k
  | .get k d =>
    match g c k with
    | (c', .keyError) => (M.soft c', .val d)
    | r => r
  | .setdefault k d =>
    match g c k with
    | (c', .keyError) => (M.setitem (M.soft c') k d, .val d)
    | r => r
  | op => M.step c op

/-- the body of an `on_miss` program: calls in order, the first exception ends it -/
def runWith (st : C → Op K V → C × Out K V C) : C → List (Op K V) → C × Option (Out K V C)
  | c, [] => (c, none)
  | c, a :: as =>
    match st c a with
    | (c', .keyError) => (c', some .keyError)
    | (c', .raised) => (c', some .raised)
    | (c', _) => runWith st c' as

/-- `__getitem__` with the program table `P` as on_miss; `fuel` = remaining nesting depth -/
def Mach.rget (M : Mach K V C) (P : K → OmProg K V) : Nat → C → K → C × Out K V C
  | 0 => fun c k =>
    if M.find c k then M.hit c k else (M.missed c k, .raised)
  | n + 1 => fun c k =>
    if M.find c k then M.hit c k else
    match runWith (M.stepWith (M.rget P n)) (M.missed c k) (P k).acts with
    | (c2, some e) => (c2, e)                      -- the program raised: nothing is stored
    | (c2, none) =>
      match (P k).res with
      | .ret v => (M.setitem c2 k v, .val v)       -- ret = self[key] = on_miss(key)
      | .keyError => (c2, .keyError)
      | .error => (c2, .raised)

/-- one public method call on a cache whose on_miss is the program table `P` -/
def Mach.rstep (M : Mach K V C) (P : K → OmProg K V) (fuel : Nat) : C → Op K V → C × Out K V C :=
  M.stepWith (M.rget P fuel)

/-- a whole history on one cache -/
def Mach.rrun (M : Mach K V C) (P : K → OmProg K V) (fuel : Nat) (c : C) (ops : List (Op K V)) : C :=
  ops.foldl (fun c op => (M.rstep P fuel c op).1) c

/-! the three instances -/

def Cache.mach [DecidableEq V] : Mach K V (Cache K V) where
  find c k := (lookup k c.ring).isSome
  hit c k := c.getitem k
  missed c k := { c with miss := c.miss + 1, omLog := c.omLog ++ [k] }
  setitem c k v := c.setitem k v
  soft c := { c with soft := c.soft + 1 }
  step := C02.step

def HCache.mach [DecidableEq V] : Mach K V (HCache K V) where
  find c k := (lookup k c.ll.table).isSome
  hit c k := c.getitem k
  missed c k := { c with miss := c.miss + 1, omLog := c.omLog ++ [k] }
  setitem c k v := c.setitem k v
  soft c := { c with soft := c.soft + 1 }
  step := hstep

def Ref.mach [DecidableEq V] : Mach K V (Ref K V) where
  find s k := (C02.lookup k s.ents).isSome
  hit s k := s.lookup k
  missed s k := { s with miss := s.miss + 1, omLog := s.omLog ++ [k] }
  setitem s k v := s.assign k v
  soft s := { s with soft := s.soft + 1 }
  step := Ref.step

/-! worlds of caches: a method call on cache number i is re-entrant, the operations between two
    caches (`==`, `update(other_cache)`: only found lookups on the other cache) are the old ones -/

def rwstepG (st : C → Op K V → C × Out K V C) (wst : List C → WOp K V → List C × Out K V C)
    (w : List C) : WOp K V → List C × Out K V C
  | .on i op =>
    match w[i]? with
    | none => (w, .none)
    | some c =>
      match st c op with
      | (c', .cache n) => (w.set i c' ++ [n], .cache n)
      | (c', o) => (w.set i c', o)
  | op => wst w op

variable [DecidableEq V]

/-- ring model -/
def rwstep (P : K → OmProg K V) (fuel : Nat) : List (Cache K V) → WOp K V → List (Cache K V) × Out K V (Cache K V) :=
  rwstepG (Cache.mach.rstep P fuel) wstep

/-- pointer-level model -/
def rhwstep (P : K → OmProg K V) (fuel : Nat) : List (HCache K V) → WOp K V → List (HCache K V) × Out K V (HCache K V) :=
  rwstepG (HCache.mach.rstep P fuel) hwstep

/-- reference cache -/
def Ref.rwstep (P : K → OmProg K V) (fuel : Nat) : List (Ref K V) → WOp K V → List (Ref K V) × Out K V (Ref K V) :=
  rwstepG (Ref.mach.rstep P fuel) Ref.wstep

def wrunG (st : List C → WOp K V → List C × Out K V C) (w : List C) (ops : List (WOp K V)) : List C :=
  ops.foldl (fun w op => (st w op).1) w

def woutsG (st : List C → WOp K V → List C × Out K V C) : List C → List (WOp K V) → List (Out K V C)
  | _, [] => []
  | w, op :: ops => (st w op).2 :: woutsG st (st w op).1 ops

end C02
