import BoltonsVerif.C02.Facts
/-
C02 — `dict.__eq__` decides equality of mappings; caches that agree on class, capacity,
on_miss, dict and ring behave alike for ever (used for copy()).
-/
namespace C02
variable {K V : Type} [DecidableEq K]

theorem lookup_mem {k : K} {v : V} {l : List (K × V)} (h : lookup k l = some v) : (k, v) ∈ l := by
  induction l with
  | nil => simp [lookup] at h
  | cons p l ih =>
    simp only [lookup] at h
    split at h
    · rename_i e; simp at h; cases p; simp_all
    · exact List.mem_cons_of_mem _ (ih h)

theorem length_eq_of_agree {a b : List (K × V)} (ha : (keys a).Nodup) (hb : (keys b).Nodup)
    (h : ∀ k, lookup k a = lookup k b) : a.length = b.length := by
  induction a generalizing b with
  | nil =>
    cases b with
    | nil => rfl
    | cons q b => have := h q.1; simp [lookup] at this
  | cons p a ih =>
    have hp : lookup p.1 b = some p.2 := by rw [← h]; simp [lookup]
    simp only [keys_cons, List.nodup_cons] at ha
    have hag : ∀ k, lookup k a = lookup k (eraseKey p.1 b) := by
      intro k
      by_cases e : k = p.1
      · subst e; rw [lookup_eraseKey_self _ _ hb]; exact (lookup_none_iff _ _).2 ha.1
      · rw [lookup_eraseKey_ne e, ← h]; simp [lookup, Ne.symm e]
    have := ih ha.2 (nodup_eraseKey p.1 b hb) hag
    rw [length_eraseKey, hp] at this
    have hne : b.length ≠ 0 := by intro h0; rw [List.length_eq_zero_iff.1 h0] at hp; simp [lookup] at hp
    simp at this ⊢; omega

theorem agree_of_sub {a b : List (K × V)} (ha : (keys a).Nodup) (hb : (keys b).Nodup)
    (hl : a.length = b.length) (h : ∀ p ∈ a, lookup p.1 b = some p.2) : ∀ k, lookup k a = lookup k b := by
  induction a generalizing b with
  | nil =>
    intro k
    have : b = [] := List.length_eq_zero_iff.1 hl.symm
    rw [this]
  | cons p a ih =>
    have hp : lookup p.1 b = some p.2 := h p (by simp)
    simp only [keys_cons, List.nodup_cons] at ha
    have hne : b.length ≠ 0 := by intro h0; rw [List.length_eq_zero_iff.1 h0] at hp; simp [lookup] at hp
    have hl' : a.length = (eraseKey p.1 b).length := by
      rw [length_eraseKey, hp]; simp at hl ⊢; omega
    have hsub : ∀ q ∈ a, lookup q.1 (eraseKey p.1 b) = some q.2 := by
      intro q hq
      have : q.1 ≠ p.1 := fun e => ha.1 (e ▸ mem_keys_of_mem hq)
      rw [lookup_eraseKey_ne this]; exact h q (List.mem_cons_of_mem _ hq)
    have := ih ha.2 (nodup_eraseKey p.1 b hb) hl' hsub
    intro k
    by_cases e : k = p.1
    · subst e; rw [hp]; simp [lookup]
    · rw [← lookup_eraseKey_ne e b, ← this]; simp [lookup, Ne.symm e]

variable [DecidableEq V]

/-- `dict.__eq__` decides equality of the two mappings -/
theorem dictEq_iff {a b : List (K × V)} (ha : (keys a).Nodup) (hb : (keys b).Nodup) :
    dictEq a b = true ↔ ∀ k, lookup k a = lookup k b := by
  unfold dictEq
  simp only [Bool.and_eq_true, beq_iff_eq, List.all_eq_true]
  constructor
  · rintro ⟨hl, h⟩; exact agree_of_sub ha hb hl h
  · intro h
    refine ⟨length_eq_of_agree ha hb h, fun p hp => ?_⟩
    rw [← h]; exact lookup_of_mem ha hp


/-! two caches with the same class, capacity, on_miss, dict and ring (counters may differ)
    behave alike for ever: this is what "copy() has the same eviction order" means observably -/
omit [DecidableEq V] in
structure SameCore (a b : Cache K V) : Prop where
  lru : a.lru = b.lru
  max : a.max = b.max
  om : a.onMiss = b.onMiss
  d : a.d = b.d
  ring : a.ring = b.ring

omit [DecidableEq V] in
theorem SameCore.copied (c : Cache K V) : SameCore c.copied c := ⟨rfl, rfl, rfl, rfl, rfl⟩

omit [DecidableEq V] in
theorem SameCore.setitem {a b : Cache K V} (h : SameCore a b) (k : K) (v : V) :
    SameCore (a.setitem k v) (b.setitem k v) := by
  obtain ⟨h1, h2, h3, h4, h5⟩ := h
  unfold Cache.setitem
  rw [h5, h4, h2]
  cases lookup k b.ring with
  | some _ => simp only []; exact ⟨h1, rfl, h3, rfl, rfl⟩
  | none =>
    simp only []
    split
    · exact ⟨h1, rfl, h3, rfl, rfl⟩
    · cases b.ring with
      | nil => simp only []; exact ⟨h1, h2, h3, h4, h5⟩
      | cons e rest => simp only []; exact ⟨h1, rfl, h3, rfl, rfl⟩

omit [DecidableEq V] in
theorem SameCore.setAll {a b : Cache K V} (h : SameCore a b) (l : List (K × V)) :
    SameCore (a.setAll l) (b.setAll l) := by
  unfold Cache.setAll
  induction l generalizing a b with
  | nil => exact h
  | cons p l ih => exact ih (h.setitem p.1 p.2)

inductive OutCore : Out K V (Cache K V) → Out K V (Cache K V) → Prop where
  | same (o : Out K V (Cache K V)) : OutCore o o
  | cache {a b : Cache K V} (h : SameCore a b) : OutCore (.cache a) (.cache b)

omit [DecidableEq V] in
theorem OutCore.shape_eq {x y : Out K V (Cache K V)} (h : OutCore x y) : x.shape = y.shape := by
  cases h <;> rfl

omit [DecidableEq V] in
theorem SameCore.getitem {a b : Cache K V} (h : SameCore a b) (k : K) :
    SameCore (a.getitem k).1 (b.getitem k).1 ∧ (a.getitem k).2 = (b.getitem k).2 := by
  have h' := h
  obtain ⟨h1, h2, h3, h4, h5⟩ := h
  cases hk : lookup k b.ring with
  | some v =>
    rw [Cache.getitem_hit hk, Cache.getitem_hit (h5 ▸ hk)]
    refine ⟨⟨h1, h2, h3, h4, ?_⟩, rfl⟩
    show (if a.lru then _ else _) = (if b.lru then _ else _)
    rw [h1, h5]
  | none =>
    cases hom : b.onMiss with
    | none =>
      rw [Cache.getitem_miss hk hom, Cache.getitem_miss (h5 ▸ hk) (h3 ▸ hom)]
      exact ⟨⟨h1, h2, h3, h4, h5⟩, rfl⟩
    | some f =>
      cases hf : f k with
      | ret v =>
        rw [Cache.getitem_onMiss hk hom hf, Cache.getitem_onMiss (h5 ▸ hk) (h3 ▸ hom) hf]
        refine ⟨?_, rfl⟩
        apply SameCore.setitem
        exact ⟨h1, h2, h3, h4, h5⟩
      | keyError =>
        rw [Cache.getitem_onMiss_keyError hk hom hf, Cache.getitem_onMiss_keyError (h5 ▸ hk) (h3 ▸ hom) hf]
        exact ⟨⟨h1, h2, h3, h4, h5⟩, rfl⟩
      | error =>
        rw [Cache.getitem_onMiss_error hk hom hf, Cache.getitem_onMiss_error (h5 ▸ hk) (h3 ▸ hom) hf]
        exact ⟨⟨h1, h2, h3, h4, h5⟩, rfl⟩

theorem SameCore.step {a b : Cache K V} (h : SameCore a b) (op : Op K V) :
    SameCore (step a op).1 (step b op).1 ∧ OutCore (step a op).2 (step b op).2 := by
  have hg := fun k => h.getitem k
  cases op with
  | setitem k v => exact ⟨h.setitem k v, OutCore.same _⟩
  | getitem k => exact ⟨(hg k).1, by simp only [C02.step]; rw [(hg k).2]; exact OutCore.same _⟩
  | delitem k =>
    simp only [C02.step, h.d]
    cases lookup k b.d with
    | none => exact ⟨h, OutCore.same _⟩
    | some _ => exact ⟨⟨h.lru, h.max, h.om, by simp [Cache.remove, h.d], by simp [Cache.remove, h.ring]⟩, OutCore.same _⟩
  | get k dflt =>
    simp only [C02.step]
    have := hg k
    cases ha : a.getitem k with
    | mk a' oa =>
      cases hb : b.getitem k with
      | mk b' ob =>
        rw [ha, hb] at this
        obtain ⟨hs, ho⟩ := this
        simp only [] at hs ho
        subst ho
        cases oa <;> simp only [] <;> first
          | exact ⟨hs, OutCore.same _⟩
          | exact ⟨⟨hs.lru, hs.max, hs.om, hs.d, hs.ring⟩, OutCore.same _⟩
  | setdefault k dflt =>
    simp only [C02.step]
    have := hg k
    cases ha : a.getitem k with
    | mk a' oa =>
      cases hb : b.getitem k with
      | mk b' ob =>
        rw [ha, hb] at this
        obtain ⟨hs, ho⟩ := this
        simp only [] at hs ho
        subst ho
        cases oa <;> simp only [] <;> first
          | exact ⟨hs, OutCore.same _⟩
          | (refine ⟨?_, OutCore.same _⟩; apply SameCore.setitem; exact ⟨hs.lru, hs.max, hs.om, hs.d, hs.ring⟩)
  | update e kw =>
    simp only [C02.step, Cache.update]
    cases e with
    | self => exact ⟨h, OutCore.same _⟩
    | pairs l => exact ⟨(h.setAll l).setAll kw, OutCore.same _⟩
  | ior e =>
    simp only [C02.step, Cache.update]
    cases e with
    | self => exact ⟨h, OutCore.same _⟩
    | pairs l => exact ⟨(h.setAll l).setAll [], OutCore.same _⟩
  | pop k dflt =>
    simp only [C02.step, h.d]
    cases lookup k b.d with
    | some v => exact ⟨⟨h.lru, h.max, h.om, by simp [Cache.remove, h.d], by simp [Cache.remove, h.ring]⟩, OutCore.same _⟩
    | none => cases dflt <;> exact ⟨h, OutCore.same _⟩
  | popitem =>
    simp only [C02.step, h.d]
    cases b.d.getLast? with
    | none => exact ⟨h, OutCore.same _⟩
    | some p => exact ⟨⟨h.lru, h.max, h.om, rfl, by simp [h.ring]⟩, OutCore.same _⟩
  | clear => exact ⟨⟨h.lru, h.max, h.om, rfl, rfl⟩, OutCore.same _⟩
  | copy => exact ⟨h, OutCore.cache ⟨h.lru, h.max, h.om, h.d, h.ring⟩⟩
  | contains k => simp only [C02.step, h.d]; exact ⟨h, OutCore.same _⟩
  | len => simp only [C02.step, h.d]; exact ⟨h, OutCore.same _⟩
  | items => simp only [C02.step, h.d]; exact ⟨h, OutCore.same _⟩
  | eq o =>
    have : a.eqArg o = b.eqArg o := by cases o <;> simp [Cache.eqArg, h.d]
    simp only [C02.step, this]; exact ⟨h, OutCore.same _⟩
  | ne o =>
    have : a.eqArg o = b.eqArg o := by cases o <;> simp [Cache.eqArg, h.d]
    simp only [C02.step, this]; exact ⟨h, OutCore.same _⟩
  | updateFail l => exact ⟨h.setAll l, OutCore.same _⟩
  | eqOther => exact ⟨h, OutCore.same _⟩
  | neOther => exact ⟨h, OutCore.same _⟩

theorem SameCore.run {a b : Cache K V} (h : SameCore a b) (ops : List (Op K V)) :
    SameCore (run a ops) (run b ops) ∧ (outs a ops).map Out.shape = (outs b ops).map Out.shape := by
  unfold C02.run
  induction ops generalizing a b with
  | nil => exact ⟨h, rfl⟩
  | cons op ops ih =>
    have hs := h.step op
    have := ih hs.1
    exact ⟨this.1, by simp only [outs, List.map_cons, hs.2.shape_eq, this.2]⟩

end C02
