import BoltonsVerif.C02.Refine
/-
C02 — facts used by the property theorems: ring ~ dict as permutations, what each kind of
lookup does to results / counters / on_miss log, removal and eviction, worlds of caches,
constancy of class / capacity / on_miss.
-/
namespace C02
variable {K V : Type} [DecidableEq K]

theorem perm_cons_eraseKey {k : K} {v : V} {r : List (K × V)} (h : lookup k r = some v) :
    r.Perm ((k, v) :: eraseKey k r) := by
  induction r with
  | nil => simp [lookup] at h
  | cons p r ih =>
    simp only [lookup] at h
    simp only [eraseKey]
    split at h
    · rename_i e; simp at h; rw [if_pos e]
      have : p = (k, v) := by cases p; simp_all
      rw [this]
    · rename_i e; rw [if_neg e]
      exact ((ih h).cons p).trans (List.Perm.swap _ _ _)

/-- the ring holds exactly the items of the dict -/
theorem Sync.perm {d r : List (K × V)} (h : Sync d r) : d.Perm r := by
  induction d generalizing r with
  | nil =>
    have := h.len
    simp at this
    rw [List.length_eq_zero_iff.1 this.symm]
  | cons p d ih =>
    have hp : lookup p.1 r = some p.2 := by rw [← h.agree]; simp [lookup]
    have h1 := h.remove p.1
    rw [eraseKey_head] at h1
    exact ((ih h1).cons p).trans (perm_cons_eraseKey hp).symm

/-! lookups: which operations count, and with which key -/

/-- the key an operation looks up through `__getitem__` (item get, get, setdefault) -/
def Op.lookupKey : Op K V → Option K
  | .getitem k => some k
  | .get k _ => some k
  | .setdefault k _ => some k
  | _ => none

/-- the caller-supplied default of get / setdefault -/
def Op.dflt : Op K V → Option V
  | .get _ d => some d
  | .setdefault _ d => some d
  | _ => none

variable [DecidableEq V]

section setAll
variable (c : Cache K V) (l : List (K × V))
theorem setAll_counters : (c.setAll l).hit = c.hit ∧ (c.setAll l).miss = c.miss ∧
    (c.setAll l).soft = c.soft ∧ (c.setAll l).omLog = c.omLog := by
  unfold Cache.setAll
  induction l generalizing c with
  | nil => exact ⟨rfl, rfl, rfl, rfl⟩
  | cons p l ih =>
    have := ih (c.setitem p.1 p.2)
    simpa using this
end setAll

theorem update_counters (c : Cache K V) (e : Arg K V) (kw : List (K × V)) :
    (c.update e kw).hit = c.hit ∧ (c.update e kw).miss = c.miss ∧
    (c.update e kw).soft = c.soft ∧ (c.update e kw).omLog = c.omLog := by
  unfold Cache.update
  cases e with
  | self => exact ⟨rfl, rfl, rfl, rfl⟩
  | pairs l =>
    have h1 := setAll_counters c l
    have h2 := setAll_counters (c.setAll l) kw
    exact ⟨h2.1.trans h1.1, h2.2.1.trans h1.2.1, h2.2.2.1.trans h1.2.2.1, h2.2.2.2.trans h1.2.2.2⟩

/-- operations that are not lookups leave the three counters and the on_miss log alone -/
theorem step_nonlookup (c : Cache K V) (op : Op K V) (h : op.lookupKey = none) :
    (step c op).1.hit = c.hit ∧ (step c op).1.miss = c.miss ∧ (step c op).1.soft = c.soft ∧
    (step c op).1.omLog = c.omLog := by
  cases op with
  | getitem k => simp [Op.lookupKey] at h
  | get k d => simp [Op.lookupKey] at h
  | setdefault k d => simp [Op.lookupKey] at h
  | setitem k v => simp [step]
  | delitem k => simp only [step]; split <;> exact ⟨rfl, rfl, rfl, rfl⟩
  | update e kw => exact update_counters c e kw
  | ior e => exact update_counters c e []
  | pop k d => simp only [step]; split; exact ⟨rfl, rfl, rfl, rfl⟩; split <;> exact ⟨rfl, rfl, rfl, rfl⟩
  | popitem => simp only [step]; split <;> exact ⟨rfl, rfl, rfl, rfl⟩
  | clear => exact ⟨rfl, rfl, rfl, rfl⟩
  | copy => exact ⟨rfl, rfl, rfl, rfl⟩
  | contains k => exact ⟨rfl, rfl, rfl, rfl⟩
  | len => exact ⟨rfl, rfl, rfl, rfl⟩
  | items => exact ⟨rfl, rfl, rfl, rfl⟩
  | eq o => exact ⟨rfl, rfl, rfl, rfl⟩
  | ne o => exact ⟨rfl, rfl, rfl, rfl⟩
  | updateFail l => exact setAll_counters c l
  | eqOther => exact ⟨rfl, rfl, rfl, rfl⟩
  | neOther => exact ⟨rfl, rfl, rfl, rfl⟩

/-- a lookup that finds the key: one hit, the stored value is returned, on_miss is not called,
    contents unchanged -/
theorem step_lookup_found {c : Cache K V} (hi : Inv c) {op : Op K V} {k : K} {v : V}
    (hop : op.lookupKey = some k) (hk : lookup k c.d = some v) :
    (step c op).2 = .val v ∧ (step c op).1.hit = c.hit + 1 ∧ (step c op).1.miss = c.miss ∧
    (step c op).1.soft = c.soft ∧ (step c op).1.omLog = c.omLog ∧ (step c op).1.d = c.d := by
  have hr : lookup k c.ring = some v := by rw [← hi.sync.agree, hk]
  cases op with
  | getitem k' =>
    simp [Op.lookupKey] at hop; subst hop
    simp [step, Cache.getitem_hit hr]
  | get k' d =>
    simp [Op.lookupKey] at hop; subst hop
    simp [step, Cache.getitem_hit hr]
  | setdefault k' d =>
    simp [Op.lookupKey] at hop; subst hop
    simp [step, Cache.getitem_hit hr]
  | _ => simp [Op.lookupKey] at hop

theorem setitem_lookup_self {c : Cache K V} (hi : Inv c) (k : K) (v : V) :
    lookup k (c.setitem k v).d = some v := by
  unfold Cache.setitem
  split
  · exact lookup_dset_self _ _ _
  · split
    · exact lookup_dset_self _ _ _
    · rename_i hfull
      split
      · rename_i hr; exact absurd hr (evict_ring_nonempty hi hfull)
      · exact lookup_dset_self _ _ _

/-- a lookup of an absent key with on_miss configured, on_miss returning `v`: one miss, no soft
    miss, on_miss is called once with that key, its result is returned and cached -/
theorem step_lookup_onMiss {c : Cache K V} (hi : Inv c) {op : Op K V} {k : K} {f : K → OmRes V} {v : V}
    (hop : op.lookupKey = some k) (hk : lookup k c.d = none) (hom : c.onMiss = some f) (hf : f k = .ret v) :
    (step c op).2 = .val v ∧ (step c op).1.hit = c.hit ∧ (step c op).1.miss = c.miss + 1 ∧
    (step c op).1.soft = c.soft ∧ (step c op).1.omLog = c.omLog ++ [k] ∧
    lookup k (step c op).1.d = some v := by
  have hr : lookup k c.ring = none := by rw [← hi.sync.agree, hk]
  have hi' : Inv ({ c with miss := c.miss + 1, omLog := c.omLog ++ [k] } : Cache K V) :=
    ⟨hi.sync, hi.cap, hi.pos, Nat.le_succ_of_le hi.soft_le⟩
  cases op with
  | getitem k' =>
    simp [Op.lookupKey] at hop; subst hop
    simp [step, Cache.getitem_onMiss hr hom hf, setitem_lookup_self hi']
  | get k' d =>
    simp [Op.lookupKey] at hop; subst hop
    simp [step, Cache.getitem_onMiss hr hom hf, setitem_lookup_self hi']
  | setdefault k' d =>
    simp [Op.lookupKey] at hop; subst hop
    simp [step, Cache.getitem_onMiss hr hom hf, setitem_lookup_self hi']
  | _ => simp [Op.lookupKey] at hop

/-- on_miss raises KeyError for the absent key: still one miss and one on_miss call; `c[k]` raises
    KeyError and caches nothing; get / setdefault swallow the KeyError, answer with the caller's
    default and count a soft miss (setdefault also stores the default) -/
theorem step_lookup_onMiss_keyError {c : Cache K V} (hi : Inv c) {op : Op K V} {k : K} {f : K → OmRes V}
    (hop : op.lookupKey = some k) (hk : lookup k c.d = none) (hom : c.onMiss = some f) (hf : f k = .keyError) :
    (step c op).2 = (match op.dflt with | some d => .val d | none => .keyError) ∧
    (step c op).1.hit = c.hit ∧ (step c op).1.miss = c.miss + 1 ∧
    (step c op).1.soft = c.soft + (if op.dflt.isSome then 1 else 0) ∧
    (step c op).1.omLog = c.omLog ++ [k] := by
  have hr : lookup k c.ring = none := by rw [← hi.sync.agree, hk]
  cases op with
  | getitem k' =>
    simp [Op.lookupKey] at hop; subst hop
    simp [step, Cache.getitem_onMiss_keyError hr hom hf, Op.dflt]
  | get k' d =>
    simp [Op.lookupKey] at hop; subst hop
    simp [step, Cache.getitem_onMiss_keyError hr hom hf, Op.dflt]
  | setdefault k' d =>
    simp [Op.lookupKey] at hop; subst hop
    simp [step, Cache.getitem_onMiss_keyError hr hom hf, Op.dflt]
  | _ => simp [Op.lookupKey] at hop

/-- on_miss raises another exception for the absent key: it propagates out of `c[k]`, get and
    setdefault alike; one miss, one on_miss call, no soft miss, contents unchanged -/
theorem step_lookup_onMiss_error {c : Cache K V} (hi : Inv c) {op : Op K V} {k : K} {f : K → OmRes V}
    (hop : op.lookupKey = some k) (hk : lookup k c.d = none) (hom : c.onMiss = some f) (hf : f k = .error) :
    (step c op).2 = .raised ∧ (step c op).1.hit = c.hit ∧ (step c op).1.miss = c.miss + 1 ∧
    (step c op).1.soft = c.soft ∧ (step c op).1.omLog = c.omLog ++ [k] ∧ (step c op).1.d = c.d := by
  have hr : lookup k c.ring = none := by rw [← hi.sync.agree, hk]
  cases op with
  | getitem k' =>
    simp [Op.lookupKey] at hop; subst hop
    simp [step, Cache.getitem_onMiss_error hr hom hf]
  | get k' d =>
    simp [Op.lookupKey] at hop; subst hop
    simp [step, Cache.getitem_onMiss_error hr hom hf]
  | setdefault k' d =>
    simp [Op.lookupKey] at hop; subst hop
    simp [step, Cache.getitem_onMiss_error hr hom hf]
  | _ => simp [Op.lookupKey] at hop

/-- a lookup of an absent key without on_miss: one miss; `c[k]` raises KeyError; get / setdefault
    answer with the caller's default and count one soft miss; on_miss is not called -/
theorem step_lookup_absent {c : Cache K V} (hi : Inv c) {op : Op K V} {k : K}
    (hop : op.lookupKey = some k) (hk : lookup k c.d = none) (hom : c.onMiss = none) :
    (step c op).2 = (match op.dflt with | some d => .val d | none => .keyError) ∧
    (step c op).1.hit = c.hit ∧ (step c op).1.miss = c.miss + 1 ∧
    (step c op).1.soft = c.soft + (if op.dflt.isSome then 1 else 0) ∧ (step c op).1.omLog = c.omLog := by
  have hr : lookup k c.ring = none := by rw [← hi.sync.agree, hk]
  cases op with
  | getitem k' =>
    simp [Op.lookupKey] at hop; subst hop
    simp [step, Cache.getitem_miss hr hom, Op.dflt]
  | get k' d =>
    simp [Op.lookupKey] at hop; subst hop
    simp [step, Cache.getitem_miss hr hom, Op.dflt]
  | setdefault k' d =>
    simp [Op.lookupKey] at hop; subst hop
    simp [step, Cache.getitem_miss hr hom, Op.dflt]
  | _ => simp [Op.lookupKey] at hop


/-! worlds -/
theorem WSim.of_mem {w : List (Cache K V)} {ws : List (Ref K V)} (h : WSim w ws) {c : Cache K V}
    (hc : c ∈ w) : ∃ s, s ∈ ws ∧ Sim c s := by
  obtain ⟨i, hi⟩ := List.mem_iff_getElem?.1 hc
  rcases h.get i with ⟨h1, _⟩ | ⟨c', s, h1, h2, hs⟩
  · rw [h1] at hi; cases hi
  · rw [h1] at hi; cases hi
    exact ⟨s, List.mem_of_getElem? h2, hs⟩

theorem WSim.contents {w : List (Cache K V)} {ws : List (Ref K V)} (h : WSim w ws) :
    w.map (·.d) = ws.map (·.ents) := by
  apply List.ext_getElem?
  intro i
  rw [List.getElem?_map, List.getElem?_map]
  rcases h.get i with ⟨h1, h2⟩ | ⟨c, s, h1, h2, hs⟩
  · rw [h1, h2]; rfl
  · rw [h1, h2]; simp [hs.d]

theorem WSim.counters {w : List (Cache K V)} {ws : List (Ref K V)} (h : WSim w ws) :
    w.map (fun c => (c.hit, c.miss, c.soft, c.omLog)) = ws.map (fun s => (s.hit, s.miss, s.soft, s.omLog)) := by
  apply List.ext_getElem?
  intro i
  rw [List.getElem?_map, List.getElem?_map]
  rcases h.get i with ⟨h1, h2⟩ | ⟨c, s, h1, h2, hs⟩
  · rw [h1, h2]; rfl
  · rw [h1, h2]; simp [hs.hit, hs.miss, hs.soft, hs.log]

/-! removal and eviction -/
omit [DecidableEq V] in
theorem lookup_of_mem {l : List (K × V)} (hnd : (keys l).Nodup) {p : K × V} (hm : p ∈ l) :
    lookup p.1 l = some p.2 := by
  induction l with
  | nil => cases hm
  | cons q l ih =>
    simp only [keys_cons, List.nodup_cons] at hnd
    simp only [lookup]
    rcases List.mem_cons.1 hm with rfl | hm
    · simp
    · have : q.1 ≠ p.1 := fun e => hnd.1 (e ▸ mem_keys_of_mem hm)
      rw [if_neg this]; exact ih hnd.2 hm

omit [DecidableEq V] in
theorem remove_absent {c : Cache K V} (hi : Inv c) (k : K) : lookup k (c.remove k).d = none :=
  lookup_eraseKey_self k c.d hi.sync.nd

omit [DecidableEq V] in
theorem remove_others {c : Cache K V} (k : K) {k' : K} (h : k' ≠ k) :
    lookup k' (c.remove k).d = lookup k' c.d := lookup_eraseKey_ne h c.d

omit [DecidableEq V] in
/-- `__setitem__` of a key that is present, or into a cache that is not full, evicts nothing -/
theorem setitem_keeps {c : Cache K V} (hi : Inv c) (k : K) (v : V)
    (h : (lookup k c.d).isSome ∨ c.d.length < c.max) {k' : K} (hne : k' ≠ k) :
    lookup k' (c.setitem k v).d = lookup k' c.d := by
  unfold Cache.setitem
  split
  · exact lookup_dset_ne hne v c.d
  · rename_i hk
    split
    · exact lookup_dset_ne hne v c.d
    · rename_i hfull
      rw [← hi.sync.agree] at hk
      rcases h with h | h
      · rw [hk] at h; cases h
      · exact absurd h hfull

omit [DecidableEq V] in
/-- `__setitem__` of a new key into a full cache evicts the head of the ring and nothing else -/
theorem setitem_evicts {c : Cache K V} (hi : Inv c) (k : K) (v : V)
    (hk : lookup k c.d = none) (hfull : ¬ c.d.length < c.max) :
    ∃ e rest, c.ring = e :: rest ∧ lookup e.1 (c.setitem k v).d = none ∧
      (∀ k', k' ≠ e.1 → k' ≠ k → lookup k' (c.setitem k v).d = lookup k' c.d) ∧
      (c.setitem k v).d.length = c.d.length := by
  have hkr : lookup k c.ring = none := by rw [← hi.sync.agree, hk]
  cases hr : c.ring with
  | nil => exact absurd hr (evict_ring_nonempty hi hfull)
  | cons e rest =>
    have hne : e.1 ≠ k := by
      intro e'
      rw [hr] at hkr; simp [lookup, e'] at hkr
    have hed : (lookup e.1 c.d).isSome := by rw [hi.sync.agree, hr]; simp [lookup]
    have hd : (c.setitem k v).d = dset k v (eraseKey e.1 c.d) := by
      unfold Cache.setitem
      rw [hkr]; simp only [hfull, if_false]; rw [hr]
    refine ⟨e, rest, rfl, ?_, ?_, ?_⟩
    · rw [hd, lookup_dset_ne hne, lookup_eraseKey_self _ _ hi.sync.nd]
    · intro k' h1 h2
      rw [hd, lookup_dset_ne h2, lookup_eraseKey_ne h1]
    · rw [hd, length_dset, lookup_eraseKey_ne (Ne.symm hne), hk, length_eraseKey]
      simp only [Option.isSome_none, Bool.false_eq_true, if_false, hed, if_true]
      have : c.d.length ≠ 0 := by
        intro h0; rw [List.length_eq_zero_iff.1 h0] at hed; simp [lookup] at hed
      omega

/-! copy -/
theorem step_copy (c : Cache K V) : step c .copy = (c, .cache c.copied) := rfl

/-- operations on one cache of a world leave every other cache of the world alone -/
theorem wstep_others (w : List (Cache K V)) (i : Nat) (op : Op K V) (j : Nat) (hj : j < w.length) (hne : j ≠ i) :
    (wstep w (.on i op)).1[j]? = w[j]? := by
  simp only [wstep]
  split
  · rfl
  · rename_i c hc
    split
    · rename_i c' n hs
      simp only []
      rw [List.getElem?_append_left (by simpa using hj), List.getElem?_set_ne (Ne.symm hne)]
    · simp only []; rw [List.getElem?_set_ne (Ne.symm hne)]


/-! class, capacity and on_miss never change -/
def Cache.config (c : Cache K V) : Bool × Nat × Option (K → OmRes V) := (c.lru, c.max, c.onMiss)

omit [DecidableEq V] in
@[simp] theorem setitem_config (c : Cache K V) (k : K) (v : V) : (c.setitem k v).config = c.config := by
  simp [Cache.config]

omit [DecidableEq V] in
theorem setAll_config (c : Cache K V) (l : List (K × V)) : (c.setAll l).config = c.config := by
  unfold Cache.setAll
  induction l generalizing c with
  | nil => rfl
  | cons p l ih => rw [List.foldl_cons, ih]; simp

omit [DecidableEq V] in
theorem getitem_config (c : Cache K V) (k : K) : (c.getitem k).1.config = c.config := by
  unfold Cache.getitem
  split
  · rfl
  · split
    · rfl
    · split
      · simp [Cache.config]
      · rfl
      · rfl

theorem step_config (c : Cache K V) (op : Op K V) : (step c op).1.config = c.config := by
  cases op with
  | setitem k v => simp [step]
  | getitem k => exact getitem_config c k
  | delitem k => simp only [step]; split <;> rfl
  | get k d =>
    simp only [step]
    split
    · rename_i c' hg; rw [← getitem_config c k, hg]; rfl
    · exact getitem_config c k
  | setdefault k d =>
    simp only [step]
    split
    · rename_i c' hg; rw [← getitem_config c k, hg]; simp [Cache.config]
    · exact getitem_config c k
  | update e kw =>
    simp only [step, Cache.update]; cases e with
    | self => rfl
    | pairs l => simp only []; rw [setAll_config, setAll_config]
  | ior e =>
    simp only [step, Cache.update]; cases e with
    | self => rfl
    | pairs l => simp only []; rw [setAll_config, setAll_config]
  | pop k d => simp only [step]; split; rfl; split <;> rfl
  | popitem => simp only [step]; split <;> rfl
  | clear => rfl
  | copy => rfl
  | contains k => rfl
  | len => rfl
  | items => rfl
  | eq o => rfl
  | ne o => rfl
  | updateFail l => simp only [step]; rw [setAll_config]
  | eqOther => rfl
  | neOther => rfl

theorem step_copy_config (c : Cache K V) (op : Op K V) {c' n : Cache K V}
    (h : step c op = (c', .cache n)) : n.config = c.config := by
  cases op with
  | copy => simp [step] at h; rw [← h.2]; rfl
  | setitem k v => simp [step] at h
  | getitem k =>
    simp only [step] at h; unfold Cache.getitem at h
    split at h
    · simp at h
    · split at h
      · simp at h
      · split at h <;> simp at h
  | delitem k => simp only [step] at h; split at h <;> simp at h
  | get k d =>
    simp only [step] at h
    split at h
    · simp at h
    · rename_i hne
      unfold Cache.getitem at h hne
      split at h
      · simp at h
      · split at h
        · simp at h
        · split at h <;> simp at h
  | setdefault k d =>
    simp only [step] at h
    split at h
    · simp at h
    · rename_i hne
      unfold Cache.getitem at h hne
      split at h
      · simp at h
      · split at h
        · simp at h
        · split at h <;> simp at h
  | update e kw => simp [step] at h
  | ior e => simp [step] at h
  | pop k d => simp only [step] at h; split at h; simp at h; split at h <;> simp at h
  | popitem => simp only [step] at h; split at h <;> simp at h
  | clear => simp [step] at h
  | contains k => simp [step] at h
  | len => simp [step] at h
  | items => simp [step] at h
  | eq o => simp [step] at h
  | ne o => simp [step] at h
  | updateFail l => simp [step] at h
  | eqOther => simp [step] at h
  | neOther => simp [step] at h

omit [DecidableEq V] in
theorem updFrom_config (c o : Cache K V) (ks : List K) :
    (updFrom c o ks).1.config = c.config ∧ (updFrom c o ks).2.1.config = o.config := by
  induction ks generalizing c o with
  | nil => exact ⟨rfl, rfl⟩
  | cons k ks ih =>
    have hg := getitem_config o k
    cases hco : o.getitem k with
    | mk o' out =>
      rw [hco] at hg
      simp only [updFrom, hco]
      cases out with
      | val v =>
        have := ih (c.setitem k v) o'
        exact ⟨this.1.trans (setitem_config c k v), this.2.trans hg⟩
      | _ => exact ⟨rfl, hg⟩

theorem wstep_config {w : List (Cache K V)} {cfg : Bool × Nat × Option (K → OmRes V)}
    (h : ∀ c ∈ w, c.config = cfg) (op : WOp K V) : ∀ c ∈ (wstep w op).1, c.config = cfg := by
  cases op with
  | on i op =>
    simp only [wstep]
    split
    · exact h
    · rename_i c hc
      have hcw : c ∈ w := List.mem_of_getElem? hc
      split
      · rename_i c' n hs
        intro x hx
        simp only [List.mem_append, List.mem_singleton] at hx
        rcases hx with hx | hx
        · rcases List.mem_or_eq_of_mem_set hx with hx | hx
          · exact h x hx
          · rw [hx]; have := step_config c op; rw [hs] at this; rw [this]; exact h c hcw
        · rw [hx, step_copy_config c op hs]; exact h c hcw
      · rename_i c' o hneg hs
        intro x hx
        rcases List.mem_or_eq_of_mem_set hx with hx | hx
        · exact h x hx
        · rw [hx]; have := step_config c op; rw [hs] at this; rw [this]; exact h c hcw
  | eqc i j => simp only [wstep]; split <;> exact h
  | nec i j => simp only [wstep]; split <;> exact h
  | updc i j kw =>
    simp only [wstep]
    split
    · rename_i c o hc ho
      have hcw : c ∈ w := List.mem_of_getElem? hc
      have how : o ∈ w := List.mem_of_getElem? ho
      have hcfg := updFrom_config c o (keys o.d)
      split
      · exact h
      · split
        · rename_i c' o' hu
          rw [hu] at hcfg
          intro x hx
          rcases List.mem_or_eq_of_mem_set hx with hx | hx
          · rcases List.mem_or_eq_of_mem_set hx with hx | hx
            · exact h x hx
            · rw [hx, setAll_config, hcfg.1]; exact h c hcw
          · rw [hx, hcfg.2]; exact h o how
        · rename_i c' o' hu
          rw [hu] at hcfg
          intro x hx
          rcases List.mem_or_eq_of_mem_set hx with hx | hx
          · rcases List.mem_or_eq_of_mem_set hx with hx | hx
            · exact h x hx
            · rw [hx, hcfg.1]; exact h c hcw
          · rw [hx, hcfg.2]; exact h o how
    · exact h

/-! `update` / `|=` with another cache as the argument -/

/-- the source cache after `E[k]` has been evaluated for every key of `ks` -/
def Cache.readAll (o : Cache K V) (ks : List K) : Cache K V := ks.foldl (fun o k => (o.getitem k).1) o

omit [DecidableEq V] in
/-- while dict and ring of the source are in step every `E[k]` is a hit: the target receives exactly
    the source's items, the source keeps its contents, counts one hit per item and calls on_miss never -/
theorem updFrom_hits {c o : Cache K V} (ho : Inv o) (l : List (K × V))
    (hl : ∀ p ∈ l, lookup p.1 o.d = some p.2) :
    updFrom c o (keys l) = (c.setAll l, o.readAll (keys l), true) ∧
    (o.readAll (keys l)).d = o.d ∧ (o.readAll (keys l)).hit = o.hit + l.length ∧
    (o.readAll (keys l)).miss = o.miss ∧ (o.readAll (keys l)).soft = o.soft ∧
    (o.readAll (keys l)).omLog = o.omLog ∧ Inv (o.readAll (keys l)) ∧
    (o.lru = false → (o.readAll (keys l)).ring = o.ring) ∧
    (o.lru = true → (o.readAll (keys l)).ring = l.foldl (fun r p => toFront p.1 p.2 r) o.ring) := by
  induction l generalizing c o with
  | nil => exact ⟨rfl, rfl, rfl, rfl, rfl, rfl, ho, fun _ => rfl, fun _ => rfl⟩
  | cons p l ih =>
    have hp := hl p (by simp)
    have hr : lookup p.1 o.ring = some p.2 := by rw [← ho.sync.agree, hp]
    have hg := Cache.getitem_hit hr
    have hinv := Cache.getitem_inv ho p.1
    rw [hg] at hinv
    have := ih (c := c.setitem p.1 p.2) hinv (fun q hq => hl q (List.mem_cons_of_mem _ hq))
    obtain ⟨h1, h2, h3, h4, h5, h6, h7, h8, h9⟩ := this
    simp only [keys_cons, updFrom, hg, Cache.readAll, List.foldl_cons, Cache.setAll] at *
    refine ⟨h1, h2, by rw [h3]; simp only [List.length_cons]; omega, h4, h5, h6, h7, ?_, ?_⟩
    · intro hlru; rw [h8 hlru]; simp [hlru]
    · intro hlru; rw [h9 hlru]; simp [hlru]

/-- remove several keys -/
def eraseKeys (ks : List K) (r : List (K × V)) : List (K × V) := ks.foldl (fun r k => eraseKey k r) r

omit [DecidableEq V] in
theorem eraseKey_snoc_ne {k : K} (x : List (K × V)) (p : K × V) (h : p.1 ≠ k) :
    eraseKey k (x ++ [p]) = eraseKey k x ++ [p] := by
  induction x with
  | nil => simp [eraseKey, h]
  | cons q x ih => simp only [List.cons_append, eraseKey]; split <;> simp [ih]

omit [DecidableEq V] in
theorem eraseKeys_snoc (ks : List K) (x : List (K × V)) (p : K × V) (h : p.1 ∉ ks) :
    eraseKeys ks (x ++ [p]) = eraseKeys ks x ++ [p] := by
  induction ks generalizing x with
  | nil => rfl
  | cons k ks ih =>
    simp only [List.mem_cons, not_or] at h
    simp only [eraseKeys, List.foldl_cons] at ih ⊢
    rw [eraseKey_snoc_ne x p h.1, ih _ h.2]

omit [DecidableEq V] in
/-- moving every item of `l` to the recent end, in order, leaves the other items in front and `l` behind -/
theorem foldl_toFront (l r : List (K × V)) (hn : (keys l).Nodup) :
    l.foldl (fun r p => toFront p.1 p.2 r) r = eraseKeys (keys l) r ++ l := by
  induction l generalizing r with
  | nil => simp [eraseKeys]
  | cons p l ih =>
    simp only [keys_cons, List.nodup_cons] at hn
    simp only [List.foldl_cons, keys_cons]
    rw [ih _ hn.2]
    unfold toFront
    have : (p.1, p.2) = p := rfl
    rw [this, eraseKeys_snoc _ _ _ hn.1]
    simp [eraseKeys]

omit [DecidableEq V] in
theorem eraseKeys_all (ks : List K) (r : List (K × V)) (hn : (keys r).Nodup) (h : ∀ k ∈ keys r, k ∈ ks) :
    eraseKeys ks r = [] := by
  induction ks generalizing r with
  | nil =>
    cases r with
    | nil => rfl
    | cons q r => have := h q.1 (by simp); simp at this
  | cons k ks ih =>
    simp only [eraseKeys, List.foldl_cons]
    apply ih _ (nodup_eraseKey k r hn)
    intro k' hk'
    have h1 : k' ∈ keys r := mem_keys_eraseKey hk'
    have h2 : k' ≠ k := fun e => not_mem_keys_eraseKey k r hn (e ▸ hk')
    have := h k' h1
    simp only [List.mem_cons] at this
    rcases this with e | this
    · exact absurd e h2
    · exact this

theorem wrun_config {w : List (Cache K V)} {cfg : Bool × Nat × Option (K → OmRes V)}
    (h : ∀ c ∈ w, c.config = cfg) (ops : List (WOp K V)) : ∀ c ∈ wrun w ops, c.config = cfg := by
  unfold wrun
  induction ops generalizing w with
  | nil => exact h
  | cons op ops ih => exact ih (wstep_config h op)

end C02
