import BoltonsVerif.C02.Model
/-
C02 — the reference cache of the property statement.

One mapping `ents` (key -> value, kept in dict order so that iteration can be compared too)
and, for every key, `stamp k` = the time of its latest insertion-or-assignment (LRI) or
latest insertion, assignment or successful lookup (LRU).  There is no ring: inserting a
new key into a full cache evicts `oldest`, the key whose stamp is smallest.
The dict-API operations are restated on top of the three primitives
`assign` / `lookup` / `remove`.
-/
namespace C02

variable {K V : Type} [DecidableEq K]

structure Ref (K V : Type) where
  lru    : Bool
  max    : Nat
  onMiss : Option (K → OmRes V)
  ents   : List (K × V)
  stamp  : K → Nat
  now    : Nat
  hit    : Nat
  miss   : Nat
  soft   : Nat
  omLog  : List K

def Ref.initP (lru : Bool) (max : Nat) (onMiss : Option (K → OmRes V)) : Ref K V :=
  ⟨lru, max, onMiss, [], fun _ => 0, 0, 0, 0, 0, []⟩

def Ref.init (lru : Bool) (max : Nat) (onMiss : Option (K → V)) : Ref K V :=
  Ref.initP lru max (onMiss.map totalOm)

/-- the key with the smallest stamp -/
def oldest (stamp : K → Nat) : List K → Option K
  | [] => none
  | k :: ks =>
    match oldest stamp ks with
    | none => some k
    | some m => if stamp k ≤ stamp m then some k else some m

/-- `stamp k := now` -/
def setStamp (stamp : K → Nat) (k : K) (t : Nat) : K → Nat := fun x => if x = k then t else stamp x

/-- the entries that remain when room is needed for the new key `k` -/
def Ref.makeRoom (s : Ref K V) (k : K) : List (K × V) :=
  if (lookup k s.ents).isSome ∨ s.ents.length < s.max then s.ents
  else match oldest s.stamp (keys s.ents) with
    | some m => eraseKey m s.ents
    | none => s.ents

/-- insertion or assignment: a new key entering a full cache evicts the oldest key -/
def Ref.assign (s : Ref K V) (k : K) (v : V) : Ref K V :=
  { s with ents := dset k v (s.makeRoom k), stamp := setStamp s.stamp k s.now, now := s.now + 1 }

def Ref.remove (s : Ref K V) (k : K) : Ref K V := { s with ents := eraseKey k s.ents }

/-- a lookup: found -> hit (and, for LRU, the key becomes the most recent one);
    not found -> miss, and `on_miss` (if any) is called: the value it returns is cached; if it
    raises, the exception propagates and nothing is cached -/
def Ref.lookup (s : Ref K V) (k : K) : Ref K V × Out K V (Ref K V) :=
  match C02.lookup k s.ents with
  | some v =>
    (if s.lru then { s with hit := s.hit + 1, stamp := setStamp s.stamp k s.now, now := s.now + 1 }
     else { s with hit := s.hit + 1 }, .val v)
  | none =>
    match s.onMiss with
    | none => ({ s with miss := s.miss + 1 }, .keyError)
    | some f =>
      match f k with
      | .ret v => (({ s with miss := s.miss + 1, omLog := s.omLog ++ [k] } : Ref K V).assign k v, .val v)
      | .keyError => ({ s with miss := s.miss + 1, omLog := s.omLog ++ [k] }, .keyError)
      | .error => ({ s with miss := s.miss + 1, omLog := s.omLog ++ [k] }, .raised)

def Ref.assignAll (s : Ref K V) (l : List (K × V)) : Ref K V :=
  l.foldl (fun s p => s.assign p.1 p.2) s

def Ref.update (s : Ref K V) (e : Arg K V) (kw : List (K × V)) : Ref K V :=
  match e with
  | .self => s
  | .pairs l => (s.assignAll l).assignAll kw

def Ref.eqArg [DecidableEq V] (s : Ref K V) : Arg K V → Bool
  | .self => true
  | .pairs o => dictEq s.ents o

def Ref.copied (s : Ref K V) : Ref K V := { s with hit := 0, miss := 0, soft := 0, omLog := [] }

def Ref.step [DecidableEq V] (s : Ref K V) : Op K V → Ref K V × Out K V (Ref K V)
  | .setitem k v => (s.assign k v, .none)
  | .getitem k => s.lookup k
  | .delitem k =>
    match C02.lookup k s.ents with
    | none => (s, .keyError)
    | some _ => (s.remove k, .none)
  | .get k dflt =>
    match s.lookup k with
    | (s', .keyError) => ({ s' with soft := s'.soft + 1 }, .val dflt)
    | r => r
  | .setdefault k dflt =>
    match s.lookup k with
    | (s', .keyError) => (({ s' with soft := s'.soft + 1 } : Ref K V).assign k dflt, .val dflt)
    | r => r
  | .update e kw => (s.update e kw, .none)
  | .ior e => (s.update e [], .none)
  | .pop k dflt =>
    match C02.lookup k s.ents with
    | some v => (s.remove k, .val v)
    | none => match dflt with
      | some v => (s, .val v)
      | none => (s, .keyError)
  | .popitem =>
    match s.ents.getLast? with
    | none => (s, .keyError)
    | some p => (s.remove p.1, .item p.1 p.2)
  | .clear => ({ s with ents := [] }, .none)
  | .copy => (s, .cache s.copied)
  | .contains k => (s, .bool (C02.lookup k s.ents).isSome)
  | .len => (s, .nat s.ents.length)
  | .items => (s, .items s.ents)
  | .eq o => (s, .bool (s.eqArg o))
  | .ne o => (s, .bool (!s.eqArg o))
  | .updateFail l => (s.assignAll l, .raised)
  | .eqOther => (s, .bool false)
  | .neOther => (s, .bool true)

/-- reading another reference cache `t` into `s`: one lookup of `t` and one assignment to `s` per key -/
def Ref.updFrom (s t : Ref K V) : List K → Ref K V × Ref K V × Bool
  | [] => (s, t, true)
  | k :: ks =>
    match t.lookup k with
    | (t', .val v) => Ref.updFrom (s.assign k v) t' ks
    | (t', _) => (s, t', false)

def Ref.argOf (w : List (Ref K V)) (i j : Nat) : Arg K V :=
  if i = j then .self else match w[j]? with
    | some o => .pairs o.ents
    | none => .pairs []

def Ref.wstep [DecidableEq V] (w : List (Ref K V)) : WOp K V → List (Ref K V) × Out K V (Ref K V)
  | .on i op =>
    match w[i]? with
    | none => (w, .none)
    | some c =>
      match Ref.step c op with
      | (c', .cache n) => (w.set i c' ++ [n], .cache n)
      | (c', o) => (w.set i c', o)
  | .eqc i j =>
    match w[i]? with
    | none => (w, .none)
    | some c => (w, (Ref.step c (.eq (Ref.argOf w i j))).2)
  | .nec i j =>
    match w[i]? with
    | none => (w, .none)
    | some c => (w, (Ref.step c (.ne (Ref.argOf w i j))).2)
  | .updc i j kw =>
    match w[i]?, w[j]? with
    | some c, some o =>
      if i = j then (w, .none)
      else match Ref.updFrom c o (keys o.ents) with
        | (c', o', true) => ((w.set i (c'.assignAll kw)).set j o', .none)
        | (c', o', false) => ((w.set i c').set j o', .keyError)
    | _, _ => (w, .none)

def Ref.wrun [DecidableEq V] (w : List (Ref K V)) (ops : List (WOp K V)) : List (Ref K V) :=
  ops.foldl (fun w op => (Ref.wstep w op).1) w

def Ref.wouts [DecidableEq V] (w : List (Ref K V)) : List (WOp K V) → List (Out K V (Ref K V))
  | [] => []
  | op :: ops => (Ref.wstep w op).2 :: Ref.wouts (Ref.wstep w op).1 ops

end C02
