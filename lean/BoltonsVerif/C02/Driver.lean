import BoltonsVerif.Common
import BoltonsVerif.C02.Model
import BoltonsVerif.C02.LL
import BoltonsVerif.C02.Reent
/-
C02 line protocol.  One line = one whole history over a small "world" of caches
(cache 0 is constructed by the header, every `copy` appends a cache):

    <cls:0|1|2|3> <max> <on_miss: - | a,b | a,b/ke/ve> <nk> <init: - | pairs> <op> <op> ...

  cls 0 = LRI, 1 = LRU on the ring model (`Model.lean`: `wstep`); 2 = LRI, 3 = LRU on the pointer-level model
  (`LL.lean`: `hwstep`, the linked list with PREV / NEXT fields and the rotating anchor).  Both print the same text.

  on_miss `a,b` is the function k ↦ a*k+b; with `/ke/ve` (key lists `k.k.k` or `-`) it raises
  KeyError for the keys in ke and ValueError for the keys in ve;  with `/ke/ve/prog/depth` it is RE-ENTRANT
  (`Reent.lean`): `prog` = `k=op+op+…~k=op+…` gives, per key, the calls on_miss(k) makes on the cache it was
  called from (op tokens as below with cache number 0; `?op` = the call is wrapped in try / except Exception: pass;
  `@w:kt:op` = `if (kt in cache) == (w = 1): op`, a callback that branches on what it sees)
  before it returns / raises as `a,b/ke/ve` say (`a,b,st`: it returns a*k+b+st*(number of earlier on_miss calls on this
  cache), a callback with state); `depth` is the nesting depth at which the callback raises ValueError instead (the
  interpreter's fuel);  keys, values are naturals (value 0 stands for
  Python's None);  pairs are `k.v,k.v,...` (`-` = empty);  `i`,`j` are cache numbers.
    s:i:k:v      c[k] = v                 g:i:k        c[k]
    d:i:k        del c[k]                 G:i:k:v      c.get(k, v)
    D:i:k:v      c.setdefault(k, v)       u:i:S:kw     c.update(c, **kw)
    u:i:P:pairs:kw  c.update(pairs, **kw) o:i:S / o:i:P:pairs   c |= …
    p:i:k        c.pop(k)                 p:i:k:v      c.pop(k, v)
    P:i          c.popitem()              c:i          c.clear()
    C:i          c.copy()                 i:i:k        k in c
    l:i          len(c)                   t:i          iteration
    e:i:P:pairs  c == {pairs}             e:i:C:j      c == cache j
    n:i:P:pairs / n:i:C:j   the same with !=
    u:i:C:j:kw   c.update(cache j, **kw)  o:i:C:j      c |= cache j
    u:i:F:pairs:kw / o:i:F:pairs   update / |= with an iterable that yields the pairs, then raises
    e:i:O / n:i:O   c == x / c != x for an x that is not a mapping
Output: `;`-separated records, first the freshly constructed cache, then one per op:
    <result>@<keys on_miss was called with>|<dump of cache 0>|<dump of cache 1>|...
-/
namespace C02.Driver
open BV C02

abbrev C := Cache Nat Nat

def showPairs (l : List (Nat × Nat)) : String :=
  if l.isEmpty then "-" else ",".intercalate (l.map fun p => s!"{p.1}.{p.2}")

def parsePairs? (s : String) : Option (List (Nat × Nat)) :=
  if s = "-" ∨ s = "" then some [] else
  (splitOnChar s ',').foldr (fun w acc =>
    match acc, splitOnChar w '.' with
    | some l, [a, b] => match a.toNat?, b.toNat? with
      | some x, some y => some ((x, y) :: l)
      | _, _ => none
    | _, _ => none) (some [])

def dumpF (nk : Nat) (d : List (Nat × Nat)) (hit miss soft max : Nat) (om : Bool) : String :=
  " ".intercalate [
    s!"I{showPairs d}", s!"K{showNats (keys d)}", s!"V{showNats (d.map Prod.snd)}",
    s!"L{d.length}", s!"H{hit}", s!"M{miss}", s!"S{soft}", s!"X{max}",
    s!"O{if om then 1 else 0}",
    s!"B{showNats ((List.range nk).map fun k => if (lookup k d).isSome then 1 else 0)}"]

def dump (nk : Nat) (c : C) : String := dumpF nk c.d c.hit c.miss c.soft c.max c.onMiss.isSome

abbrev H := HCache Nat Nat

def dumpH (nk : Nat) (c : H) : String := dumpF nk c.d c.hit c.miss c.soft c.max c.onMiss.isSome

def showOut {X : Type} : Out Nat Nat X → String
  | .none => "-"
  | .val v => s!"v{v}"
  | .keyError => "!KeyError"
  | .raised => "!ValueError"
  | .item k v => s!"p{k}.{v}"
  | .bool b => if b then "t" else "f"
  | .nat n => s!"n{n}"
  | .items l => s!"L{showPairs l}"
  | .cache _ => "c"

def parseArg? : List String → Option (Arg Nat Nat × List String)
  | "S" :: rest => some (.self, rest)
  | "P" :: p :: rest => (parsePairs? p).map fun l => (.pairs l, rest)
  | _ => none

/-- parse one token into a world operation (`wlen` = number of caches that exist) -/
def parseOp? (wlen : Nat) (tok : String) : Option (WOp Nat Nat) :=
  match splitOnChar tok ':' with
  | tag :: i :: args =>
    match i.toNat? with
    | none => none
    | some i =>
      if wlen ≤ i then none else
      let on (op : Op Nat Nat) : Option (WOp Nat Nat) := some (.on i op)
      match tag, args with
      | "s", [k, v] => match k.toNat?, v.toNat? with
        | some k, some v => on (.setitem k v) | _, _ => none
      | "g", [k] => k.toNat?.bind fun k => on (.getitem k)
      | "d", [k] => k.toNat?.bind fun k => on (.delitem k)
      | "G", [k, v] => match k.toNat?, v.toNat? with
        | some k, some v => on (.get k v) | _, _ => none
      | "D", [k, v] => match k.toNat?, v.toNat? with
        | some k, some v => on (.setdefault k v) | _, _ => none
      | "u", ["S", kw] => (parsePairs? kw).bind fun kw => on (.update .self kw)
      | "u", ["P", p, kw] => match parsePairs? p, parsePairs? kw with
        | some p, some kw => on (.update (.pairs p) kw) | _, _ => none
      | "u", ["C", j, kw] => match j.toNat?, parsePairs? kw with
        | some j, some kw => if wlen ≤ j then none else some (.updc i j kw) | _, _ => none
      | "o", ["C", j] => j.toNat?.bind fun j => if wlen ≤ j then none else some (.updc i j [])
      | "u", ["F", p, _] => (parsePairs? p).bind fun p => on (.updateFail p)
      | "o", ["F", p] => (parsePairs? p).bind fun p => on (.updateFail p)
      | "e", ["O"] => on .eqOther
      | "n", ["O"] => on .neOther
      | "o", ["S"] => on (.ior .self)
      | "o", ["P", p] => (parsePairs? p).bind fun p => on (.ior (.pairs p))
      | "p", [k] => k.toNat?.bind fun k => on (.pop k none)
      | "p", [k, v] => match k.toNat?, v.toNat? with
        | some k, some v => on (.pop k (some v)) | _, _ => none
      | "P", [] => on .popitem
      | "c", [] => on .clear
      | "C", [] => on .copy
      | "i", [k] => k.toNat?.bind fun k => on (.contains k)
      | "l", [] => on .len
      | "t", [] => on .items
      | "e", ["P", p] => (parsePairs? p).bind fun p => on (.eq (.pairs p))
      | "n", ["P", p] => (parsePairs? p).bind fun p => on (.ne (.pairs p))
      | "e", ["C", j] => j.toNat?.bind fun j => if wlen ≤ j then none else some (.eqc i j)
      | "n", ["C", j] => j.toNat?.bind fun j => if wlen ≤ j then none else some (.nec i j)
      | _, _ => none
  | _ => none

def target : WOp Nat Nat → Nat
  | .on i _ => i
  | .eqc i _ => i
  | .nec i _ => i
  | .updc i _ _ => i

def logLen (w : List C) (i : Nat) : Nat := match w[i]? with
  | some c => c.omLog.length
  | none => 0

def record (nk : Nat) (res : String) (calls : List Nat) (w : List C) : String :=
  "|".intercalate (s!"{res}@{showNats calls}" :: w.map (dump nk))

def logLenH (w : List H) (i : Nat) : Nat := match w[i]? with
  | some c => c.omLog.length
  | none => 0

def recordH (nk : Nat) (res : String) (calls : List Nat) (w : List H) : String :=
  "|".intercalate (s!"{res}@{showNats calls}" :: w.map (dumpH nk))

/-- one statement of a harness callback: a call (`true` = wrapped in `try: … except Exception: pass`), or
    `if (kt in cache) == want: call` — the callback BRANCHES on what the membership test answers -/
inductive OmStmt where
  | plain (guarded : Bool) (op : Op Nat Nat)
  | cond (want : Bool) (kt : Nat) (guarded : Bool) (op : Op Nat Nat)

/-- the callback as a strategy tree: the statements in order, then the outcome `r`; an exception of a call that is
    not guarded ends the callback with it -/
def ofStmts : List OmStmt → OmRes Nat → OmProg Nat Nat
  | [], r => .done r
  | .plain g a :: rest, r => .call a fun o =>
    match o with
    | .keyError => if g then ofStmts rest r else .done .keyError
    | .raised => if g then ofStmts rest r else .done .error
    | _ => ofStmts rest r
  | .cond want kt g a :: rest, r => .call (.contains kt) fun t =>
    match t with
    | .bool b =>
      if b = want then .call a fun o =>
        match o with
        | .keyError => if g then ofStmts rest r else .done .keyError
        | .raised => if g then ofStmts rest r else .done .error
        | _ => ofStmts rest r
      else ofStmts rest r
    | _ => ofStmts rest r

/-- `?op` / `op` -> (guarded, call on cache 0) -/
def parseAct? (t : String) : Option (Bool × Op Nat Nat) :=
  let guarded := t.startsWith "?"
  match parseOp? 1 (if guarded then (t.drop 1).toString else t) with
  | some (.on _ op) => some (guarded, op)
  | _ => none

/-- `k=stmt+stmt~k=stmt…` -> the statements of on_miss(k), per key; a statement is `op`, `?op` (the call is wrapped
    in `try: … except Exception: pass`) or `@w:kt:op` / `@w:kt:?op` (`if (kt in cache) == (w = 1): op`) -/
def parseProg? (s : String) : Option (List (Nat × List OmStmt)) :=
  if s = "-" ∨ s = "" then some [] else
  (splitOnChar s '~').foldr (fun w acc =>
    match acc, splitOnChar w '=' with
    | some l, [k, body] =>
      match k.toNat? with
      | none => none
      | some k =>
        let stmts : Option (List OmStmt) :=
          if body = "-" ∨ body = "" then some [] else
          (splitOnChar body '+').foldr (fun t acc =>
            match acc with
            | none => none
            | some l =>
              if t.startsWith "@" then
                match splitOnChar ((t.drop 1).toString) ':' with
                | w :: kt :: rest =>
                  match w.toNat?, kt.toNat?, parseAct? (":".intercalate rest) with
                  | some w, some kt, some (g, op) => some (.cond (w = 1) kt g op :: l)
                  | _, _, _ => none
                | _ => none
              else
                match parseAct? t with
                | some (g, op) => some (.plain g op :: l)
                | none => none) (some [])
        stmts.map fun a => (k, a) :: l
    | _, _ => none) (some [])

/-- the history loop, for any representation of the caches -/
def loop {W : Type} (wlen : W → Nat) (wst : W → WOp Nat Nat → W × String) (logLen : W → Nat → Nat)
    (callsOf : W → Nat → Nat → List Nat) (rec : String → List Nat → W → String) :
    W → List String → List String → Option (List String)
  | _, [], acc => some acc.reverse
  | w, t :: ts, acc =>
    match parseOp? (wlen w) t with
    | none => none
    | some op =>
      let i := target op
      let before := logLen w i
      let (w', o) := wst w op
      loop wlen wst logLen callsOf rec w' ts (rec o (callsOf w' i before) w' :: acc)

def handle (line : String) : String :=
  match words line with
  | lru :: mx :: om :: nk :: init :: toks =>
    let resOf (a b : Nat) (ke ve : List Nat) : Nat → OmRes Nat :=
      fun k => if ke.contains k then .keyError else if ve.contains k then .error else .ret (a * k + b)
    -- (on_miss as a function of the key; re-entrant part: calls per key, state factor, depth)
    let onMiss? : Option (Option (Nat → OmRes Nat) × Option (List (Nat × List OmStmt) × Nat × Nat × Nat × Nat × List Nat × List Nat)) :=
      if om = "-" then some (none, none) else
      match splitOnChar om '/' with
      | [ab] =>
        match natList? ab with
        | some [a, b] => some (some fun k => .ret (a * k + b), none)
        | _ => none
      | [ab, ke, ve] =>
        match natList? ab, natList? ke '.', natList? ve '.' with
        | some [a, b], some ke, some ve => some (some (resOf a b ke ve), none)
        | _, _, _ => none
      | [ab, ke, ve, prog, depth] =>
        match natList? ab, natList? ke '.', natList? ve '.', parseProg? prog, depth.toNat? with
        | some [a, b], some ke, some ve, some prog, some depth =>
          some (some (resOf a b ke ve), some (prog, depth, a, b, 0, ke, ve))
        | some [a, b, st], some ke, some ve, some prog, some depth =>
          some (some (resOf a b ke ve), some (prog, depth, a, b, st, ke, ve))
        | _, _, _, _, _ => none
      | _ => none
    match lru.toNat?, mx.toNat?, onMiss?, nk.toNat?, parsePairs? init with
    | some lru, some mx, some (onMiss, re), some nk, some init =>
      if mx = 0 ∨ 3 < lru then "bad-op" else
      -- the re-entrant on_miss as a strategy table: the calls of the key's program in order, then the outcome
      -- a*k + b + st * (number of earlier on_miss calls on this cache), or the exception chosen by ke / ve
      let P : List Nat → Nat → OmProg Nat Nat := fun lg k =>
        match re with
        | some (prog, _, a, b, st, ke, ve) =>
          ofStmts ((lookup k prog).getD [])
            (if ke.contains k then .keyError else if ve.contains k then .error else .ret (a * k + b + st * lg.length))
        | none => .done .keyError
      let depthOf : Nat := match re with
        | some (_, depth, _) => depth
        | none => 0
      let re : Option Unit := re.map fun _ => ()
      let showStep {X : Type} (r : List X × Out Nat Nat X) : List X × String := (r.1, showOut r.2)
      if 2 ≤ lru then
        -- the pointer-level model
        let h0 : H := (HCache.initP (lru = 3) mx onMiss).setAll init
        let wst : List H → WOp Nat Nat → List H × String := match re with
          | some _ => fun w op => showStep (rhwstep P depthOf w op)
          | none => fun w op => showStep (hwstep w op)
        let callsOf (w : List H) (i before : Nat) : List Nat := match w[i]? with
          | some c => c.omLog.drop before
          | none => []
        match loop List.length wst logLenH callsOf (recordH nk) [h0] toks [recordH nk "-" [] [h0]] with
        | some outs => ";".intercalate outs
        | none => "bad-op"
      else
      let c0 : C := (Cache.initP (lru = 1) mx onMiss).setAll init
      let wst : List C → WOp Nat Nat → List C × String := match re with
        | some _ => fun w op => showStep (rwstep P depthOf w op)
        | none => fun w op => showStep (wstep w op)
      let callsOf (w : List C) (i before : Nat) : List Nat := match w[i]? with
        | some c => c.omLog.drop before
        | none => []
      match loop List.length wst logLen callsOf (record nk) [c0] toks [record nk "-" [] [c0]] with
      | some outs => ";".intercalate outs
      | none => "bad-op"
    | _, _, _, _, _ => "bad-op"
  | _ => "bad-op"

end C02.Driver
