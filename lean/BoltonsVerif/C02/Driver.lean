import BoltonsVerif.Common
import BoltonsVerif.C02.Model
/-
C02 line protocol.  One line = one whole history over a small "world" of caches
(cache 0 is constructed by the header, every `copy` appends a cache):

    <lru:0|1> <max> <on_miss: - | a,b | a,b/ke/ve> <nk> <init: - | pairs> <op> <op> ...

  on_miss `a,b` is the function k ↦ a*k+b; with `/ke/ve` (key lists `k.k.k` or `-`) it raises
  KeyError for the keys in ke and ValueError for the keys in ve;  keys, values are naturals (value 0 stands for
  Python's None);  pairs are `k.v,k.v,...` (`-` = empty);  `i`,`j` are cache numbers.
    s:i:k:v      c[k] = v                 g:i:k        c[k]
    d:i:k        del c[k]                 G:i:k:v      c.get(k, v)
    D:i:k:v      c.setdefault(k, v)       u:i:S:kw     c.update(c, **kw)
    u:i:P:pairs:kw  c.update(pairs, **kw) o:i:S / o:i:P:pairs   c |= …
    p:i:k        c.pop(k)                 p:i:k:v      c.pop(k, v)
    P:i          c.popitem()              c:i          c.clear()
    C:i          c.copy()                 i:i:k        k in c
    l:i          len(c)                   t:i          iteration
    e:i:P:pairs  c == {pairs}             e:i:C:j      c == cache j
    n:i:P:pairs / n:i:C:j   the same with !=
Output: `;`-separated records, first the freshly constructed cache, then one per op:
    <result>@<keys on_miss was called with>|<dump of cache 0>|<dump of cache 1>|...
-/
namespace C02.Driver
open BV C02

abbrev C := Cache Nat Nat

def showPairs (l : List (Nat × Nat)) : String :=
  if l.isEmpty then "-" else ",".intercalate (l.map fun p => s!"{p.1}.{p.2}")

def parsePairs? (s : String) : Option (List (Nat × Nat)) :=
  if s = "-" ∨ s = "" then some [] else
  (splitOnChar s ',').foldr (fun w acc =>
    match acc, splitOnChar w '.' with
    | some l, [a, b] => match a.toNat?, b.toNat? with
      | some x, some y => some ((x, y) :: l)
      | _, _ => none
    | _, _ => none) (some [])

def dump (nk : Nat) (c : C) : String :=
  " ".intercalate [
    s!"I{showPairs c.d}", s!"K{showNats (keys c.d)}", s!"V{showNats (c.d.map Prod.snd)}",
    s!"L{c.d.length}", s!"H{c.hit}", s!"M{c.miss}", s!"S{c.soft}", s!"X{c.max}",
    s!"O{if c.onMiss.isSome then 1 else 0}",
    s!"B{showNats ((List.range nk).map fun k => if (lookup k c.d).isSome then 1 else 0)}"]

def showOut : Out Nat Nat C → String
  | .none => "-"
  | .val v => s!"v{v}"
  | .keyError => "!KeyError"
  | .raised => "!ValueError"
  | .item k v => s!"p{k}.{v}"
  | .bool b => if b then "t" else "f"
  | .nat n => s!"n{n}"
  | .items l => s!"L{showPairs l}"
  | .cache _ => "c"

def parseArg? : List String → Option (Arg Nat Nat × List String)
  | "S" :: rest => some (.self, rest)
  | "P" :: p :: rest => (parsePairs? p).map fun l => (.pairs l, rest)
  | _ => none

/-- parse one token into a world operation -/
def parseOp? (w : List C) (tok : String) : Option (WOp Nat Nat) :=
  match splitOnChar tok ':' with
  | tag :: i :: args =>
    match i.toNat? with
    | none => none
    | some i =>
      if w.length ≤ i then none else
      let on (op : Op Nat Nat) : Option (WOp Nat Nat) := some (.on i op)
      match tag, args with
      | "s", [k, v] => match k.toNat?, v.toNat? with
        | some k, some v => on (.setitem k v) | _, _ => none
      | "g", [k] => k.toNat?.bind fun k => on (.getitem k)
      | "d", [k] => k.toNat?.bind fun k => on (.delitem k)
      | "G", [k, v] => match k.toNat?, v.toNat? with
        | some k, some v => on (.get k v) | _, _ => none
      | "D", [k, v] => match k.toNat?, v.toNat? with
        | some k, some v => on (.setdefault k v) | _, _ => none
      | "u", ["S", kw] => (parsePairs? kw).bind fun kw => on (.update .self kw)
      | "u", ["P", p, kw] => match parsePairs? p, parsePairs? kw with
        | some p, some kw => on (.update (.pairs p) kw) | _, _ => none
      | "o", ["S"] => on (.ior .self)
      | "o", ["P", p] => (parsePairs? p).bind fun p => on (.ior (.pairs p))
      | "p", [k] => k.toNat?.bind fun k => on (.pop k none)
      | "p", [k, v] => match k.toNat?, v.toNat? with
        | some k, some v => on (.pop k (some v)) | _, _ => none
      | "P", [] => on .popitem
      | "c", [] => on .clear
      | "C", [] => on .copy
      | "i", [k] => k.toNat?.bind fun k => on (.contains k)
      | "l", [] => on .len
      | "t", [] => on .items
      | "e", ["P", p] => (parsePairs? p).bind fun p => on (.eq (.pairs p))
      | "n", ["P", p] => (parsePairs? p).bind fun p => on (.ne (.pairs p))
      | "e", ["C", j] => j.toNat?.bind fun j => if w.length ≤ j then none else some (.eqc i j)
      | "n", ["C", j] => j.toNat?.bind fun j => if w.length ≤ j then none else some (.nec i j)
      | _, _ => none
  | _ => none

def target : WOp Nat Nat → Nat
  | .on i _ => i
  | .eqc i _ => i
  | .nec i _ => i

def logLen (w : List C) (i : Nat) : Nat := match w[i]? with
  | some c => c.omLog.length
  | none => 0

def record (nk : Nat) (res : String) (calls : List Nat) (w : List C) : String :=
  "|".intercalate (s!"{res}@{showNats calls}" :: w.map (dump nk))

def handle (line : String) : String :=
  match words line with
  | lru :: mx :: om :: nk :: init :: toks =>
    let onMiss? : Option (Option (Nat → OmRes Nat)) :=
      if om = "-" then some none else
      match splitOnChar om '/' with
      | [ab] =>
        match natList? ab with
        | some [a, b] => some (some fun k => .ret (a * k + b))
        | _ => none
      | [ab, ke, ve] =>
        match natList? ab, natList? ke '.', natList? ve '.' with
        | some [a, b], some ke, some ve =>
          some (some fun k => if ke.contains k then .keyError else if ve.contains k then .error
                              else .ret (a * k + b))
        | _, _, _ => none
      | _ => none
    match lru.toNat?, mx.toNat?, onMiss?, nk.toNat?, parsePairs? init with
    | some lru, some mx, some onMiss, some nk, some init =>
      if mx = 0 ∨ 1 < lru then "bad-op" else
      let c0 : C := (Cache.initP (lru = 1) mx onMiss).setAll init
      let rec go (w : List C) (toks : List String) (acc : List String) : Option (List String) :=
        match toks with
        | [] => some acc.reverse
        | t :: ts =>
          match parseOp? w t with
          | none => none
          | some op =>
            let i := target op
            let before := logLen w i
            let (w', o) := wstep w op
            let calls := match w'[i]? with
              | some c => c.omLog.drop before
              | none => []
            go w' ts (record nk (showOut o) calls w' :: acc)
      match go [c0] toks [record nk "-" [] [c0]] with
      | some outs => ";".intercalate outs
      | none => "bad-op"
    | _, _, _, _, _ => "bad-op"
  | _ => "bad-op"

end C02.Driver
