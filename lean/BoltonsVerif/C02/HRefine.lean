import BoltonsVerif.C02.LLProofs
/-
C02 — the cache built on the pointer-level linked list (`HCache`, `LL.lean`) behaves exactly like
the cache built on the ring (`Cache`, `Model.lean`): simulation `HSim`, preserved by every public
method and by the world operations, with equal results.
-/
set_option linter.unusedSectionVars false
namespace C02
variable {K V : Type} [DecidableEq K]

structure HSim (h : HCache K V) (c : Cache K V) : Prop where
  lru : h.lru = c.lru
  max : h.max = c.max
  om : h.onMiss = c.onMiss
  d : h.d = c.d
  hit : h.hit = c.hit
  miss : h.miss = c.miss
  soft : h.soft = c.soft
  log : h.omLog = c.omLog
  inv : Inv c
  rep : ∃ cells, Rep h.ll cells ∧ ringOf cells = c.ring

theorem HSim.initP (lru : Bool) (max : Nat) (om : Option (K → OmRes V)) (hmax : 1 ≤ max) :
    HSim (HCache.initP lru max om) (Cache.initP lru max om) :=
  ⟨rfl, rfl, rfl, rfl, rfl, rfl, rfl, rfl, Inv.initP lru max om hmax, [], Rep.new, rfl⟩

/-- the first cell of a representation whose ring starts with `e` -/
theorem ringOf_cons_inv {cells : Cells K V} {e : K × V} {rest : List (K × V)} (h : ringOf cells = e :: rest) :
    ∃ ae cs, cells = (e.1, (ae, e.2)) :: cs ∧ ringOf cs = rest := by
  cases cells with
  | nil => simp [ringOf] at h
  | cons c cs =>
    simp only [ringOf, mapVal_cons, List.cons.injEq] at h
    obtain ⟨h1, h2⟩ := h
    refine ⟨c.2.1, cs, ?_, h2⟩
    rw [← h1]

theorem HSim.setitem {h : HCache K V} {c : Cache K V} (hs : HSim h c) (k : K) (v : V) :
    HSim (h.setitem k v) (c.setitem k v) := by
  obtain ⟨cells, hrep, hring⟩ := hs.rep
  have hinv := Cache.setitem_inv hs.inv k v
  have hlr : lookup k c.ring = (lookup k cells).map (·.2) := by rw [← hring, lookup_ringOf]
  cases hk : lookup k cells with
  | some nv =>
    obtain ⟨n, v0⟩ := nv
    obtain ⟨xs, ys, hsplit, _, herase⟩ := lookup_split hk
    subst hsplit
    obtain ⟨l', hm, hr', _, hval, _, _, _⟩ := hrep.moveToFront
    have hr2 := hr'.setVal v
    rw [hk] at hlr
    simp only [Option.map_some] at hlr
    have hc : c.setitem k v = { c with ring := toFront k v c.ring, d := dset k v c.d } := by
      unfold Cache.setitem; rw [hlr]
    rw [hc]
    unfold HCache.setitem
    rw [hm]
    refine ⟨hs.lru, hs.max, hs.om, by simp [hs.d], hs.hit, hs.miss, hs.soft, hs.log, hc ▸ hinv, _, hr2, ?_⟩
    show _ = toFront k v c.ring
    unfold toFront
    rw [← hring, ringOf_snoc]
    simp only [ringOf, eraseKey_mapVal, herase]
  | none =>
    rw [hk] at hlr
    simp only [Option.map_none] at hlr
    have hm := hrep.moveToFront_none hk
    unfold HCache.setitem Cache.setitem
    rw [hm, hlr]
    simp only [hs.d, hs.max]
    split
    · rename_i hlt
      have hc : c.setitem k v = { c with ring := c.ring ++ [(k, v)], d := dset k v c.d } := by
        unfold Cache.setitem; rw [hlr]; simp [hlt]
      refine ⟨hs.lru, rfl, hs.om, rfl, hs.hit, hs.miss, hs.soft, hs.log, hc ▸ hinv, _, hrep.addFront v hk, ?_⟩
      rw [ringOf_snoc, hring]
    · rename_i hfull
      cases hr : c.ring with
      | nil => exact absurd hr (evict_ring_nonempty hs.inv hfull)
      | cons e rest =>
        obtain ⟨ae, cs, hcells, hrest⟩ := ringOf_cons_inv (hring.trans hr)
        subst hcells
        obtain ⟨l', he, hr'⟩ := hrep.evictLast v hk
        have hc : c.setitem k v = { c with ring := rest ++ [(k, v)], d := dset k v (eraseKey e.1 c.d) } := by
          unfold Cache.setitem; rw [hlr]; simp [hfull, hr]
        simp only [he]
        refine ⟨hs.lru, rfl, hs.om, rfl, hs.hit, hs.miss, hs.soft, hs.log, ?_, _, hr', ?_⟩
        · exact hc ▸ hinv
        · show ringOf (cs ++ [(k, (h.ll.anchor, v))]) = rest ++ [(k, v)]
          rw [ringOf_snoc, hrest]

inductive OutH : Out K V (HCache K V) → Out K V (Cache K V) → Prop where
  | none : OutH .none .none
  | val (v : V) : OutH (.val v) (.val v)
  | keyError : OutH .keyError .keyError
  | raised : OutH .raised .raised
  | item (k : K) (v : V) : OutH (.item k v) (.item k v)
  | bool (b : Bool) : OutH (.bool b) (.bool b)
  | nat (n : Nat) : OutH (.nat n) (.nat n)
  | items (l : List (K × V)) : OutH (.items l) (.items l)
  | cache {h : HCache K V} {c : Cache K V} (hs : HSim h c) : OutH (.cache h) (.cache c)

theorem OutH.shape_eq {a : Out K V (HCache K V)} {b : Out K V (Cache K V)} (h : OutH a b) : a.shape = b.shape := by
  cases h <;> rfl

/-- bookkeeping of a miss -/
theorem HSim.missed {h : HCache K V} {c : Cache K V} (hs : HSim h c) (lg : List K) :
    HSim ({ h with miss := h.miss + 1, omLog := h.omLog ++ lg } : HCache K V)
         ({ c with miss := c.miss + 1, omLog := c.omLog ++ lg } : Cache K V) :=
  ⟨hs.lru, hs.max, hs.om, hs.d, hs.hit, congrArg (· + 1) hs.miss, hs.soft, congrArg (· ++ lg) hs.log,
    ⟨hs.inv.sync, hs.inv.cap, hs.inv.pos, Nat.le_succ_of_le hs.inv.soft_le⟩, hs.rep⟩

theorem HSim.getitem {h : HCache K V} {c : Cache K V} (hs : HSim h c) (k : K) :
    HSim (h.getitem k).1 (c.getitem k).1 ∧ OutH (h.getitem k).2 (c.getitem k).2 := by
  obtain ⟨cells, hrep, hring⟩ := hs.rep
  have hinv := Cache.getitem_inv hs.inv k
  have hlr : lookup k c.ring = (lookup k cells).map (·.2) := by rw [← hring, lookup_ringOf]
  cases hk : lookup k cells with
  | some nv =>
    obtain ⟨n, v0⟩ := nv
    rw [hk] at hlr
    simp only [Option.map_some] at hlr
    have hval : rd h.ll.val n = some v0 := by
      obtain ⟨xs, ys, hsplit, _, _⟩ := lookup_split hk
      exact (hrep.kv (k, (n, v0)) (by rw [hsplit]; simp)).2
    have hc := Cache.getitem_hit hlr
    rw [hc] at hinv ⊢
    cases hl : c.lru with
    | true =>
      rw [hl] at hinv
      obtain ⟨xs, ys, hsplit, _, herase⟩ := lookup_split hk
      subst hsplit
      obtain ⟨l', hm, hr', _, hv', _, _, _⟩ := hrep.moveToFront
      have hg : h.getitem k = ({ h with hit := h.hit + 1, ll := l' }, .val v0) := by
        unfold HCache.getitem
        simp only [hs.lru, hl, if_true, hm, hv', hval]
      rw [hg]
      refine ⟨⟨hs.lru.trans hl, hs.max, hs.om, hs.d, congrArg (· + 1) hs.hit, hs.miss, hs.soft, hs.log, hinv, _, hr', ?_⟩,
        OutH.val v0⟩
      show _ = (if true = true then toFront k v0 c.ring else c.ring)
      rw [if_pos rfl]
      unfold toFront
      rw [← hring, ringOf_snoc]
      simp only [ringOf, eraseKey_mapVal, herase]
    | false =>
      rw [hl] at hinv
      have ht : lookup k h.ll.table = some n := by rw [hrep.tbl, hk]; rfl
      have hg : h.getitem k = ({ h with hit := h.hit + 1 }, .val v0) := by
        unfold HCache.getitem
        simp only [hs.lru, hl, Bool.false_eq_true, if_false, ht, Option.map_some, hval]
      rw [hg]
      refine ⟨⟨hs.lru.trans hl, hs.max, hs.om, hs.d, congrArg (· + 1) hs.hit, hs.miss, hs.soft, hs.log, hinv, cells, hrep, ?_⟩,
        OutH.val v0⟩
      show _ = (if false = true then toFront k v0 c.ring else c.ring)
      simpa using hring
  | none =>
    rw [hk] at hlr
    simp only [Option.map_none] at hlr
    have hfound : (if h.lru then h.ll.moveToFront k else (lookup k h.ll.table).map fun n => (h.ll, n)) = none := by
      split
      · exact hrep.moveToFront_none hk
      · rw [hrep.table_none hk]; rfl
    cases hom : c.onMiss with
    | none =>
      have hg : h.getitem k = ({ h with miss := h.miss + 1 }, .keyError) := by
        unfold HCache.getitem; simp only [hfound, hs.om, hom]
      rw [hg, Cache.getitem_miss hlr hom]
      have := hs.missed []
      simp only [List.append_nil] at this
      exact ⟨this, OutH.keyError⟩
    | some f =>
      cases hf : f k with
      | ret v =>
        have hg : h.getitem k = (({ h with miss := h.miss + 1, omLog := h.omLog ++ [k] } : HCache K V).setitem k v, .val v) := by
          unfold HCache.getitem; simp only [hfound, hs.om, hom, hf]
        rw [hg, Cache.getitem_onMiss hlr hom hf]
        exact ⟨(hs.missed [k]).setitem k v, OutH.val v⟩
      | keyError =>
        have hg : h.getitem k = ({ h with miss := h.miss + 1, omLog := h.omLog ++ [k] }, .keyError) := by
          unfold HCache.getitem; simp only [hfound, hs.om, hom, hf]
        rw [hg, Cache.getitem_onMiss_keyError hlr hom hf]
        exact ⟨hs.missed [k], OutH.keyError⟩
      | error =>
        have hg : h.getitem k = ({ h with miss := h.miss + 1, omLog := h.omLog ++ [k] }, .raised) := by
          unfold HCache.getitem; simp only [hfound, hs.om, hom, hf]
        rw [hg, Cache.getitem_onMiss_error hlr hom hf]
        exact ⟨hs.missed [k], OutH.raised⟩

/-- `_remove_from_ll(key)` after the dict part of a removal -/
theorem HSim.unlink {h : HCache K V} {c : Cache K V} (hs : HSim h c) (k : K) {v : V}
    (hk : lookup k c.ring = some v) (d' : List (K × V))
    (hinv' : Inv ({ c with d := d', ring := eraseKey k c.ring } : Cache K V)) :
    HSim (({ h with d := d' } : HCache K V).unlink k) ({ c with d := d', ring := eraseKey k c.ring } : Cache K V) := by
  obtain ⟨cells, hrep, hring⟩ := hs.rep
  have hlr : lookup k c.ring = (lookup k cells).map (·.2) := by rw [← hring, lookup_ringOf]
  rw [hk] at hlr
  cases hkc : lookup k cells with
  | none => rw [hkc] at hlr; simp at hlr
  | some nv =>
    obtain ⟨n, v0⟩ := nv
    obtain ⟨xs, ys, hsplit, _, herase⟩ := lookup_split hkc
    subst hsplit
    obtain ⟨l', hrm, hr'⟩ := hrep.remove
    have : ({ h with d := d' } : HCache K V).unlink k = { h with d := d', ll := l' } := by
      unfold HCache.unlink; simp only [hrm]
    rw [this]
    refine ⟨hs.lru, hs.max, hs.om, rfl, hs.hit, hs.miss, hs.soft, hs.log, hinv', _, hr', ?_⟩
    show _ = eraseKey k c.ring
    rw [← hring]
    simp only [ringOf, eraseKey_mapVal, herase]

theorem HSim.remove {h : HCache K V} {c : Cache K V} (hs : HSim h c) (k : K) {v : V}
    (hk : lookup k c.d = some v) : HSim (h.remove k) (c.remove k) := by
  have hr : lookup k c.ring = some v := by rw [← hs.inv.sync.agree, hk]
  have := hs.unlink k hr (eraseKey k c.d) (Cache.remove_inv hs.inv k)
  unfold HCache.remove
  rw [hs.d]
  exact this

theorem HSim.setAll {h : HCache K V} {c : Cache K V} (hs : HSim h c) (l : List (K × V)) :
    HSim (h.setAll l) (c.setAll l) := by
  unfold HCache.setAll Cache.setAll
  induction l generalizing h c with
  | nil => exact hs
  | cons p l ih => exact ih (hs.setitem p.1 p.2)

theorem HSim.update {h : HCache K V} {c : Cache K V} (hs : HSim h c) (e : Arg K V) (kw : List (K × V)) :
    HSim (h.update e kw) (c.update e kw) := by
  unfold HCache.update Cache.update
  cases e with
  | self => exact hs
  | pairs l => exact (hs.setAll l).setAll kw

theorem dset_absent {k : K} {v : V} {l : List (K × V)} (h : lookup k l = none) : dset k v l = l ++ [(k, v)] := by
  induction l with
  | nil => rfl
  | cons p l ih =>
    simp only [lookup] at h
    split at h
    · simp at h
    · rename_i hne; simp only [dset, if_neg hne, ih h, List.cons_append]

/-- storing the items of a dict one by one into an empty dict gives the same dict (same order) -/
theorem rebuild_dict (acc l : List (K × V)) (hn : (keys (acc ++ l)).Nodup) :
    l.foldl (fun d p => dset p.1 p.2 d) acc = acc ++ l := by
  induction l generalizing acc with
  | nil => simp
  | cons p l ih =>
    have hp : lookup p.1 acc = none := by
      rw [lookup_none_iff]
      simp only [keys_append, keys_cons] at hn
      intro hm
      exact (List.nodup_append.1 hn).2.2 p.1 hm p.1 (by simp) rfl
    simp only [List.foldl_cons]
    have : (p.1, p.2) = p := rfl
    rw [dset_absent hp, this, ih _ (by simpa using hn)]
    simp

theorem HSim.copied {h : HCache K V} {c : Cache K V} (hs : HSim h c) : HSim h.copied c.copied := by
  obtain ⟨cells, hrep, hring⟩ := hs.rep
  have hnr : (keys c.ring).Nodup := hs.inv.sync.nr
  obtain ⟨c1, g1, g2⟩ := (Rep.new : Rep (LL.new : LL K V) []).addAll c.ring (by simpa [ringOf] using hnr)
  refine ⟨hs.lru, hs.max, hs.om, ?_, rfl, rfl, rfl, rfl,
    ⟨hs.inv.sync, hs.inv.cap, hs.inv.pos, Nat.le_refl _⟩, c1, ?_, ?_⟩
  · show h.d.foldl (fun d p => dset p.1 p.2 d) [] = c.d
    rw [hs.d, rebuild_dict [] c.d (by simpa using hs.inv.sync.nd)]; simp
  · show Rep ((LL.new : LL K V).addAll h.ll.flatten) c1
    rw [hrep.flatten, hring]; exact g1
  · rw [g2]; simp [ringOf]; rfl

theorem HSim.softBump {h : HCache K V} {c : Cache K V} (hs : HSim h c) (hle : c.soft + 1 ≤ c.miss) :
    HSim ({ h with soft := h.soft + 1 } : HCache K V) ({ c with soft := c.soft + 1 } : Cache K V) :=
  ⟨hs.lru, hs.max, hs.om, hs.d, hs.hit, hs.miss, congrArg (· + 1) hs.soft, hs.log,
    ⟨hs.inv.sync, hs.inv.cap, hs.inv.pos, hle⟩, hs.rep⟩

variable [DecidableEq V]

theorem HSim.eqArg {h : HCache K V} {c : Cache K V} (hs : HSim h c) (o : Arg K V) : h.eqArg o = c.eqArg o := by
  cases o <;> simp [HCache.eqArg, Cache.eqArg, hs.d]

theorem HSim.step {h : HCache K V} {c : Cache K V} (hs : HSim h c) (op : Op K V) :
    HSim (hstep h op).1 (step c op).1 ∧ OutH (hstep h op).2 (step c op).2 := by
  cases op with
  | setitem k v => exact ⟨hs.setitem k v, OutH.none⟩
  | getitem k => exact hs.getitem k
  | delitem k =>
    simp only [hstep, C02.step, hs.d]
    cases hk : lookup k c.d with
    | none => exact ⟨hs, OutH.keyError⟩
    | some v => exact ⟨hs.remove k hk, OutH.none⟩
  | get k dflt =>
    have hg := hs.getitem k
    have hinv := Cache.getitem_inv hs.inv k
    simp only [hstep, C02.step]
    cases hh : h.getitem k with
    | mk h' oh =>
      cases hc : c.getitem k with
      | mk c' oc =>
        rw [hh, hc] at hg
        rw [hc] at hinv
        obtain ⟨g1, g2⟩ := hg
        cases g2 with
        | keyError =>
          have hke := Cache.getitem_keyError hc
          refine ⟨g1.softBump ?_, OutH.val _⟩
          have := hs.inv.soft_le
          rw [hke.2.2.2.1, hke.2.2.2.2.1]; omega
        | none => exact ⟨g1, OutH.none⟩
        | val v => exact ⟨g1, OutH.val v⟩
        | raised => exact ⟨g1, OutH.raised⟩
        | item k v => exact ⟨g1, OutH.item k v⟩
        | bool b => exact ⟨g1, OutH.bool b⟩
        | nat n => exact ⟨g1, OutH.nat n⟩
        | items l => exact ⟨g1, OutH.items l⟩
        | cache hn => exact ⟨g1, OutH.cache hn⟩
  | setdefault k dflt =>
    have hg := hs.getitem k
    simp only [hstep, C02.step]
    cases hh : h.getitem k with
    | mk h' oh =>
      cases hc : c.getitem k with
      | mk c' oc =>
        rw [hh, hc] at hg
        obtain ⟨g1, g2⟩ := hg
        cases g2 with
        | keyError =>
          have hke := Cache.getitem_keyError hc
          refine ⟨(g1.softBump ?_).setitem k dflt, OutH.val _⟩
          have := hs.inv.soft_le
          rw [hke.2.2.2.1, hke.2.2.2.2.1]; omega
        | none => exact ⟨g1, OutH.none⟩
        | val v => exact ⟨g1, OutH.val v⟩
        | raised => exact ⟨g1, OutH.raised⟩
        | item k v => exact ⟨g1, OutH.item k v⟩
        | bool b => exact ⟨g1, OutH.bool b⟩
        | nat n => exact ⟨g1, OutH.nat n⟩
        | items l => exact ⟨g1, OutH.items l⟩
        | cache hn => exact ⟨g1, OutH.cache hn⟩
  | update e kw => exact ⟨hs.update e kw, OutH.none⟩
  | ior e => exact ⟨hs.update e [], OutH.none⟩
  | pop k dflt =>
    simp only [hstep, C02.step, hs.d]
    cases hk : lookup k c.d with
    | some v => exact ⟨hs.remove k hk, OutH.val v⟩
    | none =>
      cases dflt with
      | some v => exact ⟨hs, OutH.val v⟩
      | none => exact ⟨hs, OutH.keyError⟩
  | popitem =>
    simp only [hstep, C02.step, hs.d]
    cases hp : c.d.getLast? with
    | none => exact ⟨hs, OutH.keyError⟩
    | some p =>
      have hpm : lookup p.1 c.d = some p.2 := lookup_of_mem hs.inv.sync.nd (List.mem_of_getLast? hp)
      have hr : lookup p.1 c.ring = some p.2 := by rw [← hs.inv.sync.agree, hpm]
      have hinv := step_inv hs.inv (Op.popitem (K := K) (V := V))
      simp only [C02.step, hp] at hinv
      exact ⟨hs.unlink p.1 hr c.d.dropLast hinv, OutH.item _ _⟩
  | clear =>
    exact ⟨⟨hs.lru, hs.max, hs.om, rfl, hs.hit, hs.miss, hs.soft, hs.log,
      ⟨Sync.nil, Nat.zero_le _, hs.inv.pos, hs.inv.soft_le⟩, [], Rep.reinit _, rfl⟩, OutH.none⟩
  | copy => exact ⟨hs, OutH.cache hs.copied⟩
  | contains k => simp only [hstep, C02.step, hs.d]; exact ⟨hs, OutH.bool _⟩
  | len => simp only [hstep, C02.step, hs.d]; exact ⟨hs, OutH.nat _⟩
  | items => simp only [hstep, C02.step, hs.d]; exact ⟨hs, OutH.items _⟩
  | eq o => simp only [hstep, C02.step, hs.eqArg]; exact ⟨hs, OutH.bool _⟩
  | ne o => simp only [hstep, C02.step, hs.eqArg]; exact ⟨hs, OutH.bool _⟩
  | updateFail l => exact ⟨hs.setAll l, OutH.raised⟩
  | eqOther => exact ⟨hs, OutH.bool _⟩
  | neOther => exact ⟨hs, OutH.bool _⟩

omit [DecidableEq V] in
theorem HSim.updFrom {a b : HCache K V} {c o : Cache K V} (ha : HSim a c) (hb : HSim b o) (ks : List K) :
    HSim (hUpdFrom a b ks).1 (updFrom c o ks).1 ∧ HSim (hUpdFrom a b ks).2.1 (updFrom c o ks).2.1 ∧
    (hUpdFrom a b ks).2.2 = (updFrom c o ks).2.2 := by
  induction ks generalizing a b c o with
  | nil => exact ⟨ha, hb, rfl⟩
  | cons k ks ih =>
    have hg := hb.getitem k
    cases hh : b.getitem k with
    | mk b' oh =>
      cases hc : o.getitem k with
      | mk o' oc =>
        rw [hh, hc] at hg
        obtain ⟨g1, g2⟩ := hg
        simp only [hUpdFrom, C02.updFrom, hh, hc]
        cases g2 with
        | val v => exact ih (ha.setitem k v) g1
        | none => exact ⟨ha, g1, rfl⟩
        | keyError => exact ⟨ha, g1, rfl⟩
        | raised => exact ⟨ha, g1, rfl⟩
        | item k v => exact ⟨ha, g1, rfl⟩
        | bool b => exact ⟨ha, g1, rfl⟩
        | nat n => exact ⟨ha, g1, rfl⟩
        | items l => exact ⟨ha, g1, rfl⟩
        | cache hn => exact ⟨ha, g1, rfl⟩

/-- simulation between worlds of caches -/
def HWSim (w : List (HCache K V)) (ws : List (Cache K V)) : Prop :=
  w.length = ws.length ∧ ∀ (i : Nat) h c, w[i]? = some h → ws[i]? = some c → HSim h c

omit [DecidableEq V] in
theorem HWSim.single {h : HCache K V} {c : Cache K V} (hs : HSim h c) : HWSim [h] [c] := by
  refine ⟨rfl, fun i h' c' hh hc => ?_⟩
  cases i with
  | zero => simp at hh hc; subst hh hc; exact hs
  | succ n => simp at hh

omit [DecidableEq V] in
theorem HWSim.get {w : List (HCache K V)} {ws : List (Cache K V)} (h : HWSim w ws) (i : Nat) :
    (w[i]? = none ∧ ws[i]? = none) ∨ ∃ a c, w[i]? = some a ∧ ws[i]? = some c ∧ HSim a c := by
  by_cases hi : i < w.length
  · have hi' : i < ws.length := h.1 ▸ hi
    exact Or.inr ⟨w[i], ws[i], List.getElem?_eq_getElem hi, List.getElem?_eq_getElem hi',
      h.2 i _ _ (List.getElem?_eq_getElem hi) (List.getElem?_eq_getElem hi')⟩
  · have hi' : ¬ i < ws.length := h.1 ▸ hi
    exact Or.inl ⟨List.getElem?_eq_none (Nat.le_of_not_lt hi), List.getElem?_eq_none (Nat.le_of_not_lt hi')⟩

omit [DecidableEq V] in
theorem HWSim.set {w : List (HCache K V)} {ws : List (Cache K V)} (h : HWSim w ws) (i : Nat)
    {a : HCache K V} {c : Cache K V} (hs : HSim a c) : HWSim (w.set i a) (ws.set i c) := by
  refine ⟨by simp [h.1], fun j a' c' ha hc => ?_⟩
  rw [List.getElem?_set] at ha hc
  by_cases e : i = j
  · simp only [e, if_true] at ha hc
    split at ha
    · split at hc
      · simp at ha hc; subst ha hc; exact hs
      · simp at hc
    · simp at ha
  · simp only [e, if_false] at ha hc
    exact h.2 j _ _ ha hc

omit [DecidableEq V] in
theorem HWSim.snoc {w : List (HCache K V)} {ws : List (Cache K V)} (h : HWSim w ws)
    {a : HCache K V} {c : Cache K V} (hs : HSim a c) : HWSim (w ++ [a]) (ws ++ [c]) := by
  refine ⟨by simp [h.1], fun j a' c' ha hc => ?_⟩
  by_cases hj : j < w.length
  · rw [List.getElem?_append_left hj] at ha
    rw [List.getElem?_append_left (h.1 ▸ hj)] at hc
    exact h.2 j _ _ ha hc
  · have hj' := Nat.le_of_not_lt hj
    rw [List.getElem?_append_right hj'] at ha
    rw [List.getElem?_append_right (h.1 ▸ hj')] at hc
    rw [← h.1] at hc
    cases hn : j - w.length with
    | zero => simp [hn] at ha hc; subst ha hc; exact hs
    | succ n => simp [hn] at ha

omit [DecidableEq V] in
theorem HWSim.argOf {w : List (HCache K V)} {ws : List (Cache K V)} (h : HWSim w ws) (i j : Nat) :
    hArgOf w i j = C02.argOf ws i j := by
  unfold hArgOf C02.argOf
  split
  · rfl
  · rcases h.get j with ⟨h1, h2⟩ | ⟨a, c, h1, h2, hs⟩
    · rw [h1, h2]
    · rw [h1, h2]; simp [hs.d]

theorem HWSim.step {w : List (HCache K V)} {ws : List (Cache K V)} (h : HWSim w ws) (op : WOp K V) :
    HWSim (hwstep w op).1 (wstep ws op).1 ∧ OutH (hwstep w op).2 (wstep ws op).2 := by
  cases op with
  | on i op =>
    rcases h.get i with ⟨h1, h2⟩ | ⟨a, c, h1, h2, hs⟩
    · simp only [hwstep, wstep, h1, h2]; exact ⟨h, OutH.none⟩
    · have hst := hs.step op
      cases hc : hstep a op with
      | mk a' o =>
        cases hr : C02.step c op with
        | mk c' o' =>
          rw [hc, hr] at hst
          simp only [hwstep, wstep, h1, h2, hc, hr]
          have hset := h.set i hst.1
          cases hst.2 with
          | cache hn => exact ⟨hset.snoc hn, OutH.cache hn⟩
          | none => exact ⟨hset, OutH.none⟩
          | val v => exact ⟨hset, OutH.val v⟩
          | keyError => exact ⟨hset, OutH.keyError⟩
          | raised => exact ⟨hset, OutH.raised⟩
          | item k v => exact ⟨hset, OutH.item k v⟩
          | bool b => exact ⟨hset, OutH.bool b⟩
          | nat n => exact ⟨hset, OutH.nat n⟩
          | items l => exact ⟨hset, OutH.items l⟩
  | eqc i j =>
    rcases h.get i with ⟨h1, h2⟩ | ⟨a, c, h1, h2, hs⟩
    · simp only [hwstep, wstep, h1, h2]; exact ⟨h, OutH.none⟩
    · simp only [hwstep, wstep, h1, h2, h.argOf i j]
      exact ⟨h, (hs.step _).2⟩
  | nec i j =>
    rcases h.get i with ⟨h1, h2⟩ | ⟨a, c, h1, h2, hs⟩
    · simp only [hwstep, wstep, h1, h2]; exact ⟨h, OutH.none⟩
    · simp only [hwstep, wstep, h1, h2, h.argOf i j]
      exact ⟨h, (hs.step _).2⟩
  | updc i j kw =>
    rcases h.get i with ⟨h1, h2⟩ | ⟨a, c, h1, h2, hs⟩
    · simp only [hwstep, wstep, h1, h2]; exact ⟨h, OutH.none⟩
    · rcases h.get j with ⟨g1, g2⟩ | ⟨b, o, g1, g2, ht⟩
      · simp only [hwstep, wstep, h1, h2, g1, g2]; exact ⟨h, OutH.none⟩
      · simp only [hwstep, wstep, h1, h2, g1, g2]
        by_cases e : i = j
        · simp only [e, if_true]; exact ⟨h, OutH.none⟩
        · simp only [e, if_false]
          have hu := hs.updFrom ht (keys b.d)
          rw [ht.d] at hu
          rw [ht.d]
          cases hm : hUpdFrom a b (keys o.d) with
          | mk a' r =>
            cases r with
            | mk b' fl =>
              cases hr : C02.updFrom c o (keys o.d) with
              | mk c' r' =>
                cases r' with
                | mk o' fl' =>
                  rw [hm, hr] at hu
                  obtain ⟨u1, u2, u3⟩ := hu
                  simp only [] at u1 u2 u3
                  subst u3
                  cases fl with
                  | true => exact ⟨(h.set i (u1.setAll kw)).set j u2, OutH.none⟩
                  | false => exact ⟨(h.set i u1).set j u2, OutH.keyError⟩

theorem HWSim.run {w : List (HCache K V)} {ws : List (Cache K V)} (h : HWSim w ws) (ops : List (WOp K V)) :
    HWSim (hwrun w ops) (wrun ws ops) ∧ (hwouts w ops).map Out.shape = (wouts ws ops).map Out.shape := by
  unfold hwrun wrun
  induction ops generalizing w ws with
  | nil => exact ⟨h, rfl⟩
  | cons op ops ih =>
    have hs := h.step op
    have := ih hs.1
    exact ⟨this.1, by simp only [hwouts, wouts, List.map_cons, hs.2.shape_eq, this.2]⟩

end C02
