import BoltonsVerif.C02.Proofs
import BoltonsVerif.C02.Spec
/-
C02 — the model cache (dict + ring) simulates the timestamp reference cache `Ref`:
same contents in the same dict order, same results, same counters, and the ring is the
contents sorted by stamp, so the head of the ring is the reference's `oldest` key.
-/
namespace C02
variable {K V : Type} [DecidableEq K]

/-! projections of `setitem` -/
section proj
variable (c : Cache K V) (k : K) (v : V)
@[simp] theorem setitem_lru : (c.setitem k v).lru = c.lru := by
  unfold Cache.setitem; split <;> (try split) <;> (try split) <;> rfl
@[simp] theorem setitem_max : (c.setitem k v).max = c.max := by
  unfold Cache.setitem; split <;> (try split) <;> (try split) <;> rfl
@[simp] theorem setitem_onMiss : (c.setitem k v).onMiss = c.onMiss := by
  unfold Cache.setitem; split <;> (try split) <;> (try split) <;> rfl
@[simp] theorem setitem_hit : (c.setitem k v).hit = c.hit := by
  unfold Cache.setitem; split <;> (try split) <;> (try split) <;> rfl
@[simp] theorem setitem_miss : (c.setitem k v).miss = c.miss := by
  unfold Cache.setitem; split <;> (try split) <;> (try split) <;> rfl
@[simp] theorem setitem_soft : (c.setitem k v).soft = c.soft := by
  unfold Cache.setitem; split <;> (try split) <;> (try split) <;> rfl
@[simp] theorem setitem_omLog : (c.setitem k v).omLog = c.omLog := by
  unfold Cache.setitem; split <;> (try split) <;> (try split) <;> rfl
end proj

theorem oldest_mem (stamp : K → Nat) (l : List K) (m : K) (h : oldest stamp l = some m) : m ∈ l := by
  induction l generalizing m with
  | nil => simp [oldest] at h
  | cons x xs ih =>
    simp only [oldest] at h
    split at h
    · simp at h; simp [h]
    · rename_i m' hm'
      split at h
      · simp at h; simp [h]
      · simp at h; subst h; exact List.mem_cons_of_mem _ (ih _ hm')

theorem oldest_eq (stamp : K → Nat) (l : List K) (k : K) (hk : k ∈ l)
    (hmin : ∀ k' ∈ l, k' ≠ k → stamp k < stamp k') : oldest stamp l = some k := by
  induction l with
  | nil => simp at hk
  | cons x xs ih =>
    simp only [oldest]
    by_cases hx : x = k
    · subst hx
      split
      · rfl
      · rename_i m hm
        by_cases e : m = x
        · subst e; simp
        · have := hmin m (List.mem_cons_of_mem _ (oldest_mem _ _ _ hm)) e
          simp [Nat.le_of_lt this]
    · have hk' : k ∈ xs := by simpa [Ne.symm hx] using hk
      have := ih hk' (fun k' h' => hmin k' (List.mem_cons_of_mem _ h'))
      rw [this]
      have hlt := hmin x (by simp) hx
      simp only []
      have : ¬ stamp x ≤ stamp k := by omega
      simp [this]

theorem eraseKey_sublist (k : K) (l : List (K × V)) : (eraseKey k l).Sublist l := by
  induction l with
  | nil => simp [eraseKey]
  | cons p l ih => simp only [eraseKey]; split; simp; exact ih.cons_cons _

theorem mem_keys_of_mem {p : K × V} {l : List (K × V)} (h : p ∈ l) : p.1 ∈ keys l :=
  List.mem_map_of_mem h

/-- ring order = stamp order -/
def Sorted (stamp : K → Nat) (l : List (K × V)) : Prop := l.Pairwise (fun a b => stamp a.1 < stamp b.1)

theorem sorted_snoc {stamp : K → Nat} {now : Nat} {l : List (K × V)} (hs : Sorted stamp l)
    (hb : ∀ k' ∈ keys l, stamp k' < now) {k : K} (hk : k ∉ keys l) (v : V) :
    Sorted (setStamp stamp k now) (l ++ [(k, v)]) ∧
    ∀ k' ∈ keys (l ++ [(k, v)]), setStamp stamp k now k' < now + 1 := by
  have hne : ∀ a ∈ l, a.1 ≠ k := fun a ha e => hk (e ▸ mem_keys_of_mem ha)
  constructor
  · unfold Sorted
    rw [List.pairwise_append]
    refine ⟨?_, by simp, ?_⟩
    · refine hs.imp_of_mem ?_
      intro a b ha hb' hab
      simp only [setStamp, hne a ha, hne b hb', if_false]; exact hab
    · intro a ha b hb'
      simp at hb'; subst hb'
      simp only [setStamp, hne a ha, if_false, if_true]
      exact hb _ (mem_keys_of_mem ha)
  · intro k' hk'
    simp only [keys_append, keys_cons, keys_nil, List.mem_append, List.mem_singleton] at hk'
    unfold setStamp
    split
    · omega
    · rcases hk' with h | h
      · exact Nat.lt_succ_of_lt (hb _ h)
      · contradiction


/-- the simulation relation between the model cache and the reference cache -/
structure Sim (c : Cache K V) (s : Ref K V) : Prop where
  lru : c.lru = s.lru
  max : c.max = s.max
  om : c.onMiss = s.onMiss
  d : c.d = s.ents
  hit : c.hit = s.hit
  miss : c.miss = s.miss
  soft : c.soft = s.soft
  log : c.omLog = s.omLog
  inv : Inv c
  sorted : Sorted s.stamp c.ring
  bound : ∀ k ∈ keys c.ring, s.stamp k < s.now

theorem Sim.initP (lru : Bool) (max : Nat) (om : Option (K → OmRes V)) (h : 1 ≤ max) :
    Sim (Cache.initP lru max om) (Ref.initP lru max om) :=
  ⟨rfl, rfl, rfl, rfl, rfl, rfl, rfl, rfl, Inv.initP lru max om h, List.Pairwise.nil, by simp [Cache.initP]⟩

theorem Sim.init (lru : Bool) (max : Nat) (om : Option (K → V)) (h : 1 ≤ max) :
    Sim (Cache.init lru max om) (Ref.init lru max om) := Sim.initP lru max _ h

theorem not_mem_keys_eraseKey (k : K) (l : List (K × V)) (hn : (keys l).Nodup) : k ∉ keys (eraseKey k l) :=
  (lookup_none_iff _ _).1 (lookup_eraseKey_self k l hn)

theorem mem_keys_eraseKey {k k' : K} {l : List (K × V)} (h : k' ∈ keys (eraseKey k l)) : k' ∈ keys l :=
  (keys_eraseKey_sublist k l).subset h

/-- the oldest key of the reference is the head of the ring -/
theorem Sim.oldest_head {c : Cache K V} {s : Ref K V} (h : Sim c s) {e : K × V} {rest : List (K × V)}
    (hr : c.ring = e :: rest) : oldest s.stamp (keys s.ents) = some e.1 := by
  have hs := h.sorted
  rw [hr] at hs
  unfold Sorted at hs
  rw [List.pairwise_cons] at hs
  have hmem : ∀ k', k' ∈ keys c.d ↔ k' ∈ keys c.ring := by
    intro k'
    rw [← lookup_isSome_iff, ← lookup_isSome_iff, h.inv.sync.agree]
  apply oldest_eq
  · rw [← h.d, hmem, hr]; simp
  · intro k' hk' hne
    rw [← h.d, hmem, hr] at hk'
    simp only [keys_cons, List.mem_cons] at hk'
    rcases hk' with e' | hk'
    · exact absurd e' hne
    · obtain ⟨p, hp, rfl⟩ := List.mem_map.1 hk'
      exact hs.1 p hp

theorem Sim.setitem {c : Cache K V} {s : Ref K V} (h : Sim c s) (k : K) (v : V) :
    Sim (c.setitem k v) (s.assign k v) := by
  have hinv := Cache.setitem_inv h.inv k v
  have hn := h.inv.sync.nr
  refine ⟨by simp [Ref.assign, h.lru], by simp [Ref.assign, h.max], by simp [Ref.assign, h.om], ?_,
    by simp [Ref.assign, h.hit], by simp [Ref.assign, h.miss], by simp [Ref.assign, h.soft],
    by simp [Ref.assign, h.log], hinv, ?_, ?_⟩
  · -- contents
    show _ = dset k v (s.makeRoom k)
    unfold Cache.setitem Ref.makeRoom
    split
    · rename_i v0 hk
      have : (lookup k s.ents).isSome := by rw [← h.d, h.inv.sync.agree, hk]; rfl
      simp [this, h.d]
    · rename_i hk
      have hkd : lookup k s.ents = none := by rw [← h.d, h.inv.sync.agree, hk]
      split
      · rename_i hlt
        have : s.ents.length < s.max := by rw [← h.d, ← h.max]; exact hlt
        simp [this, h.d]
      · rename_i hfull
        have : ¬ s.ents.length < s.max := by rw [← h.d, ← h.max]; exact hfull
        simp only [hkd, this, Option.isSome_none, Bool.false_eq_true, or_self, if_false]
        split
        · rename_i hr; exact absurd hr (evict_ring_nonempty h.inv hfull)
        · rename_i e rest hr
          rw [h.oldest_head hr]
          simp [h.d]
  · -- order
    show Sorted (setStamp s.stamp k s.now) (c.setitem k v).ring
    unfold Cache.setitem
    split
    · exact (sorted_snoc (h.sorted.sublist (eraseKey_sublist k c.ring))
        (fun k' hk' => h.bound k' (mem_keys_eraseKey hk')) (not_mem_keys_eraseKey k c.ring hn) v).1
    · rename_i hk
      split
      · exact (sorted_snoc h.sorted h.bound ((lookup_none_iff _ _).1 hk) v).1
      · split
        · rename_i hr; rw [hr]; exact List.Pairwise.nil
        · rename_i e rest hr
          have hs := h.sorted; rw [hr] at hs
          have hb := h.bound; rw [hr] at hb
          have hk' : k ∉ keys rest := by
            have := (lookup_none_iff _ _).1 hk; rw [hr] at this; simp at this; exact this.2
          exact (sorted_snoc (List.Pairwise.of_cons hs) (fun k' hk'' => hb k' (by simp [hk''])) hk' v).1
  · -- stamps are in the past
    show ∀ k' ∈ keys (c.setitem k v).ring, setStamp s.stamp k s.now k' < s.now + 1
    unfold Cache.setitem
    split
    · exact (sorted_snoc (h.sorted.sublist (eraseKey_sublist k c.ring))
        (fun k' hk' => h.bound k' (mem_keys_eraseKey hk')) (not_mem_keys_eraseKey k c.ring hn) v).2
    · rename_i hk
      split
      · exact (sorted_snoc h.sorted h.bound ((lookup_none_iff _ _).1 hk) v).2
      · split
        · rename_i hr; rw [hr]; simp
        · rename_i e rest hr
          have hs := h.sorted; rw [hr] at hs
          have hb := h.bound; rw [hr] at hb
          have hk' : k ∉ keys rest := by
            have := (lookup_none_iff _ _).1 hk; rw [hr] at this; simp at this; exact this.2
          exact (sorted_snoc (List.Pairwise.of_cons hs) (fun k' hk'' => hb k' (by simp [hk''])) hk' v).2


inductive OutSim : Out K V (Cache K V) → Out K V (Ref K V) → Prop where
  | none : OutSim .none .none
  | val (v : V) : OutSim (.val v) (.val v)
  | keyError : OutSim .keyError .keyError
  | raised : OutSim .raised .raised
  | item (k : K) (v : V) : OutSim (.item k v) (.item k v)
  | bool (b : Bool) : OutSim (.bool b) (.bool b)
  | nat (n : Nat) : OutSim (.nat n) (.nat n)
  | items (l : List (K × V)) : OutSim (.items l) (.items l)
  | cache {c : Cache K V} {s : Ref K V} (h : Sim c s) : OutSim (.cache c) (.cache s)

theorem OutSim.shape_eq {a : Out K V (Cache K V)} {b : Out K V (Ref K V)} (h : OutSim a b) :
    a.shape = b.shape := by
  cases h <;> rfl

theorem Sim.lookup_eq {c : Cache K V} {s : Ref K V} (h : Sim c s) (k : K) :
    lookup k c.ring = lookup k s.ents := by rw [← h.d, h.inv.sync.agree]

theorem Sim.counters {c : Cache K V} {s : Ref K V} (h : Sim c s) (a b e : Nat) (l : List K) (hsm : e ≤ b) :
    Sim { c with hit := a, miss := b, soft := e, omLog := l }
        { s with hit := a, miss := b, soft := e, omLog := l } :=
  ⟨h.lru, h.max, h.om, h.d, rfl, rfl, rfl, rfl, ⟨h.inv.sync, h.inv.cap, h.inv.pos, hsm⟩, h.sorted, h.bound⟩

theorem Sim.remove {c : Cache K V} {s : Ref K V} (h : Sim c s) (k : K) : Sim (c.remove k) (s.remove k) :=
  ⟨h.lru, h.max, h.om, by simp [Cache.remove, Ref.remove, h.d], h.hit, h.miss, h.soft, h.log,
   Cache.remove_inv h.inv k, h.sorted.sublist (eraseKey_sublist k c.ring),
   fun k' hk' => h.bound k' (mem_keys_eraseKey hk')⟩

theorem Cache.getitem_hit {c : Cache K V} {k : K} {v : V} (hk : lookup k c.ring = some v) :
    c.getitem k = ({ c with hit := c.hit + 1, ring := if c.lru then toFront k v c.ring else c.ring }, .val v) := by
  unfold Cache.getitem; rw [hk]

theorem Cache.getitem_miss {c : Cache K V} {k : K} (hk : lookup k c.ring = none) (hom : c.onMiss = none) :
    c.getitem k = ({ c with miss := c.miss + 1 }, .keyError) := by
  unfold Cache.getitem; rw [hk, hom]

theorem Cache.getitem_onMiss {c : Cache K V} {k : K} {f : K → OmRes V} {v : V} (hk : lookup k c.ring = none)
    (hom : c.onMiss = some f) (hf : f k = .ret v) :
    c.getitem k = (({ c with miss := c.miss + 1, omLog := c.omLog ++ [k] } : Cache K V).setitem k v, .val v) := by
  unfold Cache.getitem; rw [hk, hom]; simp only [hf]

theorem Cache.getitem_onMiss_keyError {c : Cache K V} {k : K} {f : K → OmRes V} (hk : lookup k c.ring = none)
    (hom : c.onMiss = some f) (hf : f k = .keyError) :
    c.getitem k = ({ c with miss := c.miss + 1, omLog := c.omLog ++ [k] }, .keyError) := by
  unfold Cache.getitem; rw [hk, hom]; simp only [hf]

theorem Cache.getitem_onMiss_error {c : Cache K V} {k : K} {f : K → OmRes V} (hk : lookup k c.ring = none)
    (hom : c.onMiss = some f) (hf : f k = .error) :
    c.getitem k = ({ c with miss := c.miss + 1, omLog := c.omLog ++ [k] }, .raised) := by
  unfold Cache.getitem; rw [hk, hom]; simp only [hf]

theorem Ref.lookup_hit {s : Ref K V} {k : K} {v : V} (hk : C02.lookup k s.ents = some v) :
    s.lookup k = (if s.lru then { s with hit := s.hit + 1, stamp := setStamp s.stamp k s.now, now := s.now + 1 }
     else { s with hit := s.hit + 1 }, .val v) := by
  unfold Ref.lookup; rw [hk]

theorem Ref.lookup_miss {s : Ref K V} {k : K} (hk : C02.lookup k s.ents = none) (hom : s.onMiss = none) :
    s.lookup k = ({ s with miss := s.miss + 1 }, .keyError) := by
  unfold Ref.lookup; rw [hk, hom]

theorem Ref.lookup_onMiss {s : Ref K V} {k : K} {f : K → OmRes V} {v : V} (hk : C02.lookup k s.ents = none)
    (hom : s.onMiss = some f) (hf : f k = .ret v) :
    s.lookup k = (({ s with miss := s.miss + 1, omLog := s.omLog ++ [k] } : Ref K V).assign k v, .val v) := by
  unfold Ref.lookup; rw [hk, hom]; simp only [hf]

theorem Ref.lookup_onMiss_keyError {s : Ref K V} {k : K} {f : K → OmRes V} (hk : C02.lookup k s.ents = none)
    (hom : s.onMiss = some f) (hf : f k = .keyError) :
    s.lookup k = ({ s with miss := s.miss + 1, omLog := s.omLog ++ [k] }, .keyError) := by
  unfold Ref.lookup; rw [hk, hom]; simp only [hf]

theorem Ref.lookup_onMiss_error {s : Ref K V} {k : K} {f : K → OmRes V} (hk : C02.lookup k s.ents = none)
    (hom : s.onMiss = some f) (hf : f k = .error) :
    s.lookup k = ({ s with miss := s.miss + 1, omLog := s.omLog ++ [k] }, .raised) := by
  unfold Ref.lookup; rw [hk, hom]; simp only [hf]

/-- the state after a lookup of an absent key whose on_miss call raised (or: bookkeeping before
    the value is stored) -/
theorem Sim.missed {c : Cache K V} {s : Ref K V} (h : Sim c s) (k : K) :
    Sim ({ c with miss := c.miss + 1, omLog := c.omLog ++ [k] } : Cache K V)
        ({ s with miss := s.miss + 1, omLog := s.omLog ++ [k] } : Ref K V) :=
  ⟨h.lru, h.max, h.om, h.d, h.hit, congrArg (· + 1) h.miss, h.soft, congrArg (· ++ [k]) h.log,
    ⟨h.inv.sync, h.inv.cap, h.inv.pos, Nat.le_succ_of_le h.inv.soft_le⟩, h.sorted, h.bound⟩

/-- … and with the soft miss counted by get / setdefault on top -/
theorem Sim.missedSoft {c : Cache K V} {s : Ref K V} (h : Sim c s) (k : K) :
    Sim ({ c with miss := c.miss + 1, soft := c.soft + 1, omLog := c.omLog ++ [k] } : Cache K V)
        ({ s with miss := s.miss + 1, soft := s.soft + 1, omLog := s.omLog ++ [k] } : Ref K V) :=
  ⟨h.lru, h.max, h.om, h.d, h.hit, congrArg (· + 1) h.miss, congrArg (· + 1) h.soft, congrArg (· ++ [k]) h.log,
    ⟨h.inv.sync, h.inv.cap, h.inv.pos, Nat.succ_le_succ h.inv.soft_le⟩, h.sorted, h.bound⟩

theorem Sim.getitem {c : Cache K V} {s : Ref K V} (h : Sim c s) (k : K) :
    Sim (c.getitem k).1 (s.lookup k).1 ∧ OutSim (c.getitem k).2 (s.lookup k).2 := by
  have hl := h.lookup_eq k
  cases hk : lookup k c.ring with
  | some v =>
    rw [Cache.getitem_hit hk, Ref.lookup_hit (hl ▸ hk)]
    refine ⟨?_, OutSim.val v⟩
    by_cases hlru : c.lru = true
    · have hlru' : s.lru = true := h.lru ▸ hlru
      rw [if_pos hlru, if_pos hlru']
      have hsn := sorted_snoc (h.sorted.sublist (eraseKey_sublist k c.ring))
        (fun k' hk' => h.bound k' (mem_keys_eraseKey hk')) (not_mem_keys_eraseKey k c.ring h.inv.sync.nr) v
      exact ⟨h.lru, h.max, h.om, h.d, congrArg (· + 1) h.hit, h.miss, h.soft, h.log,
        ⟨h.inv.sync.touch hk, h.inv.cap, h.inv.pos, h.inv.soft_le⟩, hsn.1, hsn.2⟩
    · have hlru' : ¬ s.lru = true := h.lru ▸ hlru
      rw [if_neg hlru, if_neg hlru']
      exact ⟨h.lru, h.max, h.om, h.d, congrArg (· + 1) h.hit, h.miss, h.soft, h.log,
        ⟨h.inv.sync, h.inv.cap, h.inv.pos, h.inv.soft_le⟩, h.sorted, h.bound⟩
  | none =>
    cases hom : c.onMiss with
    | none =>
      rw [Cache.getitem_miss hk hom, Ref.lookup_miss (hl ▸ hk) (h.om ▸ hom)]
      exact ⟨⟨h.lru, h.max, h.om, h.d, h.hit, congrArg (· + 1) h.miss, h.soft, h.log,
        ⟨h.inv.sync, h.inv.cap, h.inv.pos, Nat.le_succ_of_le h.inv.soft_le⟩, h.sorted, h.bound⟩, OutSim.keyError⟩
    | some f =>
      cases hf : f k with
      | ret v =>
        rw [Cache.getitem_onMiss hk hom hf, Ref.lookup_onMiss (hl ▸ hk) (h.om ▸ hom) hf]
        exact ⟨(h.missed k).setitem k v, OutSim.val _⟩
      | keyError =>
        rw [Cache.getitem_onMiss_keyError hk hom hf, Ref.lookup_onMiss_keyError (hl ▸ hk) (h.om ▸ hom) hf]
        exact ⟨h.missed k, OutSim.keyError⟩
      | error =>
        rw [Cache.getitem_onMiss_error hk hom hf, Ref.lookup_onMiss_error (hl ▸ hk) (h.om ▸ hom) hf]
        exact ⟨h.missed k, OutSim.raised⟩

theorem Sim.setAll {c : Cache K V} {s : Ref K V} (h : Sim c s) (l : List (K × V)) :
    Sim (c.setAll l) (s.assignAll l) := by
  unfold Cache.setAll Ref.assignAll
  induction l generalizing c s with
  | nil => exact h
  | cons p l ih => exact ih (h.setitem p.1 p.2)

theorem Sim.update {c : Cache K V} {s : Ref K V} (h : Sim c s) (e : Arg K V) (kw : List (K × V)) :
    Sim (c.update e kw) (s.update e kw) := by
  unfold Cache.update Ref.update
  cases e with
  | self => exact h
  | pairs l => exact (h.setAll l).setAll kw

theorem Sim.copied {c : Cache K V} {s : Ref K V} (h : Sim c s) : Sim c.copied s.copied :=
  h.counters 0 0 0 [] (Nat.le_refl _)


variable [DecidableEq V]

theorem Sim.step {c : Cache K V} {s : Ref K V} (h : Sim c s) (op : Op K V) :
    Sim (step c op).1 (Ref.step s op).1 ∧ OutSim (step c op).2 (Ref.step s op).2 := by
  have hl := fun k => h.lookup_eq k
  cases op with
  | setitem k v => exact ⟨h.setitem k v, OutSim.none⟩
  | getitem k => exact h.getitem k
  | delitem k =>
    simp only [C02.step, Ref.step, ← h.d]
    cases lookup k c.d with
    | none => exact ⟨h, OutSim.keyError⟩
    | some _ => exact ⟨h.remove k, OutSim.none⟩
  | get k dflt =>
    cases hk : lookup k c.ring with
    | some v =>
      have := h.getitem k
      rw [Cache.getitem_hit hk, Ref.lookup_hit (hl k ▸ hk)] at this
      simp only [C02.step, Ref.step, Cache.getitem_hit hk, Ref.lookup_hit (hl k ▸ hk)]
      exact this
    | none =>
      cases hom : c.onMiss with
      | none =>
        have := (h.getitem k).1
        rw [Cache.getitem_miss hk hom, Ref.lookup_miss (hl k ▸ hk) (h.om ▸ hom)] at this
        simp only [C02.step, Ref.step, Cache.getitem_miss hk hom, Ref.lookup_miss (hl k ▸ hk) (h.om ▸ hom)]
        exact ⟨⟨h.lru, h.max, h.om, h.d, h.hit, congrArg (· + 1) h.miss, congrArg (· + 1) h.soft, h.log,
          ⟨h.inv.sync, h.inv.cap, h.inv.pos, Nat.succ_le_succ h.inv.soft_le⟩, h.sorted, h.bound⟩, OutSim.val _⟩
      | some f =>
        cases hf : f k with
        | ret v =>
          have := h.getitem k
          rw [Cache.getitem_onMiss hk hom hf, Ref.lookup_onMiss (hl k ▸ hk) (h.om ▸ hom) hf] at this
          simp only [C02.step, Ref.step, Cache.getitem_onMiss hk hom hf, Ref.lookup_onMiss (hl k ▸ hk) (h.om ▸ hom) hf]
          exact this
        | keyError =>
          simp only [C02.step, Ref.step, Cache.getitem_onMiss_keyError hk hom hf,
            Ref.lookup_onMiss_keyError (hl k ▸ hk) (h.om ▸ hom) hf]
          exact ⟨h.missedSoft k, OutSim.val _⟩
        | error =>
          simp only [C02.step, Ref.step, Cache.getitem_onMiss_error hk hom hf,
            Ref.lookup_onMiss_error (hl k ▸ hk) (h.om ▸ hom) hf]
          exact ⟨h.missed k, OutSim.raised⟩
  | setdefault k dflt =>
    cases hk : lookup k c.ring with
    | some v =>
      have := h.getitem k
      rw [Cache.getitem_hit hk, Ref.lookup_hit (hl k ▸ hk)] at this
      simp only [C02.step, Ref.step, Cache.getitem_hit hk, Ref.lookup_hit (hl k ▸ hk)]
      exact this
    | none =>
      cases hom : c.onMiss with
      | none =>
        simp only [C02.step, Ref.step, Cache.getitem_miss hk hom, Ref.lookup_miss (hl k ▸ hk) (h.om ▸ hom)]
        refine ⟨?_, OutSim.val _⟩
        apply Sim.setitem
        exact ⟨h.lru, h.max, h.om, h.d, h.hit, congrArg (· + 1) h.miss, congrArg (· + 1) h.soft, h.log,
          ⟨h.inv.sync, h.inv.cap, h.inv.pos, Nat.succ_le_succ h.inv.soft_le⟩, h.sorted, h.bound⟩
      | some f =>
        cases hf : f k with
        | ret v =>
          have := h.getitem k
          rw [Cache.getitem_onMiss hk hom hf, Ref.lookup_onMiss (hl k ▸ hk) (h.om ▸ hom) hf] at this
          simp only [C02.step, Ref.step, Cache.getitem_onMiss hk hom hf, Ref.lookup_onMiss (hl k ▸ hk) (h.om ▸ hom) hf]
          exact this
        | keyError =>
          simp only [C02.step, Ref.step, Cache.getitem_onMiss_keyError hk hom hf,
            Ref.lookup_onMiss_keyError (hl k ▸ hk) (h.om ▸ hom) hf]
          exact ⟨(h.missedSoft k).setitem k dflt, OutSim.val _⟩
        | error =>
          simp only [C02.step, Ref.step, Cache.getitem_onMiss_error hk hom hf,
            Ref.lookup_onMiss_error (hl k ▸ hk) (h.om ▸ hom) hf]
          exact ⟨h.missed k, OutSim.raised⟩
  | update e kw => exact ⟨h.update e kw, OutSim.none⟩
  | ior e => exact ⟨h.update e [], OutSim.none⟩
  | pop k dflt =>
    simp only [C02.step, Ref.step, ← h.d]
    cases lookup k c.d with
    | some v => exact ⟨h.remove k, OutSim.val v⟩
    | none =>
      cases dflt with
      | some v => exact ⟨h, OutSim.val v⟩
      | none => exact ⟨h, OutSim.keyError⟩
  | popitem =>
    simp only [C02.step, Ref.step, ← h.d]
    cases hp : c.d.getLast? with
    | none => exact ⟨h, OutSim.keyError⟩
    | some p =>
      simp only []
      rw [dropLast_eq_eraseKey h.inv.sync.nd hp]
      exact ⟨h.remove p.1, OutSim.item _ _⟩
  | clear =>
    exact ⟨⟨h.lru, h.max, h.om, rfl, h.hit, h.miss, h.soft, h.log,
      ⟨Sync.nil, Nat.zero_le _, h.inv.pos, h.inv.soft_le⟩, List.Pairwise.nil, by intro k hk; cases hk⟩, OutSim.none⟩
  | copy => exact ⟨h, OutSim.cache h.copied⟩
  | contains k => simp only [C02.step, Ref.step, ← h.d]; exact ⟨h, OutSim.bool _⟩
  | len => simp only [C02.step, Ref.step, ← h.d]; exact ⟨h, OutSim.nat _⟩
  | items => simp only [C02.step, Ref.step, ← h.d]; exact ⟨h, OutSim.items _⟩
  | eq o =>
    have : c.eqArg o = s.eqArg o := by cases o <;> simp [Cache.eqArg, Ref.eqArg, h.d]
    simp only [C02.step, Ref.step, this]; exact ⟨h, OutSim.bool _⟩
  | ne o =>
    have : c.eqArg o = s.eqArg o := by cases o <;> simp [Cache.eqArg, Ref.eqArg, h.d]
    simp only [C02.step, Ref.step, this]; exact ⟨h, OutSim.bool _⟩
  | updateFail l => exact ⟨h.setAll l, OutSim.raised⟩
  | eqOther => exact ⟨h, OutSim.bool _⟩
  | neOther => exact ⟨h, OutSim.bool _⟩

omit [DecidableEq V] in
/-- reading one cache into another: both stay in simulation with the reference pair -/
theorem Sim.updFrom {c o : Cache K V} {s t : Ref K V} (hc : Sim c s) (ho : Sim o t) (ks : List K) :
    Sim (updFrom c o ks).1 (Ref.updFrom s t ks).1 ∧ Sim (updFrom c o ks).2.1 (Ref.updFrom s t ks).2.1 ∧
    (updFrom c o ks).2.2 = (Ref.updFrom s t ks).2.2 := by
  induction ks generalizing c o s t with
  | nil => exact ⟨hc, ho, rfl⟩
  | cons k ks ih =>
    have hg := ho.getitem k
    cases hco : o.getitem k with
    | mk o' out =>
      cases hrt : t.lookup k with
      | mk t' out' =>
        rw [hco, hrt] at hg
        obtain ⟨hs, hout⟩ := hg
        simp only [C02.updFrom, Ref.updFrom, hco, hrt]
        cases hout with
        | val v => exact ih (hc.setitem k v) hs
        | none => exact ⟨hc, hs, rfl⟩
        | keyError => exact ⟨hc, hs, rfl⟩
        | raised => exact ⟨hc, hs, rfl⟩
        | item k v => exact ⟨hc, hs, rfl⟩
        | bool b => exact ⟨hc, hs, rfl⟩
        | nat n => exact ⟨hc, hs, rfl⟩
        | items l => exact ⟨hc, hs, rfl⟩
        | cache hn => exact ⟨hc, hs, rfl⟩


/-- simulation between worlds of caches -/
def WSim (w : List (Cache K V)) (ws : List (Ref K V)) : Prop :=
  w.length = ws.length ∧ ∀ (i : Nat) c s, w[i]? = some c → ws[i]? = some s → Sim c s

theorem WSim.single {c : Cache K V} {s : Ref K V} (h : Sim c s) : WSim [c] [s] := by
  refine ⟨rfl, fun i c' s' hc hs => ?_⟩
  cases i with
  | zero => simp at hc hs; subst hc hs; exact h
  | succ n => simp at hc

theorem WSim.get {w : List (Cache K V)} {ws : List (Ref K V)} (h : WSim w ws) (i : Nat) :
    (w[i]? = none ∧ ws[i]? = none) ∨ ∃ c s, w[i]? = some c ∧ ws[i]? = some s ∧ Sim c s := by
  by_cases hi : i < w.length
  · have hi' : i < ws.length := h.1 ▸ hi
    exact Or.inr ⟨w[i], ws[i], List.getElem?_eq_getElem hi, List.getElem?_eq_getElem hi',
      h.2 i _ _ (List.getElem?_eq_getElem hi) (List.getElem?_eq_getElem hi')⟩
  · have hi' : ¬ i < ws.length := h.1 ▸ hi
    exact Or.inl ⟨List.getElem?_eq_none (Nat.le_of_not_lt hi), List.getElem?_eq_none (Nat.le_of_not_lt hi')⟩

theorem WSim.set {w : List (Cache K V)} {ws : List (Ref K V)} (h : WSim w ws) (i : Nat)
    {c : Cache K V} {s : Ref K V} (hcs : Sim c s) : WSim (w.set i c) (ws.set i s) := by
  refine ⟨by simp [h.1], fun j c' s' hc hs => ?_⟩
  rw [List.getElem?_set] at hc hs
  by_cases e : i = j
  · simp only [e, if_true] at hc hs
    split at hc
    · split at hs
      · simp at hc hs; subst hc hs; exact hcs
      · simp at hs
    · simp at hc
  · simp only [e, if_false] at hc hs
    exact h.2 j _ _ hc hs

theorem WSim.snoc {w : List (Cache K V)} {ws : List (Ref K V)} (h : WSim w ws)
    {c : Cache K V} {s : Ref K V} (hcs : Sim c s) : WSim (w ++ [c]) (ws ++ [s]) := by
  refine ⟨by simp [h.1], fun j c' s' hc hs => ?_⟩
  by_cases hj : j < w.length
  · rw [List.getElem?_append_left hj] at hc
    rw [List.getElem?_append_left (h.1 ▸ hj)] at hs
    exact h.2 j _ _ hc hs
  · have hj' := Nat.le_of_not_lt hj
    rw [List.getElem?_append_right hj'] at hc
    rw [List.getElem?_append_right (h.1 ▸ hj')] at hs
    rw [← h.1] at hs
    cases hn : j - w.length with
    | zero => simp [hn] at hc hs; subst hc hs; exact hcs
    | succ n => simp [hn] at hc

theorem WSim.argOf {w : List (Cache K V)} {ws : List (Ref K V)} (h : WSim w ws) (i j : Nat) :
    C02.argOf w i j = Ref.argOf ws i j := by
  unfold C02.argOf Ref.argOf
  split
  · rfl
  · rcases h.get j with ⟨h1, h2⟩ | ⟨c, s, h1, h2, hs⟩
    · rw [h1, h2]
    · rw [h1, h2]; simp [hs.d]

theorem WSim.step {w : List (Cache K V)} {ws : List (Ref K V)} (h : WSim w ws) (op : WOp K V) :
    WSim (wstep w op).1 (Ref.wstep ws op).1 ∧ OutSim (wstep w op).2 (Ref.wstep ws op).2 := by
  cases op with
  | on i op =>
    rcases h.get i with ⟨h1, h2⟩ | ⟨c, s, h1, h2, hs⟩
    · simp only [wstep, Ref.wstep, h1, h2]; exact ⟨h, OutSim.none⟩
    · have hst := hs.step op
      cases hc : C02.step c op with
      | mk c' o =>
        cases hr : Ref.step s op with
        | mk s' o' =>
          rw [hc, hr] at hst
          simp only [wstep, Ref.wstep, h1, h2, hc, hr]
          have hset := h.set i hst.1
          cases hst.2 with
          | cache hn => exact ⟨hset.snoc hn, OutSim.cache hn⟩
          | none => exact ⟨hset, OutSim.none⟩
          | val v => exact ⟨hset, OutSim.val v⟩
          | keyError => exact ⟨hset, OutSim.keyError⟩
          | raised => exact ⟨hset, OutSim.raised⟩
          | item k v => exact ⟨hset, OutSim.item k v⟩
          | bool b => exact ⟨hset, OutSim.bool b⟩
          | nat n => exact ⟨hset, OutSim.nat n⟩
          | items l => exact ⟨hset, OutSim.items l⟩
  | eqc i j =>
    rcases h.get i with ⟨h1, h2⟩ | ⟨c, s, h1, h2, hs⟩
    · simp only [wstep, Ref.wstep, h1, h2]; exact ⟨h, OutSim.none⟩
    · simp only [wstep, Ref.wstep, h1, h2, h.argOf i j]
      exact ⟨h, (hs.step _).2⟩
  | nec i j =>
    rcases h.get i with ⟨h1, h2⟩ | ⟨c, s, h1, h2, hs⟩
    · simp only [wstep, Ref.wstep, h1, h2]; exact ⟨h, OutSim.none⟩
    · simp only [wstep, Ref.wstep, h1, h2, h.argOf i j]
      exact ⟨h, (hs.step _).2⟩
  | updc i j kw =>
    rcases h.get i with ⟨h1, h2⟩ | ⟨c, s, h1, h2, hs⟩
    · simp only [wstep, Ref.wstep, h1, h2]; exact ⟨h, OutSim.none⟩
    · rcases h.get j with ⟨g1, g2⟩ | ⟨o, t, g1, g2, ht⟩
      · simp only [wstep, Ref.wstep, h1, h2, g1, g2]; exact ⟨h, OutSim.none⟩
      · simp only [wstep, Ref.wstep, h1, h2, g1, g2]
        by_cases e : i = j
        · simp only [e, if_true]; exact ⟨h, OutSim.none⟩
        · simp only [e, if_false]
          have hu := hs.updFrom ht (keys o.d)
          rw [ht.d] at hu
          rw [ht.d]
          cases hm : C02.updFrom c o (keys t.ents) with
          | mk c' r =>
            cases r with
            | mk o' b =>
              cases hr : Ref.updFrom s t (keys t.ents) with
              | mk s' r' =>
                cases r' with
                | mk t' b' =>
                  rw [hm, hr] at hu
                  obtain ⟨u1, u2, u3⟩ := hu
                  simp only [] at u1 u2 u3
                  subst u3
                  cases b with
                  | true => exact ⟨(h.set i (u1.setAll kw)).set j u2, OutSim.none⟩
                  | false => exact ⟨(h.set i u1).set j u2, OutSim.keyError⟩

theorem WSim.run {w : List (Cache K V)} {ws : List (Ref K V)} (h : WSim w ws) (ops : List (WOp K V)) :
    WSim (wrun w ops) (Ref.wrun ws ops) ∧ (wouts w ops).map Out.shape = (Ref.wouts ws ops).map Out.shape := by
  unfold wrun Ref.wrun
  induction ops generalizing w ws with
  | nil => exact ⟨h, rfl⟩
  | cons op ops ih =>
    have hs := h.step op
    have := ih hs.1
    exact ⟨this.1, by simp only [wouts, Ref.wouts, List.map_cons, hs.2.shape_eq, this.2]⟩

end C02
