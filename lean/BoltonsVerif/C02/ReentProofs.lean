import BoltonsVerif.C02.Reent
import BoltonsVerif.C02.Extra
import BoltonsVerif.C02.HRefine
/-
C02 — proofs about the re-entrant on_miss interpreter (`Reent.lean`).

Generic part: a simulation between two machines that is preserved by the primitive steps is
preserved by `rget` / `rstep` / program bodies, for every program table and every nesting depth
(`MSim.rget`, `MSim.rstep`).  The relation is indexed by a natural number `n`, a lower bound for
`miss_count - soft_miss_count`: `get` / `setdefault` count their soft miss AFTER a whole on_miss
program (with arbitrary nested lookups) has run, and `soft_miss_count <= miss_count` must survive.
Instances: ring model vs reference cache (`Sim`), pointer-level model vs ring model (`HSim`).
-/
set_option linter.unusedSectionVars false
namespace C02
variable {K V C1 C2 : Type} [DecidableEq K]

/-- equal results; for copy(): related caches -/
inductive OutRel (R : C1 → C2 → Prop) : Out K V C1 → Out K V C2 → Prop where
  | none : OutRel R .none .none
  | val (v : V) : OutRel R (.val v) (.val v)
  | keyError : OutRel R .keyError .keyError
  | raised : OutRel R .raised .raised
  | item (k : K) (v : V) : OutRel R (.item k v) (.item k v)
  | bool (b : Bool) : OutRel R (.bool b) (.bool b)
  | nat (n : Nat) : OutRel R (.nat n) (.nat n)
  | items (l : List (K × V)) : OutRel R (.items l) (.items l)
  | cache {a : C1} {b : C2} (h : R a b) : OutRel R (.cache a) (.cache b)

theorem OutRel.shape_eq {R : C1 → C2 → Prop} {a : Out K V C1} {b : Out K V C2} (h : OutRel R a b) :
    a.shape = b.shape := by
  cases h <;> rfl

/-- the primitive steps of the two machines preserve the indexed relation; `RC` relates the caches
    returned by copy() -/
structure MSim (M1 : Mach K V C1) (M2 : Mach K V C2) (R : Nat → C1 → C2 → Prop) (RC : C1 → C2 → Prop) : Prop where
  weaken : ∀ {n c s}, R (n + 1) c s → R n c s
  log : ∀ {n c s}, R n c s → M1.log c = M2.log s
  find : ∀ {n c s} (k : K), R n c s → M1.find c k = M2.find s k
  hit : ∀ {n c s} (k : K), R n c s → M1.find c k = true →
    R n (M1.hit c k).1 (M2.hit s k).1 ∧ ∃ v, (M1.hit c k).2 = .val v ∧ (M2.hit s k).2 = .val v
  missed : ∀ {n c s} (k : K), R n c s → R (n + 1) (M1.missed c k) (M2.missed s k)
  setitem : ∀ {n c s} (k : K) (v : V), R n c s → R n (M1.setitem c k v) (M2.setitem s k v)
  soft : ∀ {n c s}, R (n + 1) c s → R n (M1.soft c) (M2.soft s)
  step : ∀ {n c s} (op : Op K V), R n c s → op.isLookup = false →
    R n (M1.step c op).1 (M2.step s op).1 ∧ OutRel RC (M1.step c op).2 (M2.step s op).2

/-- what `MSim.rget` proves about a pair of `__getitem__` implementations -/
def GSim (R : Nat → C1 → C2 → Prop) (RC : C1 → C2 → Prop) (g1 : C1 → K → C1 × Out K V C1) (g2 : C2 → K → C2 × Out K V C2) : Prop :=
  ∀ n c s k, R n c s →
    R n (g1 c k).1 (g2 s k).1 ∧ OutRel RC (g1 c k).2 (g2 s k).2 ∧
    ((g1 c k).2 = .keyError → R (n + 1) (g1 c k).1 (g2 s k).1)

variable {M1 : Mach K V C1} {M2 : Mach K V C2} {R : Nat → C1 → C2 → Prop} {RC : C1 → C2 → Prop}

theorem MSim.stepWith (h : MSim M1 M2 R RC) {g1 : C1 → K → C1 × Out K V C1} {g2 : C2 → K → C2 × Out K V C2}
    (hg : GSim R RC g1 g2) {n : Nat} {c : C1} {s : C2} (hr : R n c s) (op : Op K V) :
    R n (M1.stepWith g1 c op).1 (M2.stepWith g2 s op).1 ∧
    OutRel RC (M1.stepWith g1 c op).2 (M2.stepWith g2 s op).2 := by
  cases op with
  | getitem k => exact ⟨(hg n c s k hr).1, (hg n c s k hr).2.1⟩
  | get k d =>
    have := hg n c s k hr
    simp only [Mach.stepWith]
    cases h1 : g1 c k with
    | mk c' o1 =>
      cases h2 : g2 s k with
      | mk s' o2 =>
        rw [h1, h2] at this
        obtain ⟨a1, a2, a3⟩ := this
        cases a2 with
        | keyError => exact ⟨h.soft (a3 rfl), OutRel.val _⟩
        | none => exact ⟨a1, OutRel.none⟩
        | val v => exact ⟨a1, OutRel.val v⟩
        | raised => exact ⟨a1, OutRel.raised⟩
        | item k v => exact ⟨a1, OutRel.item k v⟩
        | bool b => exact ⟨a1, OutRel.bool b⟩
        | nat n => exact ⟨a1, OutRel.nat n⟩
        | items l => exact ⟨a1, OutRel.items l⟩
        | cache hn => exact ⟨a1, OutRel.cache hn⟩
  | setdefault k d =>
    have := hg n c s k hr
    simp only [Mach.stepWith]
    cases h1 : g1 c k with
    | mk c' o1 =>
      cases h2 : g2 s k with
      | mk s' o2 =>
        rw [h1, h2] at this
        obtain ⟨a1, a2, a3⟩ := this
        cases a2 with
        | keyError => exact ⟨h.setitem k d (h.soft (a3 rfl)), OutRel.val _⟩
        | none => exact ⟨a1, OutRel.none⟩
        | val v => exact ⟨a1, OutRel.val v⟩
        | raised => exact ⟨a1, OutRel.raised⟩
        | item k v => exact ⟨a1, OutRel.item k v⟩
        | bool b => exact ⟨a1, OutRel.bool b⟩
        | nat n => exact ⟨a1, OutRel.nat n⟩
        | items l => exact ⟨a1, OutRel.items l⟩
        | cache hn => exact ⟨a1, OutRel.cache hn⟩
  | setitem k v => exact h.step _ hr rfl
  | delitem k => exact h.step _ hr rfl
  | update e kw => exact h.step _ hr rfl
  | ior e => exact h.step _ hr rfl
  | pop k d => exact h.step _ hr rfl
  | popitem => exact h.step _ hr rfl
  | clear => exact h.step _ hr rfl
  | copy => exact h.step _ hr rfl
  | contains k => exact h.step _ hr rfl
  | len => exact h.step _ hr rfl
  | items => exact h.step _ hr rfl
  | eq o => exact h.step _ hr rfl
  | ne o => exact h.step _ hr rfl
  | updateFail l => exact h.step _ hr rfl
  | eqOther => exact h.step _ hr rfl
  | neOther => exact h.step _ hr rfl

/-- the two runs of a callback stay related and end with the same outcome -/
theorem MSim.runProg (h : MSim M1 M2 R RC) {g1 : C1 → K → C1 × Out K V C1} {g2 : C2 → K → C2 × Out K V C2}
    (hg : GSim R RC g1 g2) (p : OmProg K V) {n : Nat} {c : C1} {s : C2} (hr : R n c s) :
    R n (runProg (M1.stepWith g1) c p).1 (runProg (M2.stepWith g2) s p).1 ∧
    (runProg (M1.stepWith g1) c p).2 = (runProg (M2.stepWith g2) s p).2 := by
  induction p generalizing c s with
  | done r => exact ⟨hr, rfl⟩
  | call op next ih =>
    have hs := h.stepWith hg hr op
    simp only [C02.runProg]
    cases h1 : M1.stepWith g1 c op with
    | mk c' o1 =>
      cases h2 : M2.stepWith g2 s op with
      | mk s' o2 =>
        rw [h1, h2] at hs
        simp only []
        rw [hs.2.shape_eq]
        exact ih o2.shape hs.1

/-- MAIN generic lemma: `__getitem__` with a re-entrant on_miss preserves the simulation, returns equal
    results, and a KeyError outcome means a miss was counted that no soft miss has used up yet -/
theorem MSim.rget (h : MSim M1 M2 R RC) (P : List K → K → OmProg K V) (fuel : Nat) :
    GSim R RC (M1.rget P fuel) (M2.rget P fuel) := by
  induction fuel with
  | zero =>
    intro n c s k hr
    have hf := h.find k hr
    simp only [Mach.rget]
    cases hc : M1.find c k with
    | true =>
      rw [← hf, hc]; simp only [if_true]
      obtain ⟨b1, v, b2, b3⟩ := h.hit k hr hc
      refine ⟨b1, by rw [b2, b3]; exact OutRel.val v, fun e => ?_⟩
      rw [b2] at e; cases e
    | false =>
      rw [← hf, hc]
      refine ⟨h.weaken (h.missed k hr), OutRel.raised, fun e => ?_⟩
      simp at e
  | succ m ih =>
    intro n c s k hr
    have hf := h.find k hr
    simp only [Mach.rget]
    cases hc : M1.find c k with
    | true =>
      rw [← hf, hc]; simp only [if_true]
      obtain ⟨b1, v, b2, b3⟩ := h.hit k hr hc
      refine ⟨b1, by rw [b2, b3]; exact OutRel.val v, fun e => ?_⟩
      rw [b2] at e; cases e
    | false =>
      rw [← hf, hc, ← h.log hr]
      simp only [Bool.false_eq_true, if_false]
      have hb := h.runProg ih (P (M1.log c) k) (h.missed k hr)
      cases h1 : C02.runProg (M1.stepWith (M1.rget P m)) (M1.missed c k) (P (M1.log c) k) with
      | mk c2 e1 =>
        cases h2 : C02.runProg (M2.stepWith (M2.rget P m)) (M2.missed s k) (P (M1.log c) k) with
        | mk s2 e2 =>
          rw [h1, h2] at hb
          obtain ⟨a1, a2⟩ := hb
          simp only [] at a1 a2
          subst a2
          cases e1 with
          | ret v =>
            refine ⟨h.weaken (h.setitem k v a1), OutRel.val v, fun e => ?_⟩
            simp at e
          | keyError => exact ⟨h.weaken a1, OutRel.keyError, fun _ => a1⟩
          | error =>
            refine ⟨h.weaken a1, OutRel.raised, fun e => ?_⟩
            simp at e

theorem MSim.rstep (h : MSim M1 M2 R RC) (P : List K → K → OmProg K V) (fuel : Nat) {n : Nat} {c : C1} {s : C2}
    (hr : R n c s) (op : Op K V) :
    R n (M1.rstep P fuel c op).1 (M2.rstep P fuel s op).1 ∧
    OutRel RC (M1.rstep P fuel c op).2 (M2.rstep P fuel s op).2 :=
  h.stepWith (h.rget P fuel) hr op

/-! ### worlds -/

/-- simulation between worlds of caches -/
def WRel (R : C1 → C2 → Prop) (w : List C1) (ws : List C2) : Prop :=
  w.length = ws.length ∧ ∀ (i : Nat) a b, w[i]? = some a → ws[i]? = some b → R a b

theorem WRel.get {R : C1 → C2 → Prop} {w : List C1} {ws : List C2} (h : WRel R w ws) (i : Nat) :
    (w[i]? = none ∧ ws[i]? = none) ∨ ∃ a c, w[i]? = some a ∧ ws[i]? = some c ∧ R a c := by
  by_cases hi : i < w.length
  · have hi' : i < ws.length := h.1 ▸ hi
    exact Or.inr ⟨w[i], ws[i], List.getElem?_eq_getElem hi, List.getElem?_eq_getElem hi',
      h.2 i _ _ (List.getElem?_eq_getElem hi) (List.getElem?_eq_getElem hi')⟩
  · have hi' : ¬ i < ws.length := h.1 ▸ hi
    exact Or.inl ⟨List.getElem?_eq_none (Nat.le_of_not_lt hi), List.getElem?_eq_none (Nat.le_of_not_lt hi')⟩

theorem WRel.set {R : C1 → C2 → Prop} {w : List C1} {ws : List C2} (h : WRel R w ws) (i : Nat)
    {a : C1} {c : C2} (hs : R a c) : WRel R (w.set i a) (ws.set i c) := by
  refine ⟨by simp [h.1], fun j a' c' ha hc => ?_⟩
  rw [List.getElem?_set] at ha hc
  by_cases e : i = j
  · simp only [e, if_true] at ha hc
    split at ha
    · split at hc
      · simp at ha hc; subst ha hc; exact hs
      · simp at hc
    · simp at ha
  · simp only [e, if_false] at ha hc
    exact h.2 j _ _ ha hc

theorem WRel.snoc {R : C1 → C2 → Prop} {w : List C1} {ws : List C2} (h : WRel R w ws)
    {a : C1} {c : C2} (hs : R a c) : WRel R (w ++ [a]) (ws ++ [c]) := by
  refine ⟨by simp [h.1], fun j a' c' ha hc => ?_⟩
  by_cases hj : j < w.length
  · rw [List.getElem?_append_left hj] at ha
    rw [List.getElem?_append_left (h.1 ▸ hj)] at hc
    exact h.2 j _ _ ha hc
  · have hj' := Nat.le_of_not_lt hj
    rw [List.getElem?_append_right hj'] at ha
    rw [List.getElem?_append_right (h.1 ▸ hj')] at hc
    rw [← h.1] at hc
    cases hn : j - w.length with
    | zero => simp [hn] at ha hc; subst ha hc; exact hs
    | succ n => simp [hn] at ha

/-- a world step whose single-cache part and whose two-cache part both preserve the relation -/
theorem WRel.rwstepG {R : C1 → C2 → Prop}
    {st1 : C1 → Op K V → C1 × Out K V C1} {st2 : C2 → Op K V → C2 × Out K V C2}
    {wst1 : List C1 → WOp K V → List C1 × Out K V C1} {wst2 : List C2 → WOp K V → List C2 × Out K V C2}
    (hst : ∀ c s op, R c s → R (st1 c op).1 (st2 s op).1 ∧ OutRel R (st1 c op).2 (st2 s op).2)
    (hwst : ∀ w ws op, WRel R w ws → WRel R (wst1 w op).1 (wst2 ws op).1 ∧ OutRel R (wst1 w op).2 (wst2 ws op).2)
    {w : List C1} {ws : List C2} (h : WRel R w ws) (op : WOp K V) :
    WRel R (C02.rwstepG st1 wst1 w op).1 (C02.rwstepG st2 wst2 ws op).1 ∧
    OutRel R (C02.rwstepG st1 wst1 w op).2 (C02.rwstepG st2 wst2 ws op).2 := by
  cases op with
  | on i op =>
    rcases h.get i with ⟨h1, h2⟩ | ⟨a, c, h1, h2, hs⟩
    · simp only [C02.rwstepG, h1, h2]; exact ⟨h, OutRel.none⟩
    · have hst' := hst a c op hs
      cases hc : st1 a op with
      | mk a' o =>
        cases hr : st2 c op with
        | mk c' o' =>
          rw [hc, hr] at hst'
          simp only [C02.rwstepG, h1, h2, hc, hr]
          have hset := h.set i hst'.1
          cases hst'.2 with
          | cache hn => exact ⟨hset.snoc hn, OutRel.cache hn⟩
          | none => exact ⟨hset, OutRel.none⟩
          | val v => exact ⟨hset, OutRel.val v⟩
          | keyError => exact ⟨hset, OutRel.keyError⟩
          | raised => exact ⟨hset, OutRel.raised⟩
          | item k v => exact ⟨hset, OutRel.item k v⟩
          | bool b => exact ⟨hset, OutRel.bool b⟩
          | nat n => exact ⟨hset, OutRel.nat n⟩
          | items l => exact ⟨hset, OutRel.items l⟩
  | eqc i j => exact hwst w ws _ h
  | nec i j => exact hwst w ws _ h
  | updc i j kw => exact hwst w ws _ h

theorem WRel.run {R : C1 → C2 → Prop}
    {st1 : List C1 → WOp K V → List C1 × Out K V C1} {st2 : List C2 → WOp K V → List C2 × Out K V C2}
    (hst : ∀ w ws op, WRel R w ws → WRel R (st1 w op).1 (st2 ws op).1 ∧ OutRel R (st1 w op).2 (st2 ws op).2)
    {w : List C1} {ws : List C2} (h : WRel R w ws) (ops : List (WOp K V)) :
    WRel R (wrunG st1 w ops) (wrunG st2 ws ops) ∧
    (woutsG st1 w ops).map Out.shape = (woutsG st2 ws ops).map Out.shape := by
  unfold wrunG
  induction ops generalizing w ws with
  | nil => exact ⟨h, rfl⟩
  | cons op ops ih =>
    have hs := hst w ws op h
    have := ih hs.1
    exact ⟨this.1, by simp only [woutsG, List.map_cons, hs.2.shape_eq, this.2]⟩

end C02
