import BoltonsVerif.C02.Model
/-
C02 — the linked list of `boltons.cacheutils.LRI` at the level of links and pointers.

`Model.lean` describes the circular doubly linked list by its effect (a list of (key, value)
pairs, oldest first).  This file transliterates the code itself: every link is the Python list
`[PREV, NEXT, KEY, VALUE]`, identified by an address (a natural number; a list display allocates
the next unused address), the four fields live in four memories, `self._anchor` is an address,
`self._link_lookup` is a dict from keys to addresses.  The four `_ll` helpers, `_init_ll` and the
traversal in `copy()` are written statement by statement; in particular
`_set_key_and_evict_last_in_ll` moves no link: it writes the new key into the old anchor and makes
the oldest link the new anchor.  `HCache` is the cache built on this list, `hstep` / `hwstep` are
the public methods, in the same shape as `step` / `wstep`.

`LLProofs.lean` / `HRefine.lean` prove that `HCache` behaves exactly like `Cache`
(`Props.linked_list_refines_ring`), so every theorem about the ring model holds for the pointer
model.  Core Lean only; the driver runs THIS model.
-/
namespace C02

variable {K V : Type} [DecidableEq K]

/-! memories: address -> field value (unwritten cells read as `default`) -/

def rd {α : Type} [Inhabited α] (m : List α) (a : Nat) : α := m.getD a default

def upd {α : Type} [Inhabited α] (m : List α) (a : Nat) (x : α) : List α :=
  if a < m.length then m.set a x else m ++ List.replicate (a - m.length) default ++ [x]

/-- PREV, NEXT, KEY, VALUE fields of all links; `none` is `_MISSING` -/
structure LL (K V : Type) where
  prev   : List Nat
  next   : List Nat
  key    : List (Option K)
  val    : List (Option V)
  anchor : Nat                 -- self._anchor
  fresh  : Nat                 -- the next unused address
  table  : List (K × Nat)      -- self._link_lookup

/-- `_init_ll()` on a new object: `anchor = []; anchor[:] = [anchor, anchor, _MISSING, _MISSING]`,
    `self._link_lookup = {}` -/
def LL.new : LL K V := ⟨upd [] 0 0, upd [] 0 0, upd [] 0 none, upd [] 0 none, 0, 1, []⟩

/-- `_init_ll()` on an existing cache (`clear()`): a new anchor link, a new empty table; the old
    links become garbage -/
def LL.reinit (l : LL K V) : LL K V :=
  { prev := upd l.prev l.fresh l.fresh, next := upd l.next l.fresh l.fresh,
    key := upd l.key l.fresh none, val := upd l.val l.fresh none,
    anchor := l.fresh, fresh := l.fresh + 1, table := [] }

/-- `_get_link_and_move_to_front_of_ll(key)`; `none` = KeyError from `self._link_lookup[key]`.
    Returns the address of the link as well. -/
def LL.moveToFront (l : LL K V) (k : K) : Option (LL K V × Nat) :=
  match lookup k l.table with
  | none => none
  | some n =>
    -- newest[PREV][NEXT] = newest[NEXT]
    let next1 := upd l.next (rd l.prev n) (rd l.next n)
    -- newest[NEXT][PREV] = newest[PREV]
    let prev1 := upd l.prev (rd next1 n) (rd l.prev n)
    -- anchor = self._anchor; second_newest = anchor[PREV]
    let s := rd prev1 l.anchor
    -- second_newest[NEXT] = anchor[PREV] = newest
    let next2 := upd next1 s n
    let prev2 := upd prev1 l.anchor n
    -- newest[PREV] = second_newest; newest[NEXT] = anchor
    let prev3 := upd prev2 n s
    let next3 := upd next2 n l.anchor
    some ({ l with prev := prev3, next := next3 }, n)

/-- `_set_key_and_add_to_front_of_ll(key, value)` -/
def LL.addFront (l : LL K V) (k : K) (v : V) : LL K V :=
  -- second_newest = anchor[PREV]; newest = [second_newest, anchor, key, value]
  let s := rd l.prev l.anchor
  let n := l.fresh
  let prev1 := upd l.prev n s
  let next1 := upd l.next n l.anchor
  -- second_newest[NEXT] = anchor[PREV] = newest
  let next2 := upd next1 s n
  let prev2 := upd prev1 l.anchor n
  -- self._link_lookup[key] = newest
  { prev := prev2, next := next2, key := upd l.key n (some k), val := upd l.val n (some v),
    anchor := l.anchor, fresh := n + 1, table := dset k n l.table }

/-- `_set_key_and_evict_last_in_ll(key, value)`: returns the KEY field of the link that became the
    anchor (`none` = `_MISSING`, for which `del self._link_lookup[evicted]` raises KeyError) -/
def LL.evictLast (l : LL K V) (k : K) (v : V) : LL K V × Option K :=
  -- oldanchor = self._anchor; oldanchor[KEY] = key; oldanchor[VALUE] = value
  let old := l.anchor
  let key1 := upd l.key old (some k)
  let val1 := upd l.val old (some v)
  -- self._anchor = anchor = oldanchor[NEXT]; evicted = anchor[KEY]
  let a := rd l.next old
  let evicted := rd key1 a
  -- anchor[KEY] = anchor[VALUE] = _MISSING
  let key2 := upd key1 a none
  let val2 := upd val1 a none
  -- del self._link_lookup[evicted]; self._link_lookup[key] = oldanchor
  let table1 := match evicted with
    | some e => eraseKey e l.table
    | none => l.table
  ({ l with key := key2, val := val2, anchor := a, table := dset k old table1 }, evicted)

/-- `_remove_from_ll(key)`; `none` = KeyError from `self._link_lookup.pop(key)` -/
def LL.remove (l : LL K V) (k : K) : Option (LL K V) :=
  match lookup k l.table with
  | none => none
  | some n =>
    -- link[PREV][NEXT] = link[NEXT]; link[NEXT][PREV] = link[PREV]
    let next1 := upd l.next (rd l.prev n) (rd l.next n)
    let prev1 := upd l.prev (rd next1 n) (rd l.prev n)
    some { l with prev := prev1, next := next1, table := eraseKey k l.table }

/-- `link = self._anchor[NEXT]; while link is not self._anchor: …; link = link[NEXT]`: the KEY and
    VALUE fields met on the way (fuel = number of addresses in use) -/
def LL.walk (l : LL K V) : Nat → Nat → List (Option K × Option V)
  | 0, _ => []
  | fuel + 1, n => if n = l.anchor then [] else (rd l.key n, rd l.val n) :: l.walk fuel (rd l.next n)

def LL.flatten (l : LL K V) : List (Option K × Option V) := l.walk l.fresh (rd l.next l.anchor)

/-! the cache on top of the linked list -/

structure HCache (K V : Type) where
  lru    : Bool
  max    : Nat
  onMiss : Option (K → OmRes V)
  d      : List (K × V)
  ll     : LL K V
  hit    : Nat
  miss   : Nat
  soft   : Nat
  omLog  : List K

def HCache.initP (lru : Bool) (max : Nat) (onMiss : Option (K → OmRes V)) : HCache K V :=
  ⟨lru, max, onMiss, [], LL.new, 0, 0, 0, []⟩

/-- `__setitem__` -/
def HCache.setitem (c : HCache K V) (k : K) (v : V) : HCache K V :=
  match c.ll.moveToFront k with
  | some (ll', n) =>
    -- link[VALUE] = value; super().__setitem__(key, value)
    { c with ll := { ll' with val := upd ll'.val n (some v) }, d := dset k v c.d }
  | none =>
    if c.d.length < c.max then { c with ll := c.ll.addFront k v, d := dset k v c.d }
    else match c.ll.evictLast k v with
      -- super().__delitem__(evicted); super().__setitem__(key, value)
      | (ll', some e) => { c with ll := ll', d := dset k v (eraseKey e c.d) }
      -- KeyError out of `del self._link_lookup[_MISSING]` (unreachable: `HRefine`)
      | (ll', none) => { c with ll := ll' }

/-- `LRI.__getitem__` / `LRU.__getitem__` -/
def HCache.getitem (c : HCache K V) (k : K) : HCache K V × Out K V (HCache K V) :=
  let found : Option (LL K V × Nat) :=
    if c.lru then c.ll.moveToFront k                       -- LRU: _get_link_and_move_to_front_of_ll(key)
    else (lookup k c.ll.table).map fun n => (c.ll, n)      -- LRI: self._link_lookup[key]
  match found with
  | some (ll', n) =>
    match rd ll'.val n with
    | some v => ({ c with hit := c.hit + 1, ll := ll' }, .val v)
    | none => ({ c with hit := c.hit + 1, ll := ll' }, .keyError)    -- would return _MISSING (unreachable)
  | none =>
    match c.onMiss with
    | none => ({ c with miss := c.miss + 1 }, .keyError)
    | some f =>
      match f k with
      | .ret v => (({ c with miss := c.miss + 1, omLog := c.omLog ++ [k] } : HCache K V).setitem k v, .val v)
      | .keyError => ({ c with miss := c.miss + 1, omLog := c.omLog ++ [k] }, .keyError)
      | .error => ({ c with miss := c.miss + 1, omLog := c.omLog ++ [k] }, .raised)

/-- `dict.__delitem__` / `dict.pop` / `dict.popitem` done, then `_remove_from_ll(key)` -/
def HCache.unlink (c : HCache K V) (k : K) : HCache K V :=
  match c.ll.remove k with
  | some ll' => { c with ll := ll' }
  | none => c                                             -- KeyError (unreachable)

def HCache.remove (c : HCache K V) (k : K) : HCache K V :=
  ({ c with d := eraseKey k c.d } : HCache K V).unlink k

def HCache.setAll (c : HCache K V) (l : List (K × V)) : HCache K V :=
  l.foldl (fun c p => c.setitem p.1 p.2) c

def HCache.update (c : HCache K V) (e : Arg K V) (kw : List (K × V)) : HCache K V :=
  match e with
  | .self => c
  | .pairs l => (c.setAll l).setAll kw

def HCache.eqArg [DecidableEq V] (c : HCache K V) : Arg K V → Bool
  | .self => true
  | .pairs o => dictEq c.d o

/-- the links `copy()` adds to the new cache while it walks the ring of the source -/
def LL.addAll (l : LL K V) : List (Option K × Option V) → LL K V
  | [] => l
  | (some k, some v) :: rest => (l.addFront k v).addAll rest
  | _ :: rest => l.addAll rest                              -- a link holding _MISSING (unreachable)

/-- `copy()`: a new cache of the same class / capacity / on_miss, the items stored with
    `dict.__setitem__` in dict order, the ring rebuilt link by link in ring order -/
def HCache.copied (c : HCache K V) : HCache K V :=
  { lru := c.lru, max := c.max, onMiss := c.onMiss,
    d := c.d.foldl (fun d p => dset p.1 p.2 d) [],
    ll := (LL.new : LL K V).addAll c.ll.flatten,
    hit := 0, miss := 0, soft := 0, omLog := [] }

/-- one public method call on the pointer-level cache -/
def hstep [DecidableEq V] (c : HCache K V) : Op K V → HCache K V × Out K V (HCache K V)
  | .setitem k v => (c.setitem k v, .none)
  | .getitem k => c.getitem k
  | .delitem k =>
    match lookup k c.d with
    | none => (c, .keyError)
    | some _ => (c.remove k, .none)
  | .get k dflt =>
    match c.getitem k with
    | (c', .keyError) => ({ c' with soft := c'.soft + 1 }, .val dflt)
    | r => r
  | .setdefault k dflt =>
    match c.getitem k with
    | (c', .keyError) => (({ c' with soft := c'.soft + 1 } : HCache K V).setitem k dflt, .val dflt)
    | r => r
  | .update e kw => (c.update e kw, .none)
  | .ior e => (c.update e [], .none)
  | .pop k dflt =>
    match lookup k c.d with
    | some v => (c.remove k, .val v)
    | none => match dflt with
      | some v => (c, .val v)
      | none => (c, .keyError)
  | .popitem =>
    match c.d.getLast? with
    | none => (c, .keyError)
    | some p => (({ c with d := c.d.dropLast } : HCache K V).unlink p.1, .item p.1 p.2)
  | .clear => ({ c with d := [], ll := c.ll.reinit }, .none)
  | .copy => (c, .cache c.copied)
  | .contains k => (c, .bool (lookup k c.d).isSome)
  | .len => (c, .nat c.d.length)
  | .items => (c, .items c.d)
  | .eq o => (c, .bool (c.eqArg o))
  | .ne o => (c, .bool (!c.eqArg o))
  | .updateFail l => (c.setAll l, .raised)
  | .eqOther => (c, .bool false)
  | .neOther => (c, .bool true)

def hUpdFrom (c o : HCache K V) : List K → HCache K V × HCache K V × Bool
  | [] => (c, o, true)
  | k :: ks =>
    match o.getitem k with
    | (o', .val v) => hUpdFrom (c.setitem k v) o' ks
    | (o', _) => (c, o', false)

def hArgOf (w : List (HCache K V)) (i j : Nat) : Arg K V :=
  if i = j then .self else match w[j]? with
    | some o => .pairs o.d
    | none => .pairs []

def hwstep [DecidableEq V] (w : List (HCache K V)) : WOp K V → List (HCache K V) × Out K V (HCache K V)
  | .on i op =>
    match w[i]? with
    | none => (w, .none)
    | some c =>
      match hstep c op with
      | (c', .cache n) => (w.set i c' ++ [n], .cache n)
      | (c', o) => (w.set i c', o)
  | .eqc i j =>
    match w[i]? with
    | none => (w, .none)
    | some c => (w, (hstep c (.eq (hArgOf w i j))).2)
  | .nec i j =>
    match w[i]? with
    | none => (w, .none)
    | some c => (w, (hstep c (.ne (hArgOf w i j))).2)
  | .updc i j kw =>
    match w[i]?, w[j]? with
    | some c, some o =>
      if i = j then (w, .none)
      else match hUpdFrom c o (keys o.d) with
        | (c', o', true) => ((w.set i (c'.setAll kw)).set j o', .none)
        | (c', o', false) => ((w.set i c').set j o', .keyError)
    | _, _ => (w, .none)

def hwrun [DecidableEq V] (w : List (HCache K V)) (ops : List (WOp K V)) : List (HCache K V) :=
  ops.foldl (fun w op => (hwstep w op).1) w

def hwouts [DecidableEq V] (w : List (HCache K V)) : List (WOp K V) → List (Out K V (HCache K V))
  | [] => []
  | op :: ops => (hwstep w op).2 :: hwouts (hwstep w op).1 ops

end C02
