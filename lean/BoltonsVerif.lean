import BoltonsVerif.Common
