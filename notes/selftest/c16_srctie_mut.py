"""mutation runner for the C16 source tie: seeded / harmless patches + own edits, each through harness/srctie_quick.py"""
import json, os, subprocess, sys
VW = '/tmp/vw/TIE-C16'
CL = '/tmp/wt/TIE-C16/repo'
F = os.path.join(CL, 'boltons/tbutils.py')

OWN = {
 'S1 to_string: lineno and funcname swapped in the frame line': [(
  "frame['lineno'],\n                                                           frame['funcname']))",
  "frame['funcname'],\n                                                           frame['lineno']))")],
 'S2 to_string: always "type: msg" (empty message prints "E: ")': [(
  "        if self.exc_msg:\n            lines.append(f'{self.exc_type}: {self.exc_msg}')\n        else:\n            lines.append(f'{self.exc_type}')\n",
  "        lines.append(f'{self.exc_type}: {self.exc_msg}')\n")],
 'S3 to_string: source line indented by 2': [("lines.append(f'    {source_line}')", "lines.append(f'  {source_line}')")],
 'S4 _repeated_line_note: plural for 1': [("'s' if count > 1 else ''", "'s' if count >= 1 else ''")],
 'S5 get_formatted: shows 2 of a run': [("            if count <= 3:\n                ret += f.tb_frame_str()", "            if count < 3:\n                ret += f.tb_frame_str()")],
 'S6 get_formatted: final note dropped': [("        return ret + _repeated_line_note(count)", "        return ret")],
 'S7 tb_frame_str: source line not stripped': [("ret += f'    {str(self.line).strip()}\\n'\n        return ret\n\n\nclass _DeferredLine", "ret += f'    {str(self.line)}\\n'\n        return ret\n\n\nclass _DeferredLine")],
 'S8 get_formatted_exception_only: no space after colon': [("        return f'{self.exc_type}: {self.exc_msg}'\n\n\nclass ContextualCallpoint", "        return f'{self.exc_type}:{self.exc_msg}'\n\n\nclass ContextualCallpoint")],
 'S9 from_exc_info: other placeholder for a non-str module': [("                type_mod = '<unknown>'  # as the traceback module prints it\n            type_str = f'{type_mod}.{type_str}'\n        val_str", "                type_mod = '<unknown module>'\n            type_str = f'{type_mod}.{type_str}'\n        val_str")],
 'S10 get_formatted: last_site never updated': [("                last_site, count = site, 0", "                count = 0")],
 'S11 to_string: joined with a blank': [("        return '\\n'.join(lines)\n\n    @classmethod\n    def from_string", "        return ' '.join(lines)\n\n    @classmethod\n    def from_string")],
 'S12 ExceptionInfo.get_formatted: exception line first': [("return ''.join([tb_str, self.get_formatted_exception_only()])", "return ''.join([self.get_formatted_exception_only(), tb_str])")],
 'S13 _some_str: other placeholder': [("    return '<exception str() failed>'  # as the traceback module prints it", "    return '<unprintable object>'")],
 'S14 format_exception_only: module and name joined with a colon': [("        stype = smod + '.' + stype", "        stype = smod + ':' + stype")],
 'S15 format_exception_only: "builtin" misspelt in the tuple': [('''    if smod not in ("__main__", "builtins"):''', '''    if smod not in ("__main__", "builtin"):''')],
 'H9 _some_str: the placeholder returned from the handler': [("    except Exception:\n        pass\n    return '<exception str() failed>'  # as the traceback module prints it", "    except Exception:\n        return '<exception str() failed>'")],
 'H10 format_exception_only: f-string instead of +': [("        stype = smod + '.' + stype", "        stype = f'{smod}.{stype}'")],
 'H1 to_string: frame line as an f-string': [(
  """            lines.append('  File "{}", line {}, in {}'.format(frame['filepath'],
                                                           frame['lineno'],
                                                           frame['funcname']))""",
  """            lines.append(f'  File "{frame["filepath"]}", line {frame["lineno"]}, in {frame["funcname"]}')""")],
 'H2 to_string: exception line built in a local, one append': [(
  "        if self.exc_msg:\n            lines.append(f'{self.exc_type}: {self.exc_msg}')\n        else:\n            lines.append(f'{self.exc_type}')\n",
  "        exc_line = f'{self.exc_type}'\n        if self.exc_msg:\n            exc_line += ': ' + self.exc_msg\n        lines.append(exc_line)\n")],
 'H3 get_formatted: operands swapped, tuple assignments split, count = count + 1': [
  ("        last_site, count = None, 0\n        for f in self.frames:", "        last_site = None\n        count = 0\n        for f in self.frames:"),
  ("            if site != last_site:\n                ret += _repeated_line_note(count)\n                last_site, count = site, 0\n            count += 1",
   "            if last_site != site:\n                ret = ret + _repeated_line_note(count)\n                count = 0\n                last_site = site\n            count = count + 1")],
 'H4 _repeated_line_note: test inverted, count not reassigned': [(
  "    if count <= 3:\n        return ''\n    count -= 3\n    return '  [Previous line repeated {} more time{}]\\n'.format(\n        count, 's' if count > 1 else '')",
  "    if count > 3:\n        extra = count - 3\n        return '  [Previous line repeated {} more time{}]\\n'.format(\n            extra, 's' if extra > 1 else '')\n    return ''")],
 'H5 tb_frame_str: f-strings, head in a local': [(
  """        ret = '  File "{}", line {}, in {}\\n'.format(self.module_path,
                                                 self.lineno,
                                                 self.func_name)
        if self.line:
            ret += f'    {str(self.line).strip()}\\n'
        return ret


class _DeferredLine""",
  """        head = f'  File "{self.module_path}", line {self.lineno}, in {self.func_name}'
        ret = head + '\\n'
        if self.line:
            text = str(self.line).strip()
            ret = ret + '    ' + text + '\\n'
        return ret


class _DeferredLine""")],
 'H6 get_formatted_exception_only: branches swapped': [(
  "        if not self.exc_msg:\n            # the interpreter prints the bare type for an empty message\n            return f'{self.exc_type}'\n        return f'{self.exc_type}: {self.exc_msg}'",
  "        if self.exc_msg:\n            return f'{self.exc_type}: {self.exc_msg}'\n        return f'{self.exc_type}'")],
 'H7 from_exc_info: isinstance test hoisted out of the membership test': [(
  "        if type_mod not in (\"__main__\", \"builtins\"):\n            if not isinstance(type_mod, str):\n                type_mod = '<unknown>'  # as the traceback module prints it\n            type_str = f'{type_mod}.{type_str}'",
  "        if not isinstance(type_mod, str):\n            type_mod = '<unknown>'\n        if type_mod not in (\"__main__\", \"builtins\"):\n            type_str = f'{type_mod}.{type_str}'")],
 'H8 ExceptionInfo.get_formatted: + instead of join': [("return ''.join([tb_str, self.get_formatted_exception_only()])", "return tb_str + self.get_formatted_exception_only()")],
}


def sh(cmd, **kw):
    return subprocess.run(cmd, shell=True, stdout=subprocess.PIPE, stderr=subprocess.STDOUT, text=True, **kw)


def quick():
    env = dict(os.environ, BOLTONS_REPO=CL, PYTHONPATH=os.path.join(VW, 'harness'), PYTHONDONTWRITEBYTECODE='1')
    p = subprocess.run(['/venv/bin/python', os.path.join(VW, 'harness/srctie_quick.py'), 'C16'], env=env, cwd=VW,
                       stdout=subprocess.PIPE, stderr=subprocess.DEVNULL, text=True, timeout=1500)
    line = [ln for ln in p.stdout.split('\n') if ln.startswith('{')]
    return json.loads(line[-1]) if line else {'error': p.stdout[-500:]}


def main(which):
    out = []
    jobs = []
    for kind in ('seeded', 'harmless'):
        for d in sorted(os.listdir(os.path.join(VW, kind)), key=lambda x: (x.split('-')[0], int(x.split('-')[1]))):
            if d.startswith('C16-'):
                jobs.append(('%s/%s' % (kind, d), 'patch', os.path.join(VW, kind, d, 'patch.diff')))
    for name, edits in OWN.items():
        jobs.append((name, 'edit', edits))
    for name, kind, what in jobs:
        if which and not any(name.startswith(w) for w in which):
            continue
        sh('git -C %s checkout -q -- . && git -C %s clean -fdq' % (CL, CL))
        if kind == 'patch':
            r = sh('git -C %s apply %s' % (CL, what))
            if r.returncode:
                out.append({'name': name, 'error': 'patch does not apply'})
                continue
        else:
            s = open(F).read()
            for a, b in what:
                if s.count(a) != 1:
                    print('EDIT DOES NOT MATCH', name, s.count(a))
                    s = None
                    break
                s = s.replace(a, b)
            if s is None:
                continue
            open(F, 'w').write(s)
        r = quick()
        r['name'] = name
        print(json.dumps({k: r.get(k) for k in ('name', 'tie_green', 'failed_theorems', 'not_translated', 'selftest_ok', 'wall_s', 'error')}), flush=True)
        out.append(r)
    sh('git -C %s checkout -q -- . && git -C %s clean -fdq' % (CL, CL))
    json.dump(out, open('/tmp/wt/TIE-C16/mut/results%s.json' % ('_' + '_'.join(w.replace('/', '_') for w in which) if which else ''), 'w'), indent=1)


main(sys.argv[1:])
