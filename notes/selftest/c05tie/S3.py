import sys; sys.path.insert(0,"/tmp/c05tie-mut"); from _ed import edit
edit([("""                    self.part_file.flush()
                    os.fsync(self.part_file.fileno())
""","""                    self.part_file.flush()
""")])
