import sys; sys.path.insert(0,"/tmp/c05tie-mut"); from _ed import edit
edit([("""        if os.path.lexists(self.dest_path):
            if not self.overwrite:
                raise OSError(errno.EEXIST,
                              \x27Overwrite disabled and file already exists\x27,
                              self.dest_path)
        if self.overwrite_part and os.path.lexists(self.part_path):
            os.unlink(self.part_path)
        self._open_part_file()
""","""        if self.overwrite_part and os.path.lexists(self.part_path):
            os.unlink(self.part_path)
        self._open_part_file()
        if os.path.lexists(self.dest_path):
            if not self.overwrite:
                raise OSError(errno.EEXIST,
                              \x27Overwrite disabled and file already exists\x27,
                              self.dest_path)
""")])
