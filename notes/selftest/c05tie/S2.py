import sys; sys.path.insert(0,"/tmp/c05tie-mut"); from _ed import edit
edit([("""            os.link(src, dst)
            os.unlink(src)
        return


_atomic_rename""","""            os.rename(src, dst)
        return


_atomic_rename""")])
