import sys; sys.path.insert(0,"/tmp/c05tie-mut"); from _ed import edit
edit([("""        if self.rm_part_on_exc:
            try:
                os.unlink(self.part_path)
            except Exception:
                pass  # avoid masking original error""","""        if not self.rm_part_on_exc:
            return
        try:
            os.unlink(self.part_path)
        except Exception:
            return""")])
