#!/bin/bash
# tiemut.sh <label> <patch.diff | edit.py>   apply to the scratch boltons tree, run the tie-only check, revert
wt=/tmp/wt/TIE-C05
git -C $wt checkout -q -- . ; git -C $wt clean -fdq
case "$2" in
  *.diff) git -C $wt apply "$2" || { echo "$1: PATCH DOES NOT APPLY"; exit 0; } ;;
  *.py) (cd $wt && /venv/bin/python "$2") || { echo "$1: EDIT FAILED"; exit 0; } ;;
esac
cd /tmp/vw/TIE-C05/harness && echo "$1 $(BOLTONS_REPO=$wt timeout 900 /venv/bin/python srctie_quick.py C05 2>/dev/null | tail -1)"
git -C $wt checkout -q -- . ; git -C $wt clean -fdq
