import sys; sys.path.insert(0,"/tmp/c05tie-mut"); from _ed import edit
edit([("if ose.errno != errno.ENOENT:","if ose.errno == errno.ENOENT:")])
