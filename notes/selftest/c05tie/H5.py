import sys; sys.path.insert(0,"/tmp/c05tie-mut"); from _ed import edit
edit([("""        self.part_file = None
        fd = os.open(self.part_path, self.open_flags, file_perms)""","""        self.part_file = None
        flags_to_use = self.open_flags
        fd = os.open(self.part_path, flags_to_use, file_perms)"""),("""                if self.part_file:
                    self.part_file.close()
                else:
                    os.close(fd)""","""                if self.part_file is None:
                    os.close(fd)
                else:
                    self.part_file.close()""")])
