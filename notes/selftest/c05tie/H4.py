import sys; sys.path.insert(0,"/tmp/c05tie-mut"); from _ed import edit
edit([("""        if overwrite:
            os.rename(src, dst)
        else:
            os.link(src, dst)
            os.unlink(src)
        return


_atomic_rename""","""        if not overwrite:
            os.link(src, dst)
            os.unlink(src)
            return
        os.rename(src, dst)


_atomic_rename""")])
