import sys; sys.path.insert(0,"/tmp/c05tie-mut"); from _ed import edit
edit([("file_perms = stat.S_IMODE(stat_res.st_mode)","file_perms = stat_res.st_mode & 0o777")])
