import sys; sys.path.insert(0,"/tmp/c05tie-mut"); from _ed import edit
edit([("""            if exc_type:
                return  # avoid masking original error
            raise  # could not save destination file""","""            if not exc_type:
                raise  # could not save destination file
            return"""),("""        if os.path.lexists(self.dest_path):
            if not self.overwrite:
                raise OSError(""","""        if os.path.lexists(self.dest_path) and not self.overwrite:
            if True:
                raise OSError(""")])
