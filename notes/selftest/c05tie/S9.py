import sys; sys.path.insert(0,"/tmp/c05tie-mut"); from _ed import edit
edit([("""            self._rm_part_on_exc()
            if exc_type:
                return  # avoid masking original error
            raise  # could not save destination file""","""            if exc_type:
                self._rm_part_on_exc()
                return  # avoid masking original error
            raise  # could not save destination file""")])
