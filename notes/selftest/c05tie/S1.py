import sys; sys.path.insert(0,"/tmp/c05tie-mut"); from _ed import edit
edit([("""                os.unlink(self.part_path)
            except Exception:
                pass""","""                os.unlink(self.part_path)
            except OSError:
                pass""")])
