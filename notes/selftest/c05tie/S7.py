import sys; sys.path.insert(0,"/tmp/c05tie-mut"); from _ed import edit
edit([("""        try:
            set_cloexec(fd)
            self.part_file = os.fdopen""","""        set_cloexec(fd)
        try:
            self.part_file = os.fdopen""")])
