import sys
def edit(pairs):
    p='boltons/fileutils.py'; s=open(p).read()
    for a,b in pairs:
        assert s.count(a)==1, (s.count(a), a)
        s=s.replace(a,b)
    open(p,'w').write(s)
