import sys; sys.path.insert(0,"/tmp/c05tie-mut"); from _ed import edit
edit([("""            finally:
                self._rm_part_on_exc()
            raise
        return""","""                self._rm_part_on_exc()
            finally:
                pass
            raise
        return""")])
