#!/bin/bash
# runvar.sh <pid> <name>... : apply each variant diff on the scratch boltons worktree and run the fast tie check
pid=$1; shift
for v in "$@"; do
  cd /tmp/wt/TIEROBUST && git checkout -q -- . && git apply /tmp/tierobust/var/$v.diff || { echo "$v: APPLY FAILED"; continue; }
  out=$(/tmp/tierobust/fast.sh $pid /tmp/wt/TIEROBUST 2>&1)
  tr=$(echo "$out" | grep -c "^translate ok"); st=$(echo "$out" | grep -c "^selftest ok"); rc=$(echo "$out" | grep "^build rc" )
  nt=$(echo "$out" | grep "^NOT TRANSLATED" | head -2 | cut -c1-160)
  errs=$(echo "$out" | grep -o "SrcTie.lean:[0-9]*" | sort -u | tr '\n' ' ')
  echo "$v: translate=$tr selftest=$st $rc  $nt  errors-at: $errs"
done
cd /tmp/wt/TIEROBUST && git checkout -q -- .
