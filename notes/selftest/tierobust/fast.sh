#!/bin/bash
# fast tie check: fast.sh <pid> <boltons repo> [nobuild]
# translate, self-test vs CPython, lake build BoltonsVerif.<pid>.SrcTie
V=/tmp/vw/TIEROBUST
cd $V
BOLTONS_REPO="$2" PYTHONPATH=$V/harness /venv/bin/python - "$1" <<'PY'
import sys, json
from bv import common
pid = sys.argv[1]
notes = []
common.ensure_repo_on_path()
ok, infos = common.srctie_regen(pid, notes)
for i in infos:
    if i.get('error'): print('NOT TRANSLATED', i['function'], i['error'])
    if i.get('prepass') or i.get('clsprep'): print('prep', i['function'], i.get('prepass'), i.get('clsprep'))
print('translate ok' if ok else 'TRANSLATE BROKEN')
if ok:
    ok2, rep = common.srctie_selftest(pid, 0, notes)
    print('selftest ok' if ok2 else 'SELFTEST BROKEN')
for n in notes: print('note:', n[:600])
PY
[ "$3" = nobuild ] && exit 0
cd $V/lean && flock .build.lock lake build BoltonsVerif.$1.SrcTie 2>&1 | grep -v "^⚠\|^✔\|warning:\|^Build completed\|linter\|^  *$" | head -${LINES_OUT:-60}
echo "build rc=${PIPESTATUS[0]}"
