import sys, os, tempfile, types
sys.path.insert(0,'/repo')
import boltons.fileutils as fu
events=[]
class FileProxy:
    def __init__(self, f): object.__setattr__(self,'_f',f)
    def __getattr__(self, name):
        a=getattr(self._f,name)
        if callable(a) and name in ('write','flush','close','fileno','writelines'):
            def w(*args,**kw):
                events.append(('file.'+name,)+tuple(len(x) if isinstance(x,(bytes,str)) else x for x in args))
                return a(*args,**kw)
            return w
        return a
    def __enter__(self): return self
    def __exit__(self,*a): return self._f.__exit__(*a)
class OsProxy(types.ModuleType):
    def __init__(self):
        super().__init__('os')
    def __getattr__(self, name):
        a=getattr(os,name)
        if name in ('open','fdopen','rename','link','unlink','fsync','chmod','stat','replace'):
            def w(*args,**kw):
                events.append(('os.'+name,)+tuple(os.path.basename(x) if isinstance(x,str) else x for x in args))
                r=a(*args,**kw)
                if name=='fdopen': r=FileProxy(r)
                return r
            return w
        return a
fu.os=OsProxy()
d=tempfile.mkdtemp()
p=os.path.join(d,'dest.txt')
with fu.atomic_save(p) as f:
    f.write(b'hello'); f.write(b'world')
print(events); events.clear()
with fu.atomic_save(p, overwrite=False) as f: pass
