import sys, itertools, unicodedata
sys.path.insert(0,'/repo')
from boltons.urlutils import URL, URLParseError, quote_path_part, quote_query_part, quote_fragment_part, quote_userinfo_part, unquote, find_all_links
chars=[chr(i) for i in range(0,128)]+['é','é','é','K',';','日','\U0001f600','\x80','\xff',' ']
def build(comp, text):
    u=URL.from_parts(scheme='http', host='example.com', port=8080, path_parts=('', 'p'), query_params=[('k','v')], fragment='f', username='u', password='pw')
    if comp=='user': u.username=text
    elif comp=='pass': u.password=text
    elif comp=='seg': u.path_parts=('', text, 'z')
    elif comp=='qkey': u.query_params.clear(); u.query_params.add(text,'v')
    elif comp=='qval': u.query_params.clear(); u.query_params.add('k',text)
    elif comp=='frag': u.fragment=text
    return u
def get(u, comp):
    return {'user':lambda:u.username,'pass':lambda:u.password,'seg':lambda:u.path_parts[1] if len(u.path_parts)>1 else None,'qkey':lambda:u.query_params.keys(multi=True)[0] if u.query_params else None,'qval':lambda:u.query_params.values(multi=True)[0] if u.query_params else None,'frag':lambda:u.fragment}[comp]()
def others(u):
    return (u.scheme,u.host,u.port)
bad={}
for comp in ['user','pass','seg','qkey','qval','frag']:
    for c in chars:
        for text in (c, 'a'+c+'b', c+c):
            u=build(comp,text)
            try:
                t=u.to_text(full_quote=True)
                v=URL(t)
                got=get(v,comp)
                exp=unicodedata.normalize('NFC',text)
                ok = got==exp and others(v)==others(u) and len(v.path_parts)==3 and len(v.query_params)==1
                # fixed point
                t2=v.to_text(full_quote=True)
                fp = (t2==t)
            except Exception as e:
                ok=False; fp=None; got=repr(e)[:60]; t=None
            if not ok: bad.setdefault((comp,'roundtrip'),[]).append((text,t,got))
            elif not fp: bad.setdefault((comp,'fixedpoint'),[]).append((text,t,t2))
for k,v in bad.items():
    print(k, len(v), sorted(set(x[0][:1] if len(x[0])==1 else x[0][1:2] if x[0].startswith('a') else x[0][:1] for x in v))[:40])
# quote/unquote inverse and legal chars
import re
legal={'path':"A-Za-z0-9\\-._~!$&'()*+,;=:@%", 'query':"A-Za-z0-9\\-._~!$&'()*+,;=:@%/?", 'frag':"A-Za-z0-9\\-._~!$&'()*+,;=:@%/?", 'user':"A-Za-z0-9\\-._~!$&'()*+,;=%"}
fn={'path':quote_path_part,'query':quote_query_part,'frag':quote_fragment_part,'user':quote_userinfo_part}
b2=[]
for name,f in fn.items():
    for c in chars:
        for text in (c,'a'+c,'%'+c, c+'41'):
            q=f(text, full_quote=True)
            if not re.fullmatch('['+legal[name]+']*', q): b2.append((name,'illegal',text,q))
            if unquote(q)!=unicodedata.normalize('NFC',text): b2.append((name,'inv',text,q,unquote(q)))
print('quote/unquote bad', len(b2), b2[:5])
# totality
import random
random.seed(5)
alpha=list(':/?#[]@%.-_xn0Aa1 \t\n\x00é') 
exc={}
for _ in range(200000):
    s=''.join(random.choice(alpha) for _ in range(random.randint(0,12)))
    if random.random()<0.5: s='http://'+s
    try: URL(s)
    except URLParseError: pass
    except Exception as e:
        exc.setdefault(type(e).__name__+':'+str(e)[:40],[]).append(s)
    try: find_all_links('see '+s+' ok')
    except Exception as e:
        exc.setdefault('FAL '+type(e).__name__+':'+str(e)[:40],[]).append(s)
print({k:(len(v),min(v,key=len)) for k,v in exc.items()})
