import sys, io
sys.path.insert(0,'/repo')
def t(name, f):
    try: print(name, '->', f())
    except Exception as e: print(name, 'EXC', type(e).__name__, e)
from boltons.cacheutils import LRU, LRI, ThresholdCounter
c=LRU(max_size=2); c['a']=1; c|={'b':2,'c':3,'d':4}; t('lru ior', lambda:(dict(c), len(c), c._get_flattened_ll()))
c=LRU(max_size=3); c['a']=1;c['b']=2;c['c']=3; c['a']; 
def cp():
    before=(c._get_flattened_ll(), c.hit_count)
    d=c.copy()
    return before, (c._get_flattened_ll(), c.hit_count), d._get_flattened_ll(), d.max_size
t('lru copy', cp)
c=LRI(max_size=2, on_miss=lambda k:k*2); t('lri on_miss', lambda:(c[1],c[2],c[3],dict(c),c.hit_count,c.miss_count,c.soft_miss_count))
c=LRI(max_size=2, on_miss=lambda k:k*2); t('lri copy on_miss', lambda:(c.copy().on_miss))
c=LRU(max_size=2); t('lru setdefault counts', lambda:(c.setdefault('a',1), c.setdefault('a',2), c.hit_count,c.miss_count,c.soft_miss_count))
c=LRU(max_size=2); c['a']=1; t('lru eq dict', lambda:(c=={'a':1}, {'a':1}==c, c==LRU(max_size=5,values={'a':1})))
t = t
tc=ThresholdCounter(0.1); tc.update({'a':3}); t('tc update mapping', lambda:(tc.items(), tc.total))
tc=ThresholdCounter(0.1); tc.update([], b=2); t('tc update kw', lambda:(tc.items(), tc.total))
tc=ThresholdCounter(0.1); tc.update('aab'); t('tc most_common()', lambda:(tc.most_common(), tc.most_common(1), tc.most_common(5)))
from boltons.urlutils import URL, find_all_links, parse_url
u=URL('http://a/'); u.query_params['k;x']='v;w'; t('url ; in query', lambda:(u.to_text(full_quote=True), URL(u.to_text(full_quote=True)).query_params.items(multi=True)))
t('xn--a.com', lambda: URL('http://xn--a.com/'))
t('find_all_links xn', lambda: find_all_links('see http://xn--a.com/ ok'))
u=URL('http://a/'); u.query_params['k']=''; t('empty qval', lambda:(u.to_text(True), URL(u.to_text(True)).query_params.items(multi=True)))
u=URL.from_parts(scheme='http',host='h',username='',password='pw'); t('empty user', lambda:u.to_text(True))
t('frag newline', lambda:(URL('http://a/#x%0Ay').to_text(), URL(URL('http://a/#x%0Ay').to_text()).to_text()))
t('port 0 / huge', lambda:(URL('http://a:0/').to_text(), URL('http://a:99999999/').port, URL('http://a:-1/').port))
t('port unicode digits', lambda:(URL('http://a:\u0661\u0662/').port))
t('bad ipv6', lambda:URL('http://[::zz]/'))
t('nav', lambda:(URL('http://a/b/c/d;p?q').navigate('../../../g').to_text(), URL('http://a/b/c/d;p?q').navigate('?y').to_text(),URL('http://a/b/c/d;p?q').navigate('').to_text(), URL('http://a/b/c/d;p?q#f').navigate('#s').to_text()))
t('nav nopath', lambda:(URL('http://a').navigate('g').to_text(), URL('http://a?x=1').navigate('?y=2').to_text(), URL('http://a').navigate('').to_text()))
t('nav //', lambda:(URL('http://a/b').navigate('//g/h').to_text(), URL('http://a/b').navigate('g//h/./').to_text(), URL('http://a/b?x=1').navigate('g').to_text(),URL('http://a/b?x=1').navigate('/g').to_text()))
from boltons.iterutils import split, chunked, windowed, backoff
t('split maxsplit=0', lambda:(split([1,None,2], maxsplit=0), split('abc', maxsplit=0), split([], maxsplit=0), split([1,None,None,2,None,3],None,1)))
from boltons.queueutils import SortedPriorityQueue, HeapPriorityQueue
from boltons.listutils import BarrelList
b=BarrelList(); b._size_factor=4
import bisect, random
random.seed(0)
ok=True
for i in range(300):
    x=random.randint(0,1000); bisect.insort(b,x)
    if list(b)!=sorted(b): ok=False; break
t('barrel insort small factor', lambda:(ok,i,len(b.lists)))
b=BarrelList()
for i in range(60000): bisect.insort(b,i)
t('barrel big ascending', lambda:(list(b)==sorted(b), len(b.lists), list(b)[:3]))
from boltons.setutils import IndexedSet
s=IndexedSet(range(10)); s.remove(2); t('iset slice after remove', lambda:(list(s[1:4]), list(s)[1:4]))
s=IndexedSet([1]); s.update([2,3],[4]); t('iset update multi', lambda:list(s))
s=IndexedSet(range(6)); s.intersection_update([1,2,3],[2,3,4]); t('iset intersection_update 2', lambda:list(s))
s=IndexedSet(range(6)); s.difference_update([1],[2]); t('iset difference_update 2', lambda:list(s))
s=IndexedSet(range(100)); s.remove(5); s.remove(97); s.remove(98); s.remove(99); s.add('x'); t('iset stale dead', lambda:(s[-1], s[96]))
