import sys, itertools, socket
sys.path.insert(0,'/repo')
from boltons.socketutils import BufferedSocket, ConnectionClosed, MessageTooLong, Timeout, NetstringSocket
class FakeSock:
    def __init__(self, script): self.script=list(script); self.cur=b''; self.sent=[]
    def gettimeout(self): return None
    def settimeout(self,t): pass
    def recv(self,n):
        if not self.cur:
            if not self.script: return b''
            ev=self.script.pop(0)
            if ev=='T': raise socket.timeout()
            self.cur=ev
        r,self.cur=self.cur[:n],self.cur[n:]
        return r
    def send(self,d): raise NotImplementedError
def compositions(bs):
    n=len(bs)
    if n==0: yield []; return
    for mask in range(2**(n-1)):
        parts=[];start=0
        for i in range(n-1):
            if mask>>i&1: parts.append(bs[start:i+1]); start=i+1
        parts.append(bs[start:]); yield parts
def run(script, calls, recvsize, maxsize):
    fs=FakeSock(script); b=BufferedSocket(fs, timeout=None, maxsize=maxsize, recvsize=recvsize)
    out=[]
    for c in calls:
        while True:
            try:
                if c[0]=='until': r=b.recv_until(c[1], with_delimiter=c[2])
                elif c[0]=='size': r=b.recv_size(c[1])
                elif c[0]=='peek': r=b.peek(c[1])
                elif c[0]=='close': r=b.recv_close()
                out.append(('ok',r)); break
            except Timeout: continue
            except ConnectionClosed: out.append(('closed',)); break
            except MessageTooLong: out.append(('toolong',)); break
    # conservation
    rest=b.rbuf+fs.cur+b''.join(x for x in fs.script if x!='T')
    return out, rest
import random
random.seed(0)
bad=[];n=0
alpha=[b'a',b'\r',b'\n']
for L in range(0,8):
    for t in itertools.product(alpha, repeat=L):
        stream=b''.join(t)
        for calls in ([('until',b'\r\n',False),('until',b'\r\n',True)], [('size',2),('until',b'\n',False)], [('peek',3),('size',1),('until',b'\r\n',False)], [('until',b'\n',False),('close',)]):
            for maxsize in (3,100):
                ref=run([stream] if stream else [], calls, 100, maxsize)
                for comp in compositions(stream):
                    for recvsize in (1,100):
                        # insert timeouts
                        script=[]
                        for ch in comp:
                            if random.random()<0.3: script.append('T')
                            script.append(ch)
                        got=run(script, calls, recvsize, maxsize)
                        n+=1
                        if got[0]!=ref[0]:
                            bad.append((stream,calls,maxsize,comp,recvsize,ref[0],got[0]))
print('C12 cases',n,'bad',len(bad))
for b in bad[:8]: print(b)
