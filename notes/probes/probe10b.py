import sys, itertools, unicodedata
sys.path.insert(0,'/repo')
from boltons.urlutils import URL, URLParseError, quote_path_part, quote_query_part, quote_fragment_part, quote_userinfo_part, unquote, find_all_links
chars=[chr(i) for i in range(0,128)]+['é','é','é','K',';','日','\U0001f600','\x80','\xff',' ']
def build(comp, text):
    u=URL.from_parts(scheme='http', host='example.com', port=8080, path_parts=('', 'p'), query_params=[('k','v')], fragment='f', username='u', password='pw')
    if comp=='user': u.username=text
    elif comp=='pass': u.password=text
    elif comp=='seg': u.path_parts=('', text, 'z')
    elif comp=='qkey': u.query_params.clear(); u.query_params.add(text,'v')
    elif comp=='qval': u.query_params.clear(); u.query_params.add('k',text)
    elif comp=='frag': u.fragment=text
    return u
def get(u, comp):
    return {'user':lambda:u.username,'pass':lambda:u.password,'seg':lambda:u.path_parts[1] if len(u.path_parts)>1 else None,'qkey':lambda:u.query_params.keys(multi=True)[0] if u.query_params else None,'qval':lambda:u.query_params.values(multi=True)[0] if u.query_params else None,'frag':lambda:u.fragment}[comp]()
def others(u):
    return (u.scheme,u.host,u.port)
bad={}
for comp in ['user','pass','seg','qkey','qval','frag']:
    for c in chars:
        for text in (c, 'a'+c+'b', c+c):
            u=build(comp,text)
            try:
                t=u.to_text(full_quote=True)
                v=URL(t)
                got=get(v,comp)
                exp=unicodedata.normalize('NFC',text)
                ok = got==exp and others(v)==others(u) and len(v.path_parts)==len(u.path_parts) and len(v.query_params.items(multi=True))==1
                # fixed point
                t2=v.to_text(full_quote=True)
                fp = (t2==t)
            except Exception as e:
                ok=False; fp=None; got=repr(e)[:60]; t=None
            if not ok: bad.setdefault((comp,'roundtrip'),[]).append((text,t,got))
            elif not fp: bad.setdefault((comp,'fixedpoint'),[]).append((text,t,t2))
for k,v in bad.items():
    print(k, len(v), [(x[0],x[1],x[2]) for x in v][:8])
