import sys, itertools, socket, random
sys.path.insert(0,'/repo')
exec(open('/tmp/scratch/probe7.py').read().split("import random\nrandom.seed(0)")[0])
random.seed(1)
bad=[];n=0
alpha=[b'a',b'b']
for L in range(0,9):
    for t in itertools.product(alpha, repeat=L):
        stream=b''.join(t)
        for delim in (b'a',b'ab',b'aa',b'aba',b'bb'):
          for wd in (False,True):
            calls=[('until',delim,wd),('until',delim,wd),('size',1),('until',delim,wd)]
            for maxsize in (1,2,3,4,6,100):
                ref=run([stream] if stream else [], calls, 100, maxsize)
                comps=list(compositions(stream))
                if len(comps)>24: comps=random.sample(comps,24)
                for comp in comps:
                    for recvsize in (1,2,3):
                        script=[]
                        for ch in comp:
                            if random.random()<0.3: script.append('T')
                            script.append(ch)
                        got=run(script, calls, recvsize, maxsize)
                        n+=1
                        if got[0]!=ref[0]:
                            bad.append((stream,delim,wd,maxsize,comp,recvsize,ref[0],got[0]))
print('C12b cases',n,'bad',len(bad))
bad.sort(key=lambda b:(len(b[0]),len(b[4])))
for b in bad[:8]: print(b)
