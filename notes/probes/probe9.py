import sys, random, io
sys.path.insert(0,'/repo')
from boltons.setutils import IndexedSet
random.seed(3)
fails={}
for trial in range(3000):
    n=random.choice([5,20,60,120])
    s=IndexedSet(range(n)); ref=list(range(n)); nxt=n; hist=[]
    for step in range(random.randint(5,80)):
        op=random.choice(['remove','add','pop','popi','getitem','index','readd'])
        try:
            if op=='remove' and ref:
                x=random.choice(ref); hist.append(('remove',x)); s.remove(x); ref.remove(x)
            elif op=='add':
                hist.append(('add',nxt)); s.add(nxt); ref.append(nxt); nxt+=1
            elif op=='readd' and ref:
                x=random.choice(ref); s.add(x)
            elif op=='pop' and ref:
                hist.append(('pop',)); a=s.pop(); b=ref.pop(); assert a==b,(a,b)
            elif op=='popi' and ref:
                i=random.randrange(-len(ref),len(ref)); hist.append(('popi',i)); a=s.pop(i); b=ref.pop(i); assert a==b,('popi',a,b)
            elif op=='getitem' and ref:
                i=random.randrange(-len(ref),len(ref)); a=s[i]; assert a==ref[i],('getitem',i,a,ref[i])
            elif op=='index' and ref:
                x=random.choice(ref); a=s.index(x); assert a==ref.index(x),('index',x,a,ref.index(x))
            assert list(s)==ref and len(s)==len(ref)
        except Exception as e:
            key=(op,type(e).__name__)
            if key not in fails or len(hist)<len(fails[key][0]): fails[key]=(list(hist),repr(e)[:100],n)
            break
print({k:(len(v[0]),v[1],v[2]) for k,v in fails.items()})
k=min(fails,key=lambda k:len(fails[k][0])) if fails else None
if k: print(k, fails[k])
from boltons.ioutils import SpooledStringIO
s=SpooledStringIO(); s.write('ab\ncd\n'); s.seek(1)
print('iter:', [l for l in s], s.tell()); s.seek(1); print(list(iter(s.readline,'')), s.tell())
s=SpooledStringIO(); s.write('héé\nwö\n'); s.seek(0); print(next(s), s.tell(), s.read(1), s.tell())
s=SpooledStringIO(); s.write('ab\ncd\n'); s.seek(2); print(s.readlines(), s.tell()); s.seek(2); x=s.getvalue(); print(s.tell(), s.read())
s=SpooledStringIO(); s.write('ab\ncd\n'); s.seek(2); print(s==s, s.tell())
