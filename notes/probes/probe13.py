import sys, itertools, io, json, random
sys.path.insert(0,'/repo')
from boltons.tbutils import ParsedException
from boltons.jsonutils import JSONLIterator, reverse_iter_lines
files=['a.py','/x y/é.py','<stdin>','C:\\d\\f.py']
funcs=['<module>','f','<lambda>']
srcs=[None,'foo()','x = "a: b"','raise E("File \\"q\\", line 3, in z")']
types=['ValueError','mod.Err','E']
msgs=['','x','a: b','l1\nl2','l1\n  ind: x\n','x\n\ny']
bad={};n=0
for nf in range(0,3):
    for frames in itertools.product(itertools.product(files[:2]+files[2:3],funcs[:2],srcs), repeat=nf):
        for ty in types[:2]:
            for msg in msgs:
                lines=['Traceback (most recent call last):']
                for i,(fi,fu,sr) in enumerate(frames):
                    lines.append('  File "%s", line %d, in %s'%(fi,10+i,fu))
                    if sr is not None: lines.append('    '+sr)
                lines.append(ty+(': '+msg if msg else ''))
                text='\n'.join(lines)
                n+=1
                try:
                    pe=ParsedException.from_string(text)
                    ok = pe.to_string()==text
                    ok2 = (pe.exc_type==ty and pe.exc_msg==msg and len(pe.frames)==nf and all(f['filepath']==fr[0] and f['lineno']==str(10+i) and f['funcname']==fr[1] and f['source_line']==(fr[2] or '') for i,(f,fr) in enumerate(zip(pe.frames,frames))))
                except Exception as e:
                    ok=ok2=False; pe=repr(e)
                if not ok: bad.setdefault('rt',[]).append((text,pe if isinstance(pe,str) else pe.to_string()))
                elif not ok2: bad.setdefault('fields',[]).append((text,pe.to_dict()))
print('C16',n,{k:len(v) for k,v in bad.items()})
for k,v in bad.items():
    for x in v[:3]: print(k, repr(x)[:400])
# JSONL
random.seed(4)
bad=[]
for t in range(3000):
    lines=[]
    for _ in range(random.randint(0,6)):
        lines.append(random.choice(['{"a": 1}','[1,2]','3','','   ','{bad','"é日"','  {"b":2}']))
    content='\n'.join(lines)+random.choice(['','\n','\n\n'])
    for bs in (1,2,3,5,4096):
        try:
            fwd=list(JSONLIterator(io.BytesIO(content.encode()), ignore_errors=True))
            it=JSONLIterator(io.BytesIO(content.encode()), ignore_errors=True, reverse=True); it._blocksize=bs
            it._line_iter=reverse_iter_lines(it._file_obj, blocksize=bs, preseek=False)
            rev=list(it)
        except Exception as e:
            bad.append((content,bs,repr(e))); continue
        if rev!=fwd[::-1]: bad.append((content,bs,fwd,rev))
print('jsonl bad',len(bad)); print(min(bad,key=lambda b:len(b[0])) if bad else None)
