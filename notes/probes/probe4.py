import sys, itertools, subprocess, shlex
sys.path.insert(0,'/repo')
from boltons.urlutils import URL
from boltons.iterutils import chunk_ranges, windowed, chunked, split, strip, lstrip, rstrip, unique, redundant
# ---- C07: RFC 5.2 reference
def remove_dot_segments(path):
    out=''
    inp=path
    while inp:
        if inp.startswith('../'): inp=inp[3:]
        elif inp.startswith('./'): inp=inp[2:]
        elif inp.startswith('/./'): inp='/'+inp[3:]
        elif inp=='/.': inp='/'
        elif inp.startswith('/../'):
            inp='/'+inp[4:]; out=out[:out.rfind('/')] if '/' in out else ''
        elif inp=='/..':
            inp='/'; out=out[:out.rfind('/')] if '/' in out else ''
        elif inp in ('.','..'): inp=''
        else:
            i=inp.find('/',1)
            seg=inp if i==-1 else inp[:i]
            out+=seg; inp=inp[len(seg):]
    return out
def rfc(base, ref):
    # base: (scheme, auth, path, query, frag) ; ref: (path, query|None, frag|None) no scheme/authority
    bs,ba,bp,bq,bf=base; rp,rq,rf=ref
    if rp=='':
        tp=bp; tq = rq if rq is not None else bq
    else:
        if rp.startswith('/'): tp=remove_dot_segments(rp)
        else:
            if ba is not None and bp=='': m='/'+rp
            else: m=bp[:bp.rfind('/')+1]+rp
            tp=remove_dot_segments(m)
        tq=rq
    r=bs+':'
    if ba is not None: r+='//'+ba
    r+=tp
    if tq is not None: r+='?'+tq
    if rf is not None: r+='#'+rf
    return r
def norm_empty(u):
    # identify empty path under authority with '/'
    import re
    m=re.match(r'^([a-z]+://[^/?#]*)(.*)$',u)
    if m and (m.group(2)=='' or m.group(2)[0] in '?#'): return m.group(1)+'/'+m.group(2)
    return u
bases=[('http','a','/b/c/d;p','q',None),('http','a','','x=1',None),('http','a','/',None,'f'),('http','u:p@a:81','/b/c/',None,None),('http','a','/b',None,None)]
segs=['.','..','','g','h;x']
bad={}
n=0
for b in bases:
    btxt=b[0]+'://'+b[1]+b[2]+('?'+b[3] if b[3] is not None else '')+('#'+b[4] if b[4] is not None else '')
    for L in range(0,4):
        for ss in itertools.product(segs, repeat=L):
            for lead in ('','/'):
                rp=lead+'/'.join(ss)
                if L==0 and lead=='': rp=''
                if rp.startswith('//'): continue
                for rq in (None,'','y=1'):
                    for rf in (None,'s'):
                        rtxt=rp+('?'+rq if rq is not None else '')+('#'+rf if rf is not None else '')
                        # first segment with ':' none here
                        exp=rfc(b,(rp,rq,rf))
                        try:
                            got=URL(btxt).navigate(rtxt).to_text()
                        except Exception as e:
                            got='EXC %r'%e
                        n+=1
                        if norm_empty(got)!=norm_empty(exp):
                            key=(rq=='' , rf is None and b[4] is not None, 'other')
                            bad.setdefault((rq=='' ), []).append((btxt,rtxt,exp,got))
print('C07 cases',n,'bad', {k:len(v) for k,v in bad.items()})
for k,v in bad.items():
    for x in v[:6]: print('  ',k,x)
