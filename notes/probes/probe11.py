import sys, random, io, copy
sys.path.insert(0,'/repo')
from boltons.iterutils import remap, research, get_path
random.seed(11)
def gen(depth, pool):
    r=random.random()
    if depth<=0 or r<0.3: return random.choice([0,1,2,'s',None,3.5])
    if pool and r<0.4: return random.choice(pool)
    kind=random.choice(['list','tuple','dict','set','fset'])
    n=random.randint(0,3)
    if kind=='list': v=[gen(depth-1,pool) for _ in range(n)]
    elif kind=='tuple': v=tuple(gen(depth-1,pool) for _ in range(n))
    elif kind=='dict': v={random.choice(['a','b','c',1,2]):gen(depth-1,pool) for _ in range(n)}
    elif kind=='set': v=set(random.choice([0,1,2,'s',(1,2),frozenset([1])]) for _ in range(n))
    else: v=frozenset(random.choice([0,1,2,'s',(1,),()]) for _ in range(n))
    if kind in('list','dict','tuple'): pool.append(v)
    return v
def rec(v, visit, path=(), memo=None):
    # returns rebuilt value (bottom-up), visit applied to items
    if isinstance(v,(str,bytes)) or not isinstance(v,(list,tuple,dict,set,frozenset)): return v
    if id(v) in memo: return memo[id(v)]
    items = list(v.items()) if isinstance(v,dict) else list(enumerate(v))
    new=[]
    for k,c in items:
        nc=rec(c, visit, path+(k,), memo)
        r=visit(path,k,nc)
        if r is False: continue
        if r is True: r=(k,nc)
        new.append(r)
    if isinstance(v,dict): out=dict(new)
    elif isinstance(v,list): out=[x for _,x in new]
    elif isinstance(v,tuple): out=tuple(x for _,x in new)
    elif isinstance(v,set): out=set(x for _,x in new)
    else: out=frozenset(x for _,x in new)
    memo[id(v)]=out
    return out
def typed(v):
    if isinstance(v,dict): return ('d',[(typed(k),typed(x)) for k,x in v.items()])
    if isinstance(v,list): return ('l',[typed(x) for x in v])
    if isinstance(v,tuple): return ('t',[typed(x) for x in v])
    if isinstance(v,set): return ('s',sorted(map(repr,v)))
    if isinstance(v,frozenset): return ('f',sorted(map(repr,v)))
    return repr(v)
visits=[lambda p,k,v: True, lambda p,k,v: v is not None, lambda p,k,v: (k, v+1 if isinstance(v,int) and not isinstance(v,bool) else v), lambda p,k,v: len(p)<2 or not isinstance(v,str)]
bad=[];n=0
for t in range(20000):
    pool=[]
    root=gen(4,pool)
    if not isinstance(root,(list,tuple,dict,set,frozenset)): continue
    before=typed(root)
    for vi,visit in enumerate(visits):
        try:
            a=remap(root, visit=visit)
            b=rec(root, visit, (), {})
        except Exception as e:
            bad.append(('exc',root,vi,repr(e))); continue
        n+=1
        if typed(a)!=typed(b): bad.append(('diff',root,vi,a,b))
    if typed(root)!=before: bad.append(('mutated',root))
    for p,v in research(root, lambda p,k,v: True):
        try:
            if p[0] is None: p=p[1:]
            g=get_path(root,p)
            if g is not v and g!=v: bad.append(('path',root,p,v,g))
        except Exception as e: bad.append(('pathexc',root,p,repr(e)))
print('remap',n,'bad',len(bad))
seen=set()
for b in bad:
    if b[0] not in seen: seen.add(b[0]); print(str(b)[:400])
# cycles terminate
l=[1]; l.append(l); print('cycle', repr(remap(l))[:60])
d={}; d['me']=d; print('cycle dict', repr(remap(d))[:60])
