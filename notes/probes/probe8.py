import sys, itertools, inspect
sys.path.insert(0,'/repo')
from boltons.funcutils import wraps
def mk(npos, ndef, va, kwo, vk, ann=False, is_async=False):
    parts=[]
    names=['a','b','c'][:npos]
    for i,nm in enumerate(names):
        p=nm+(': int' if ann else '')
        if i>=npos-ndef: p+='=%d'%(10+i)
        parts.append(p)
    if va: parts.append('*args')
    elif kwo: parts.append('*')
    for nm,hasd in kwo:
        parts.append(nm+('=%d'%(20 if nm=='k' else 21) if hasd else ''))
    if vk: parts.append('**kw')
    src='%sdef f(%s):\n    return dict(locals())\n'%('async ' if is_async else '', ', '.join(parts))
    d={}; exec(src,d); return d['f'], src
bad=[];n=0
for npos in range(0,4):
  for ndef in range(0,npos+1):
    for va in (False,True):
      for kwo in ([],[('k',False)],[('k',True)],[('k',True),('m',False)],[('k',False),('m',True)]):
        for vk in (False,True):
          for ann in (False,True):
            f,src=mk(npos,ndef,va,kwo,vk,ann)
            def wrapper(*a,**k): return f(*a,**k)
            try: w=wraps(f)(wrapper)
            except Exception as e: bad.append(('wraps exc',src,repr(e))); continue
            n+=1
            s1=inspect.signature(f); s2=inspect.signature(w, follow_wrapped=False)
            if str(s1)!=str(s2): bad.append(('sig',src,str(s2)))
            if (w.__name__,w.__doc__,w.__module__,w.__wrapped__)!=(f.__name__,f.__doc__,f.__module__,f): bad.append(('meta',src))
            names=['a','b','c'][:npos]+[k for k,_ in kwo]
            for np_ in range(0,npos+2):
                for r in range(0,len(names)+1):
                    for ks in itertools.combinations(names+['zz'], r):
                        args=tuple(range(np_)); kws={k:100+i for i,k in enumerate(ks)}
                        try: e1=('ok',f(*args,**kws))
                        except TypeError: e1=('te',)
                        try: e2=('ok',w(*args,**kws))
                        except TypeError: e2=('te',)
                        if e1!=e2: bad.append(('call',src,args,kws,e1,e2))
print('C13 sigs',n,'bad',len(bad)); 
for b in bad[:6]: print(b)
# injected/expected
def f(a, b=2, c=3): return (a,b,c)
w=wraps(f, injected=['b'])(lambda a, c=3: f(a, 99, c))
print(inspect.signature(w, follow_wrapped=False))
w=wraps(f, expected=['z'])(lambda a,b=2,c=3,z=None: (f(a,b,c),z))
print('expected nodefault:', inspect.signature(w, follow_wrapped=False))
w=wraps(f, expected=[('z',5)])(lambda a,b=2,c=3,z=None: (f(a,b,c),z))
print('expected default:', inspect.signature(w, follow_wrapped=False), w(1))
def g(a, *, k=1): return a,k
w=wraps(g, expected=['z'])(lambda a,z,k=1: (g(a,k=k),z))
print(inspect.signature(w, follow_wrapped=False))
def h(a=1, *args, k, **kw): return a,args,k,kw
w=wraps(h, injected=['k'])(lambda *a, **kw: h(*a, k=0, **kw))
print(inspect.signature(w, follow_wrapped=False), w(5,6))
