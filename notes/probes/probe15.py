import sys, os, tempfile, types, errno, stat
sys.path.insert(0,'/repo')
import boltons.fileutils as fu
class Inject(Exception): pass
def run(fail_at, cfg=None, body_raises=False, dest_exists=True):
    events=[]; counter=[0]
    def maybe_fail(name):
        counter[0]+=1
        events.append(name)
        if counter[0]==fail_at: raise OSError(errno.ENOSPC, 'injected at '+name)
    class FileProxy:
        def __init__(s,f): object.__setattr__(s,'_f',f)
        def __getattr__(s,name):
            a=getattr(s._f,name)
            if name in ('write','flush','close'):
                def w(*args,**kw):
                    if name=='close':
                        # real close must still happen to release fd
                        try: maybe_fail('file.close')
                        except OSError: s._f.close(); raise
                        return a(*args,**kw)
                    maybe_fail('file.'+name); return a(*args,**kw)
                return w
            return a
    class OsProxy(types.ModuleType):
        def __getattr__(s,name):
            a=getattr(os,name)
            if name in ('open','fdopen','rename','link','unlink','fsync','chmod','stat'):
                def w(*args,**kw):
                    maybe_fail('os.'+name)
                    r=a(*args,**kw)
                    return FileProxy(r) if name=='fdopen' else r
                return w
            return a
    d=tempfile.mkdtemp(); p=os.path.join(d,'dest.txt')
    if dest_exists:
        open(p,'wb').write(b'OLD'); os.chmod(p,0o640)
    fu.os=OsProxy('os')
    exc=None
    try:
        with fu.atomic_save(p, **(cfg or {})) as f:
            f.write(b'NEW')
            if body_raises: raise Inject()
    except BaseException as e:
        exc=type(e).__name__
    finally:
        fu.os=os
    listing=sorted(os.listdir(d))
    content=open(p,'rb').read() if os.path.exists(p) else None
    mode=oct(stat.S_IMODE(os.stat(p).st_mode)) if os.path.exists(p) else None
    return events, exc, listing, content, mode
ev,exc,ls,c,m=run(0)
print('nofault', ev, exc, ls, c, m)
for k in range(1,len(ev)+1):
    e2,exc,ls,c,m=run(k)
    flag = '' if (exc and c==b'OLD' and m=='0o640' and ls==['dest.txt']) else '   <-- VIOLATES C05'
    print(k, ev[k-1], exc, ls, c, m, flag)
print('body raises:', run(0, body_raises=True)[1:])
print('overwrite=False existing:', run(0, cfg={'overwrite':False})[1:])
