import sys, io, inspect
sys.path.insert(0,'/repo')
def t(name, f):
    try: print(name, '->', f())
    except Exception as e: print(name, 'EXC', type(e).__name__, e)
from boltons.setutils import IndexedSet
def f():
    s=IndexedSet([1]); s.update([2,3],[4]); return list(s)
t('iset update multi', f)
def f():
    s=IndexedSet(range(6)); s.intersection_update([1,2,3],[2,3,4]); return list(s)
t('iset intersection_update 2 (want [2,3])', f)
def f():
    s=IndexedSet(range(6)); s.difference_update([1],[2]); return list(s)
t('iset difference_update 2 (want [0,3,4,5])', f)
def f():
    s=IndexedSet(range(100)); s.remove(5); s.remove(97); s.remove(98); s.remove(99); s.add('x'); return (s[-1], s[96])
t('iset stale dead', f)
def f():
    s=IndexedSet(range(10)); return (list(s[::-1]), list(s[8:2:-2]), list(s[-3:]))
t('iset neg step', f)
def f():
    s=IndexedSet(range(10)); s.remove(0); return (s.index(5), s[4], s.pop(0), list(s), s.pop(-2), list(s))
t('iset idx', f)
t('iset symdiff', lambda: list(IndexedSet([1,2,3]).symmetric_difference([3,4])))
t('iset union order', lambda: list(IndexedSet([3,1]) | [2,1,5]))
t('iset rsub', lambda: {1,2,3} - IndexedSet([2]))
from boltons.funcutils import wraps
def orig(a=1): return a
def w(*a, **k): return orig(*a, **k)
t('wraps expected nodefault after default', lambda: inspect.signature(wraps(orig, expected=['b'])(lambda a=1,b=None:(a,b))))
def orig2(a, b=2, *args, c, d=4, **kw): return (a,b,args,c,d,kw)
g=wraps(orig2)(lambda *a, **k: orig2(*a, **k))
t('wraps sig', lambda: (inspect.signature(g, follow_wrapped=False), g(1,c=3), g(1,2,3,c=5,e=6)))
g=wraps(orig2, injected=['b'])(lambda *a, **k: orig2(*a, **k))
t('wraps injected b', lambda: (inspect.signature(g, follow_wrapped=False)))
from boltons.tbutils import ParsedException
tb='Traceback (most recent call last):\n  File "a.py", line 1, in <module>\nValueError: x'
t('pe lastframe nosrc', lambda: ParsedException.from_string(tb).to_string()==tb)
tb='Traceback (most recent call last):\nValueError: x'
t('pe zero frames', lambda: ParsedException.from_string(tb).to_string()==tb)
tb='Traceback (most recent call last):\n  File "a.py", line 1, in <module>\n    foo()'
t('pe ends with src', lambda: ParsedException.from_string(tb).to_string()==tb)
tb='Traceback (most recent call last):\n  File "a.py", line 1, in <module>\n    foo()\nValueError: a: b\nmore\n  indented'
t('pe multi msg', lambda: (ParsedException.from_string(tb).to_string()==tb, ParsedException.from_string(tb).exc_msg))
tb='Traceback (most recent call last):\n  File "a.py", line 1, in <module>\n    foo()\nValueError'
t('pe nomsg', lambda: (ParsedException.from_string(tb).to_string()==tb))
from boltons.ioutils import SpooledStringIO, SpooledBytesIO, MultiFileReader
def f():
    s=SpooledStringIO(); s.write('héllo\nwörld\n'); s.seek(3); a=s.tell(); n=len(s); b=s.tell(); return a,n,b, s.read()
t('ssio len shifts tell', f)
def f():
    s=SpooledStringIO(); s.write('ab\ncd\n'); s.seek(0); l=next(s); return l, s.tell(), s.read()
t('ssio iter tell', f)
def f():
    m=MultiFileReader(io.BytesIO(b'abc'), io.BytesIO(b'def')); a=m.read(4); m.seek(0); return a, m.read(2), m.read()
t('mfr seek0', f)
def f():
    m=MultiFileReader(io.BytesIO(b'abc'), io.BytesIO(b'def')); a=m.read(2); return a, m.read(), m.read(3)
t('mfr sized then unsized', f)
from boltons.strutils import iter_splitlines
t('splitlines 28', lambda: list(iter_splitlines('room 28 and 29 x')))
t('splitlines u2028', lambda: list(iter_splitlines('a b')))
from boltons.jsonutils import reverse_iter_lines
t('ril abc\\n', lambda: list(reverse_iter_lines(io.BytesIO(b'abc\n'))))
t('ril \\nb', lambda: list(reverse_iter_lines(io.BytesIO(b'\nb'))))
t('ril a\\nb\\n bs1', lambda: [list(reverse_iter_lines(io.BytesIO(b'a\nb\n'), blocksize=k)) for k in (1,2,3,10)])
t('ril a\\r\\nb bs', lambda: [list(reverse_iter_lines(io.BytesIO(b'a\r\nb'), blocksize=k)) for k in (1,2,3,10)])
t('ril a\\n\\nb bs', lambda: [list(reverse_iter_lines(io.BytesIO(b'a\n\nb'), blocksize=k)) for k in (1,2,3,10)])
