import sys, itertools, subprocess, shlex
sys.path.insert(0,'/repo')
from boltons.strutils import args2sh, args2cmd, format_int_list, parse_int_list, complement_int_list
alpha=["'",'"','\\',' ','\t','\n','$','`','*','~','a','é','!','#',';','&','=','%','-']
cases=[]
for L in range(0,3):
    for t in itertools.product(alpha, repeat=L):
        cases.append(''.join(t))
import random
random.seed(1)
for _ in range(300):
    cases.append(''.join(random.choice(alpha) for _ in range(random.randint(3,8))))
# batch through sh: one sh invocation per 200 arg-lists
bad=[]
def run_sh(arglists):
    script=''
    for al in arglists:
        script+="printf '%s\\0' "+args2sh(al)+"; printf '\\1'\n"
    out=subprocess.run(['/bin/sh','-c',script],capture_output=True, cwd='/tmp/scratch').stdout
    groups=out.split(b'\x01')[:-1]
    res=[]
    for g in groups:
        parts=g.split(b'\0')[:-1]
        res.append([p.decode('utf8') for p in parts])
    return res
arglists=[[c] for c in cases]+[[a,b] for a in cases[:60] for b in cases[:20]]
for i in range(0,len(arglists),300):
    chunk=arglists[i:i+300]
    res=run_sh(chunk)
    if len(res)!=len(chunk): bad.append(('count',i,len(res),len(chunk))); continue
    for al,r in zip(chunk,res):
        if r!=al: bad.append((al,r,args2sh(al)))
print('sh', len(arglists), 'bad', len(bad), bad[:5])
# shlex
bad=[(al,shlex.split(args2sh(al))) for al in arglists if shlex.split(args2sh(al))!=al]
print('shlex bad', len(bad), bad[:3])
# MS CRT parser reference (post-2008 rules incl "" in quotes)
def crt_split(s):
    args=[]; i=0; n=len(s)
    while True:
        while i<n and s[i] in ' \t': i+=1
        if i>=n: break
        cur=[]; inq=False
        while i<n:
            c=s[i]
            if c=='\\':
                j=i
                while j<n and s[j]=='\\': j+=1
                nb=j-i
                if j<n and s[j]=='"':
                    cur.append('\\'*(nb//2))
                    if nb%2: cur.append('"'); i=j+1
                    else: i=j  # quote processed next loop
                else:
                    cur.append('\\'*nb); i=j
                continue
            if c=='"':
                if inq and i+1<n and s[i+1]=='"':
                    cur.append('"'); i+=2; continue
                inq=not inq; i+=1; continue
            if c in ' \t' and not inq: break
            cur.append(c); i+=1
        args.append(''.join(cur))
    return args
bad=[(al,crt_split(args2cmd(al)),args2cmd(al)) for al in arglists if crt_split(args2cmd(al))!=al]
print('cmd bad', len(bad), bad[:5])
# int lists
bad=[]
for L in range(0,6):
    for t in itertools.product(range(0,8), repeat=L):
        l=list(t)
        f=format_int_list(l)
        if parse_int_list(f)!=sorted(set(l)): bad.append((l,f,parse_int_list(f)))
print('intlist bad', len(bad), bad[:3], repr(format_int_list([])), parse_int_list(''))
print(complement_int_list('1,3,5-8,10-11,15'), complement_int_list('1,3', range_start=0, range_end=6), complement_int_list('', 0, 3))
