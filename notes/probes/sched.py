import sys, threading, random, types
sys.path.insert(0, sys.argv[1] if len(sys.argv)>1 else '/repo')
import boltons.cacheutils as cu
CU_FILE = cu.__file__

class Sched:
    """Cooperative deterministic scheduler: exactly one worker runs at a time; a worker yields at
    every traced opcode inside cacheutils; the schedule is a list of thread choices."""
    def __init__(self, nthreads, choose):
        self.n = nthreads
        self.choose = choose     # fn(step, runnable list) -> tid
        self.sems = [threading.Semaphore(0) for _ in range(nthreads)]
        self.main = threading.Semaphore(0)
        self.done = [False]*nthreads
        self.blocked = [None]*nthreads   # lock a thread waits for
        self.steps = 0
        self.trace_log = []
    def yield_point(self, tid):
        # hand control to scheduler, wait to be resumed
        self.main.release()
        self.sems[tid].acquire()
    def tracer(self, tid):
        def local(frame, event, arg):
            if event == 'opcode':
                self.yield_point(tid)
            return local
        def glob(frame, event, arg):
            if frame.f_code.co_filename == CU_FILE:
                frame.f_trace_opcodes = True
                return local
            return None
        return glob

class SLock:
    """scheduler-aware re-entrant lock replacing RLock inside cacheutils"""
    sched = None
    def __init__(self):
        self.owner = None; self.count = 0
    def __enter__(self):
        tid = threading.current_thread().tid if hasattr(threading.current_thread(), 'tid') else None
        if tid is None:
            return self
        s = SLock.sched
        while self.owner is not None and self.owner != tid:
            s.blocked[tid] = self
            s.yield_point(tid)
        s.blocked[tid] = None
        self.owner = tid; self.count += 1
        return self
    def __exit__(self, *a):
        tid = getattr(threading.current_thread(), 'tid', None)
        if tid is None: return
        self.count -= 1
        if self.count == 0: self.owner = None

def run(programs, choose, make_cache):
    n = len(programs)
    s = Sched(n, choose); SLock.sched = s
    cu.RLock = SLock
    cache = make_cache()
    results = [[] for _ in range(n)]
    def worker(tid):
        s.sems[tid].acquire()
        sys.settrace(s.tracer(tid))
        try:
            for op in programs[tid]:
                try:
                    results[tid].append(('ok', op(cache)))
                except Exception as e:
                    results[tid].append(('exc', type(e).__name__))
        finally:
            sys.settrace(None)
            s.done[tid] = True
            s.main.release()
    ths = []
    for i in range(n):
        t = threading.Thread(target=worker, args=(i,)); t.tid = i; t.start(); ths.append(t)
    step = 0
    while not all(s.done):
        runnable = [i for i in range(n) if not s.done[i] and (s.blocked[i] is None or s.blocked[i].owner in (None, i))]
        if not runnable:
            raise RuntimeError('deadlock')
        tid = choose(step, runnable); step += 1
        s.sems[tid].release()
        s.main.acquire()
    for t in ths: t.join()
    s.steps = step
    return cache, results, step

if __name__ == '__main__':
    import time
    bad = 0; t0=time.time(); total_steps=0
    for seed in range(300):
        rnd = random.Random(seed)
        def choose(step, runnable, rnd=rnd):
            return rnd.choice(runnable)
        progs = [[(lambda c, k=k: c.__setitem__(k, k)) for k in rnd.sample(range(6), 4)] for _ in range(2)]
        progs[1].append(lambda c: c.get(0))
        try:
            cache, res, steps = run(progs, choose, lambda: cu.LRU(max_size=3))
            total_steps += steps
            ll = cache._get_flattened_ll()
            keys = [k for k,_ in ll[1:]]
            ok = (len(cache) <= 3 and sorted(map(str,keys)) == sorted(map(str,cache.keys())) and all(r[0]=='ok' for rr in res for r in rr))
        except Exception as e:
            ok = False
        if not ok: bad += 1
    print('bad', bad, 'of 300', 'steps', total_steps, 'time', time.time()-t0)
