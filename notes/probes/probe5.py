import sys, itertools, subprocess, shlex
sys.path.insert(0,'/repo')
from boltons.iterutils import chunk_ranges, windowed, chunked, split, strip, lstrip, rstrip, unique, redundant, pairwise
# chunk_ranges laws
bad={}
n=0
for size in range(0,13):
  for cs in range(1,7):
    for off in range(0,8):
      for ov in range(0,cs):
        for al in (False,True):
          try:
            r=list(chunk_ranges(size,cs,off,ov,al))
          except Exception as e:
            bad.setdefault('exc',[]).append((size,cs,off,ov,al,repr(e))); continue
          n+=1
          stop=off+size
          errs=[]
          if size==0:
              if r: errs.append('nonempty for size 0')
          else:
              if not r: errs.append('empty')
              else:
                if r[0][0]!=off: errs.append('start')
                if r[-1][1]!=stop: errs.append('end')
                if any(e-s>cs or e<=s for s,e in r): errs.append('len')
                for (s1,e1),(s2,e2) in zip(r,r[1:]):
                    if s2!=e1-ov: errs.append('overlap'); break
                cov=set()
                for s,e in r: cov|=set(range(s,e))
                if cov!=set(range(off,stop)): errs.append('cover')
                if al:
                    step=cs-ov
                    if any(s%step!=0 for s,e in r[1:]): errs.append('align')
          for e in errs: bad.setdefault(e,[]).append((size,cs,off,ov,al,r))
print('chunk_ranges', n, {k:len(v) for k,v in bad.items()})
for k,v in bad.items(): print(' ',k,v[:3])
# windowed
bad=[]
for L in range(0,7):
    xs=list(range(L))
    for size in range(0,5):
        try: w=windowed(xs,size)
        except Exception as e: bad.append(('exc',L,size,repr(e))); continue
        exp=[tuple(xs[i:i+size]) for i in range(0,L-size+1)] if size>0 else None
        if size>0 and w!=exp: bad.append((L,size,w,exp))
        if size>0:
            wf=windowed(xs,size,fill=None)
            expf=[tuple((xs[i:i+size]+[None]*size)[:size]) for i in range(L)]
            if wf!=expf: bad.append(('fill',L,size,wf,expf))
print('windowed bad', bad[:5], len(bad), 'size0:', windowed([1,2],0) if True else None)
# split vs str.split
import string
bad={}
alpha='ab '
for L in range(0,7):
    for t in itertools.product(alpha, repeat=L):
        s=''.join(t)
        lst=[None if c==' ' else c for c in s]
        for ms in (None,0,1,2,3):
            exp=[list(x) for x in (s.split(None) if ms is None else s.split(None,ms))]
            # map: pieces may contain spaces -> None
            exp=[[None if c==' ' else c for c in p] for p in exp]
            got=split(lst, None, ms)
            if got!=exp: bad.setdefault(('None',ms),[]).append((s,got,exp))
            lst2=list(s)
            exp2=[list(x) for x in (s.split(' ') if ms is None else s.split(' ',ms))]
            got2=split(lst2,' ',ms)
            if got2!=exp2: bad.setdefault(('sp',ms),[]).append((s,got2,exp2))
        if strip(list(s),' ')!=list(s.strip(' ')): bad.setdefault('strip',[]).append(s)
        if lstrip(list(s),' ')!=list(s.lstrip(' ')): bad.setdefault('lstrip',[]).append(s)
        if rstrip(list(s),' ')!=list(s.rstrip(' ')): bad.setdefault('rstrip',[]).append(s)
print('split', {k:len(v) for k,v in bad.items()})
for k,v in bad.items(): print(' ',k,v[:2])
# chunked
print(chunked([],3), chunked(iter([]),3), chunked('abcdefg',3), chunked(b'abcdefg',3, fill=0) if False else '', chunked(range(7),3,fill=None), chunked('abcd',3,fill='x'))
