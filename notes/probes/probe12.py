import sys, random, io
sys.path.insert(0,'/repo')
from boltons.ioutils import SpooledBytesIO, SpooledStringIO, MultiFileReader
from boltons.queueutils import HeapPriorityQueue, SortedPriorityQueue
from boltons.listutils import BarrelList
random.seed(2)
def run_hist(mk, ref_mk, pieces, hist):
    f=mk(); r=ref_mk(); out=[]
    for op in hist:
        try:
            if op[0]=='w':
                # appending write: move to end first on both
                f.seek(len(r.getvalue())); r.seek(0,2)
                f.write(op[1]); r.write(op[1]); a=b=None
            elif op[0]=='read': a=f.read(op[1]); b=r.read(op[1])
            elif op[0]=='readall': a=f.read(); b=r.read()
            elif op[0]=='readline': a=f.readline(); b=r.readline()
            elif op[0]=='readlines': a=f.readlines(); b=r.readlines()
            elif op[0]=='seek':
                pos=min(op[1], len(r.getvalue())); f.seek(pos); r.seek(pos); a=b=None
            elif op[0]=='tell': a=f.tell(); b=r.tell()
            elif op[0]=='getvalue': a=f.getvalue(); b=r.getvalue()
            elif op[0]=='len': a=len(f); b=len(r.getvalue())
            elif op[0]=='iter': a=list(f); b=list(r)
        except Exception as e:
            return ('exc',op,repr(e))
        if a!=b: return ('diff',op,a,b)
        if f.tell()!=r.tell(): return ('tell',op,f.tell(),r.tell())
    return None
ops=['w','read','readall','readline','readlines','seek','tell','getvalue','len','iter']
res={}
for kind in ('bytes','str'):
    for t in range(4000):
        hist=[]
        for _ in range(random.randint(1,8)):
            o=random.choice(ops)
            if o=='w':
                s=''.join(random.choice(['a','é','日','\n','\r\n','\r','x']) for _ in range(random.randint(0,5)))
                hist.append(('w', s.encode() if kind=='bytes' else s))
            elif o in('read','seek'): hist.append((o,random.randint(0,8)))
            else: hist.append((o,))
        for ms in (1,4,1000):
            if kind=='bytes': r=run_hist(lambda: SpooledBytesIO(max_size=ms), io.BytesIO, None, hist)
            else: r=run_hist(lambda: SpooledStringIO(max_size=ms), lambda: io.StringIO(newline=''), None, hist)
            if r:
                key=(kind,r[0],r[1][0])
                if key not in res or len(hist)<len(res[key][0]): res[key]=(hist,ms,r)
for k,v in res.items(): print(k, str(v)[:300])
# PQ: heap vs sorted vs reference
bad=[]
for t in range(300):
    BarrelList._size_factor=random.choice([1520,4,6])
    h=HeapPriorityQueue(); s=SortedPriorityQueue(); ref=[]; cnt=0
    for step in range(random.randint(10,300)):
        o=random.choice(['add','add','add','readd','remove','pop','peek','len'])
        if o=='add':
            task=('t',cnt); p=random.choice([None,0,1,1,2,5,2.5]); 
            for q in (h,s): q.add(task,p)
            ref=[e for e in ref if e[2]!=task]; ref.append((-(float(p or 0)),cnt,task)); cnt+=1
        elif o=='readd' and ref:
            task=random.choice(ref)[2]; p=random.choice([None,1,2,7])
            for q in (h,s): q.add(task,p)
            ref=[e for e in ref if e[2]!=task]; ref.append((-(float(p or 0)),cnt,task)); cnt+=1
        elif o=='remove' and ref:
            task=random.choice(ref)[2]
            for q in (h,s): q.remove(task)
            ref=[e for e in ref if e[2]!=task]
        elif o in('pop','peek'):
            exp=min(ref)[2] if ref else 'EMPTY'
            got=[getattr(q,o)('EMPTY') for q in (h,s)]
            if o=='pop' and ref: ref.remove(min(ref))
            if got!=[exp,exp]: bad.append((BarrelList._size_factor,step,o,exp,got)); break
        elif o=='len':
            if [len(h),len(s)]!=[len(ref)]*2: bad.append(('len',step)); break
BarrelList._size_factor=1520
print('PQ bad', len(bad), bad[:4])
