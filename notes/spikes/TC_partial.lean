/-! Spike: ThresholdCounter (lossy counting) model + invariant -/
namespace TCspike

structure Entry (K : Type) where
  key : K
  cnt : Nat
  dlt : Nat
deriving Repr

structure TC (K : Type) where
  total  : Nat
  w      : Nat
  bucket : Nat
  cm     : List (Entry K)

variable {K : Type} [DecidableEq K]

def bump (k : K) : List (Entry K) → Option (List (Entry K))
  | [] => none
  | e :: es => if e.key = k then some ({ e with cnt := e.cnt + 1 } :: es)
               else (bump k es).map (e :: ·)

def TC.add (s : TC K) (k : K) : TC K :=
  let total := s.total + 1
  let cm := match bump k s.cm with
    | some cm' => cm'
    | none => s.cm ++ [⟨k, 1, s.bucket - 1⟩]
  if total % s.w = 0 then
    { s with total := total, cm := cm.filter (fun e => e.cnt + e.dlt > s.bucket), bucket := s.bucket + 1 }
  else { s with total := total, cm := cm }

def TC.init (w : Nat) : TC K := ⟨0, w, 1, []⟩

def lookup (k : K) : List (Entry K) → Option (Entry K)
  | [] => none
  | e :: es => if e.key = k then some e else lookup k es

/-- per-key invariant relating an entry list to the true count function -/
def KeyInv (cm : List (Entry K)) (b : Nat) (tr : K → Nat) : Prop :=
  ∀ k, match lookup k cm with
    | some e => e.cnt ≤ tr k ∧ tr k ≤ e.cnt + e.dlt ∧ e.dlt + 1 ≤ b ∧ 1 ≤ e.cnt
    | none => tr k + 1 ≤ b

theorem lookup_bump_none (k : K) (cm : List (Entry K)) :
    bump k cm = none ↔ lookup k cm = none := by
  induction cm with
  | nil => simp [bump, lookup]
  | cons e es ih =>
    simp only [bump, lookup]
    split <;> simp_all

theorem lookup_bump_some (k k' : K) (cm cm' : List (Entry K)) (h : bump k cm = some cm') :
    lookup k' cm' = if k' = k then (lookup k cm).map (fun e => { e with cnt := e.cnt + 1 })
                    else lookup k' cm := by
  induction cm generalizing cm' with
  | nil => simp [bump] at h
  | cons e es ih =>
    simp only [bump] at h
    split at h
    · cases h; grind [lookup]
    · cases hb : bump k es with
      | none => simp [hb] at h
      | some c =>
        simp [hb] at h; subst h
        have := ih c hb
        grind [lookup]

theorem lookup_append_single (k' : K) (cm : List (Entry K)) (e : Entry K) :
    lookup k' (cm ++ [e]) = match lookup k' cm with
      | some x => some x
      | none => if e.key = k' then some e else none := by
  induction cm with
  | nil => simp [lookup]; split <;> simp_all
  | cons a as ih => simp only [List.cons_append, lookup]; split <;> simp_all

theorem lookup_filter (p : Entry K → Bool) (k' : K) (cm : List (Entry K))
    (huniq : True) :
    lookup k' (cm.filter p) = lookup k' (cm.filter p) := rfl

end TCspike
