/-! Spike (C07): RFC 3986 §5.2.4 remove_dot_segments on strings vs boltons' segment stack. -/
namespace DotsSpike

abbrev Str := List Char

def ns (c : Char) : Bool := !(c == '/')

/-- remove the last segment and its preceding "/" (if any) from the output buffer -/
def popSeg (out : Str) : Str :=
  (out.reverse.dropWhile ns).drop 1 |>.reverse

/-- first path segment of the input buffer: the initial "/" (if any) and everything up to, not including, the next "/" -/
def firstSeg : Str → Str × Str
  | '/' :: r => ('/' :: r.takeWhile ns, r.dropWhile ns)
  | r => (r.takeWhile ns, r.dropWhile ns)

/-- RFC 3986 5.2.4, steps 2A–2E, literally; `fuel` bounds the loop -/
def rds : Nat → Str → Str → Str
  | 0, _, out => out
  | _, [], out => out
  | n+1, inp, out =>
    match inp with
    | '.' :: '.' :: '/' :: r => rds n r out
    | '.' :: '/' :: r => rds n r out
    | '/' :: '.' :: '/' :: r => rds n ('/' :: r) out
    | ['/', '.'] => rds n ['/'] out
    | '/' :: '.' :: '.' :: '/' :: r => rds n ('/' :: r) (popSeg out)
    | ['/', '.', '.'] => rds n ['/'] (popSeg out)
    | ['.'] => out
    | ['.', '.'] => out
    | _ => let (seg, rest) := firstSeg inp; rds n rest (out ++ seg)

def flat (segs : List Str) : Str := segs.flatMap (fun s => '/' :: s)

/-- boltons.urlutils.resolve_path_parts on `[''] ++ segs`, as the stack it leaves after the root marker -/
def process : List Str → List Str → List Str
  | stack, [] => stack
  | stack, [s] =>
    if s = ['.'] then stack ++ [[]]
    else if s = ['.', '.'] then stack.dropLast ++ [[]]
    else stack ++ [s]
  | stack, s :: rest =>
    if s = ['.'] then process stack rest
    else if s = ['.', '.'] then process stack.dropLast rest
    else process (stack ++ [s]) rest

def NoSlash (s : Str) : Prop := '/' ∉ s

theorem ns_of (c : Char) (h : c ≠ '/') : ns c = true := by simp [ns, h]
theorem ns_slash : ns '/' = false := by simp [ns]

theorem takeWhile_noslash (s r : Str) (h : NoSlash s) :
    (s ++ '/' :: r).takeWhile ns = s ∧ (s ++ '/' :: r).dropWhile ns = '/' :: r := by
  induction s with
  | nil => simp [ns_slash]
  | cons c cs ih =>
    have hc : c ≠ '/' := by intro h'; apply h; simp [h']
    have hcs : NoSlash cs := by intro h'; apply h; simp [h']
    simp [ns_of c hc, ih hcs]

theorem takeWhile_noslash_end (s : Str) (h : NoSlash s) :
    s.takeWhile ns = s ∧ s.dropWhile ns = [] := by
  induction s with
  | nil => simp
  | cons c cs ih =>
    have hc : c ≠ '/' := by intro h'; apply h; simp [h']
    have hcs : NoSlash cs := by intro h'; apply h; simp [h']
    simp [ns_of c hc, ih hcs]

theorem flat_append (a b : List Str) : flat (a ++ b) = flat a ++ flat b := by simp [flat]

theorem flat_snoc (a : List Str) (s : Str) : flat (a ++ [s]) = flat a ++ '/' :: s := by simp [flat]

theorem dropWhile_rev_noslash (s pre : Str) (h : NoSlash s) :
    ((pre ++ '/' :: s).reverse.dropWhile ns) = '/' :: pre.reverse := by
  have : (pre ++ '/' :: s).reverse = s.reverse ++ '/' :: pre.reverse := by simp
  rw [this]
  have h' : NoSlash s.reverse := by intro hh; apply h; simpa using hh
  exact (takeWhile_noslash s.reverse pre.reverse h').2

theorem popSeg_flat_snoc (stack : List Str) (s : Str) (h : NoSlash s) :
    popSeg (flat (stack ++ [s])) = flat stack := by
  have := dropWhile_rev_noslash s (flat stack) h
  unfold popSeg
  rw [flat_snoc, this]
  simp

theorem popSeg_nil : popSeg [] = [] := by simp [popSeg]

theorem popSeg_flat (stack : List Str) (hs : ∀ s ∈ stack, NoSlash s) :
    popSeg (flat stack) = flat stack.dropLast := by
  rcases List.eq_nil_or_concat stack with h | ⟨l, a, h⟩
  · subst h; simp [flat, popSeg]
  · subst h
    have : NoSlash a := hs a (by simp)
    simp [List.concat_eq_append, popSeg_flat_snoc _ _ this]


/-- `r` is a (possibly empty) concatenation of "/seg" pieces -/
def SlashOrNil (r : Str) : Prop := r = [] ∨ ∃ t, r = '/' :: t

theorem firstSeg_seg (s r : Str) (hs : NoSlash s) (hr : SlashOrNil r) :
    firstSeg ('/' :: s ++ r) = ('/' :: s, r) := by
  rcases hr with rfl | ⟨t, rfl⟩
  · simp [firstSeg, takeWhile_noslash_end s hs]
  · simp [firstSeg, takeWhile_noslash s t hs]

theorem rds_other (n : Nat) (s r out : Str) (hs : NoSlash s) (hr : SlashOrNil r)
    (h1 : s ≠ ['.']) (h2 : s ≠ ['.', '.']) :
    rds (n+1) ('/' :: s ++ r) out = rds n r (out ++ '/' :: s) := by
  have hfs := firstSeg_seg s r hs hr
  rw [rds.eq_def]
  split
  · simp at *
  · simp at *
  · rename_i inp out' hne
    split
    all_goals first
      | (simp_all; done)
      | (rename_i heq; simp at heq; rcases hr with rfl | ⟨t, rfl⟩ <;> rcases s with _ | ⟨c, _ | ⟨d, _ | ⟨e, s⟩⟩⟩ <;> simp_all [NoSlash])
      | skip


theorem flat_slashOrNil (l : List Str) : SlashOrNil (flat l) := by
  cases l with
  | nil => left; simp [flat]
  | cons a t => right; exact ⟨a ++ flat t, by simp [flat]⟩

theorem flat_cons (a : Str) (t : List Str) : flat (a :: t) = '/' :: a ++ flat t := by simp [flat]

theorem rds_nil (n : Nat) (out : Str) : rds n [] out = out := by
  cases n <;> simp [rds]

theorem rds_dot_mid (n : Nat) (r out : Str) :
    rds (n+1) ('/' :: '.' :: '/' :: r) out = rds n ('/' :: r) out := by simp [rds]
theorem rds_dotdot_mid (n : Nat) (r out : Str) :
    rds (n+1) ('/' :: '.' :: '.' :: '/' :: r) out = rds n ('/' :: r) (popSeg out) := by simp [rds]
theorem rds_dot_end (n : Nat) (out : Str) : rds (n+2) ['/', '.'] out = out ++ ['/'] := by
  simp [rds, firstSeg, rds_nil]
theorem rds_dotdot_end (n : Nat) (out : Str) : rds (n+2) ['/', '.', '.'] out = popSeg out ++ ['/'] := by
  simp [rds, firstSeg, rds_nil]

theorem mem_dropLast {α} (l : List α) (x : α) (h : x ∈ l.dropLast) : x ∈ l :=
  List.dropLast_subset l h

theorem rds_flat (segs : List Str) : ∀ (stack : List Str) (fuel : Nat),
    (∀ s ∈ segs, NoSlash s) → (∀ s ∈ stack, NoSlash s) → 2 * segs.length ≤ fuel →
    rds fuel (flat segs) (flat stack) = flat (process stack segs) := by
  induction segs with
  | nil => intro stack fuel _ _ _; simp [flat, rds_nil, process]
  | cons s rest ih =>
    intro stack fuel hsegs hstack hfuel
    have hs : NoSlash s := hsegs s (by simp)
    have hrest : ∀ x ∈ rest, NoSlash x := fun x hx => hsegs x (by simp [hx])
    obtain ⟨n, rfl⟩ : ∃ n, fuel = n + 2 := ⟨fuel - 2, by simp at hfuel; omega⟩
    have hn : 2 * rest.length ≤ n := by simp at hfuel; omega
    have hpop : ∀ x ∈ stack.dropLast, NoSlash x := fun x hx => hstack x (mem_dropLast _ _ hx)
    by_cases hd : s = ['.']
    · subst hd
      cases rest with
      | nil =>
        have : flat [['.']] = ['/', '.'] := by simp [flat]
        rw [this, rds_dot_end]; simp [process, flat]
      | cons r rs =>
        have := ih stack (n+1) hrest hstack (by omega)
        have e : flat (['.'] :: r :: rs) = '/' :: '.' :: '/' :: (r ++ flat rs) := by simp [flat]
        rw [e, rds_dot_mid]
        have e2 : '/' :: (r ++ flat rs) = flat (r :: rs) := by simp [flat]
        rw [e2, this]; simp [process]
    · by_cases hdd : s = ['.', '.']
      · subst hdd
        cases rest with
        | nil =>
          have : flat [['.', '.']] = ['/', '.', '.'] := by simp [flat]
          rw [this, rds_dotdot_end, popSeg_flat stack hstack]; simp [process, flat]
        | cons r rs =>
          have := ih stack.dropLast (n+1) hrest hpop (by omega)
          have e : flat (['.', '.'] :: r :: rs) = '/' :: '.' :: '.' :: '/' :: (r ++ flat rs) := by simp [flat]
          rw [e, rds_dotdot_mid, popSeg_flat stack hstack]
          have e2 : '/' :: (r ++ flat rs) = flat (r :: rs) := by simp [flat]
          rw [e2, this]; simp [process]
      · have hstack' : ∀ x ∈ stack ++ [s], NoSlash x := by
          intro x hx; simp at hx; rcases hx with hx | rfl
          · exact hstack x hx
          · exact hs
        have := ih (stack ++ [s]) (n+1) hrest hstack' (by omega)
        rw [flat_cons, rds_other (n+1) s (flat rest) (flat stack) hs (flat_slashOrNil rest) hd hdd]
        rw [← flat_snoc, this]
        cases rest with
        | nil => simp [process, hd, hdd]
        | cons r rs => simp [process, hd, hdd]

#print axioms rds_flat
end DotsSpike
