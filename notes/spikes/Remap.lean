/-! Spike (C08): remap's explicit-stack loop equals the bottom-up recursion, tree level. -/
namespace RemapSpike

inductive Kind | dict | list | tuple | set | fset
deriving DecidableEq, Repr

abbrev Key := Nat

mutual
inductive Val
  | leaf (n : Nat)
  | node (k : Kind) (items : Items)
inductive Items
  | nil
  | cons (key : Key) (v : Val) (rest : Items)
end

abbrev Path := List Key

inductive Visit | keep | drop | repl (k : Key) (v : Val)

abbrev VisitFn := Path → Key → Val → Visit

def applyVisit (vf : VisitFn) (p : Path) (k : Key) (v : Val) : List (Key × Val) :=
  match vf p k v with
  | .keep => [(k, v)]
  | .drop => []
  | .repl k' v' => [(k', v')]

def ofList : List (Key × Val) → Items
  | [] => .nil
  | (k, v) :: r => .cons k v (ofList r)

/-! recursive spec -/
mutual
def rebuild (vf : VisitFn) (p : Path) : Val → Val
  | .leaf n => .leaf n
  | .node kd its => .node kd (ofList (rebuildItems vf p its))
def rebuildItems (vf : VisitFn) (p : Path) : Items → List (Key × Val)
  | .nil => []
  | .cons k v rest => applyVisit vf p k (rebuildChild vf p k v) ++ rebuildItems vf p rest
def rebuildChild (vf : VisitFn) (p : Path) (k : Key) : Val → Val
  | .leaf n => .leaf n
  | .node kd its => .node kd (ofList (rebuildItems vf (p ++ [k]) its))
end

/-- root: path is not extended for the root itself -/
def remapRec (vf : VisitFn) : Val → Val
  | .leaf n => .leaf n
  | .node kd its => .node kd (ofList (rebuildItems vf [] its))

/-! the machine -/
inductive Frame
  | item (k : Key) (v : Val)
  | exit (k : Key) (kd : Kind) (_isRoot : Bool)

structure St where
  stack : List Frame
  path  : Path
  nis   : List (Path × List (Key × Val))
  value : Val

def pushItems : Items → List Frame → List Frame
  | .nil, s => s
  | .cons k v rest, s => .item k v :: pushItems rest s

def step (vf : VisitFn) (s : St) : Option St :=
  match s.stack with
  | [] => none
  | .item k v :: rest =>
    match v with
    | .node kd its =>
      some { stack := pushItems its (.exit k kd false :: rest), path := s.path ++ [k],
             nis := (s.path, []) :: s.nis, value := s.value }
    | .leaf n =>
      match s.nis with
      | [] => none
      | (pp, acc) :: nr =>
        some { stack := rest, path := s.path, nis := (pp, acc ++ applyVisit vf s.path k (.leaf n)) :: nr,
               value := .leaf n }
  | .exit k kd _ :: rest =>
    match s.nis with
    | [] => none
    | (p, items) :: nr =>
      let value := Val.node kd (ofList items)
      match nr with
      | [] => some { stack := rest, path := p, nis := [], value := value }
      | (pp, acc) :: nr' =>
        some { stack := rest, path := p, nis := (pp, acc ++ applyVisit vf p k value) :: nr', value := value }

def run (vf : VisitFn) : Nat → St → St
  | 0, s => s
  | n+1, s => match step vf s with
    | none => s
    | some s' => run vf n s'

theorem run_add (vf : VisitFn) (a b : Nat) (s : St) : run vf (a + b) s = run vf b (run vf a s) := by
  induction a generalizing s with
  | zero => simp [run]
  | succ n ih =>
    rw [Nat.succ_add]
    simp only [run]
    cases h : step vf s with
    | none =>
      simp
      -- stuck state stays stuck
      have : ∀ m, run vf m s = s := by
        intro m; cases m <;> simp [run, h]
      rw [this]
    | some s' => simp [ih]

mutual
def vsize : Val → Nat
  | .leaf _ => 1
  | .node _ its => 2 + isize its
def isize : Items → Nat
  | .nil => 0
  | .cons _ v rest => vsize v + isize rest
end

-- simulation: processing one (non-root) item appends exactly its visited rebuild to the parent's accumulator
mutual
theorem sim_val (vf : VisitFn) (k : Key) (v : Val) (rest : List Frame) (p pp : Path)
    (acc : List (Key × Val)) (nr : List (Path × List (Key × Val))) (val : Val) :
    ∃ val', run vf (vsize v) ⟨.item k v :: rest, p, (pp, acc) :: nr, val⟩ =
      ⟨rest, p, (pp, acc ++ applyVisit vf p k (rebuildChild vf p k v)) :: nr, val'⟩ := by
  cases v with
  | leaf n => exact ⟨.leaf n, by simp [run, step, vsize, rebuildChild]⟩
  | node kd its =>
    have h := sim_items vf its (.exit k kd false :: rest) (p ++ [k]) p [] ((pp, acc) :: nr) val
    obtain ⟨val1, h1⟩ := h
    refine ⟨.node kd (ofList (rebuildItems vf (p ++ [k]) its)), ?_⟩
    have : vsize (.node kd its) = 1 + (isize its + 1) := by simp [vsize]; omega
    rw [this, run_add, run_add]
    simp only [run, step]
    rw [h1]
    simp [rebuildChild]
theorem sim_items (vf : VisitFn) (its : Items) (rest : List Frame) (p pp : Path)
    (acc : List (Key × Val)) (nr : List (Path × List (Key × Val))) (val : Val) :
    ∃ val', run vf (isize its) ⟨pushItems its rest, p, (pp, acc) :: nr, val⟩ =
      ⟨rest, p, (pp, acc ++ rebuildItems vf p its) :: nr, val'⟩ := by
  cases its with
  | nil => exact ⟨val, by simp [run, isize, pushItems, rebuildItems]⟩
  | cons k v r =>
    obtain ⟨v1, h1⟩ := sim_val vf k v (pushItems r rest) p pp acc nr val
    obtain ⟨v2, h2⟩ := sim_items vf r rest p pp (acc ++ applyVisit vf p k (rebuildChild vf p k v)) nr v1
    refine ⟨v2, ?_⟩
    simp only [isize, pushItems, run_add, h1, h2, rebuildItems, List.append_assoc]
end


/-- state right after the root container has been entered (`value is root`: path not extended) -/
def initRoot (kd : Kind) (its : Items) (k0 : Key) : St :=
  ⟨pushItems its [.exit k0 kd true], [], [([], [])], .leaf 0⟩

theorem remap_eq_rec (vf : VisitFn) (kd : Kind) (its : Items) (k0 : Key) :
    (run vf (isize its + 1) (initRoot kd its k0)).value = remapRec vf (.node kd its) ∧
    (run vf (isize its + 1) (initRoot kd its k0)).stack = [] := by
  obtain ⟨v1, h1⟩ := sim_items vf its [.exit k0 kd true] [] [] [] [] (.leaf 0)
  simp only [initRoot, run_add, h1]
  simp [run, step, remapRec]

#print axioms remap_eq_rec
end RemapSpike
