"""Self-test of harness/py2lean_c08.py (object-graph mode): CPython vs the generated definitions.

The generated definitions are run at the instance `C08.gOps id` (lean/BoltonsVerif/C08/SrcTieOps.lean: the declared
operations on one heap of containers) on random object graphs (dicts / lists / tuples / sets / frozensets with sharing,
leaves None / ints, string keys), and compared with the REAL functions of boltons.iterutils on the real objects: the
value returned (deep, class-aware), object identity of the result (`ret is new_parent`, `new_parent is value`), the
state of a mutated object afterwards, the exception class.  So the translation AND the assumed meaning of the declared
operations are validated on the source of this run.  A Lean result `Exc.Other` = "not specified" (counted, not compared).
Also: snippets outside the subset must be refused.
"""
import ast
import importlib
import os
import random
import shutil
import subprocess
import sys
import tempfile
import time

sys.path.insert(0, os.path.dirname(os.path.abspath(__file__)))
from bv import common            # noqa: E402
import py2lean_c08 as T          # noqa: E402
import srctie_specs              # noqa: E402

STRS = ['a', 'b', 'key', 'x1', '0', '1', '2', '-1', '12']
KINDS = [dict, list, tuple, set, frozenset]

LOOP_DRIVER = r'''let visit : VisitFn Heap Obj Atom := fun s _p k v => match vk with
      | 1 => .ok ((if v == Obj.atom (.int 1) then VisitRes.false_ else VisitRes.true_), s)
      | 2 => .ok (VisitRes.true_, s)
      | 3 => .ok ((match v with | .atom (.int i) => VisitRes.pair k (.atom (.int (i + 10))) | _ => VisitRes.true_), s)
      | _ => (match v with | .atom .none => .error Exc.ValueError | _ => .ok (VisitRes.true_, s))
    pure (match remap_loop 100000 h root visit (default_enter (gOps id)) (default_exit (gOps id)) (vk == 0) (rr != 0) Atom.none with
      | .ok (v, s) => "('ok'," ++ shObj s v ++ ")"
      | .error e => shExc e)'''
NO_LOOP_DRIVER = 'pure "bad-no-loop"'

DRIVER = r'''
open C08 PyRtC08 Src.iterutils

abbrev P := StateT (List Int) Option
def pInt : P Int := fun l => match l with | x :: t => some (x, t) | [] => none
def pNat : P Nat := do let x ← pInt; pure x.toNat
def pMany {α : Type} (p : P α) : Nat → P (List α)
  | 0 => pure []
  | n + 1 => do let x ← p; let xs ← pMany p n; pure (x :: xs)
def pList {α : Type} (p : P α) : P (List α) := do let n ← pNat; pMany p n
def pAtom : P Atom := do
  let t ← pInt
  match t with
  | 0 => pure .none
  | 1 => do let i ← pInt; pure (.int i)
  | _ => do let cs ← pList pNat; pure (.str (String.ofList (cs.map Char.ofNat)))
def pObj : P Obj := do
  let t ← pInt
  if t == 0 then (do let a ← pAtom; pure (.atom a)) else (do let i ← pNat; pure (.ref i))
def pKind : P Kind := do
  let t ← pInt
  pure (match t with | 0 => .dict | 1 => .list | 2 => .tuple | 3 => .set | _ => .fset)
def pPair : P (Atom × Obj) := do let k ← pAtom; let o ← pObj; pure (k, o)
def pNode : P Node := do let k ← pKind; let its ← pList pPair; pure ⟨k, its⟩
def pOptObj : P (Option Obj) := do
  let t ← pInt
  if t == 0 then pure none else (do let o ← pObj; pure (some o))

def shAtom : Atom → String
  | .none => "('A','NoneType',None)"
  | .int i => s!"('A','int',{i})"
  | .str s => s!"('A','str','{s}')"
  | _ => "('A','?',None)"
partial def shObj (h : Heap) : Obj → String
  | .atom a => shAtom a
  | .ref id => match h[id]? with
    | none => "('dangling',)"
    | some nd =>
      match nd.kind with
      | .dict => "('D',[" ++ ", ".intercalate (nd.items.map fun kv => "(" ++ shAtom kv.1 ++ "," ++ shObj h kv.2 ++ ")") ++ "])"
      | kd =>
        let tag := match kd with | .list => "L" | .tuple => "T" | .set => "S" | _ => "F"
        "('" ++ tag ++ "',[" ++ ", ".intercalate (nd.items.map fun kv => shObj h kv.2) ++ "])"
def shPairs (h : Heap) (l : List (Atom × Obj)) : String :=
  "[" ++ ", ".intercalate (l.map fun kv => "(" ++ shAtom kv.1 ++ "," ++ shObj h kv.2 ++ ")") ++ "]"
def shExc (e : Exc) : String :=
  "('exc','" ++ (((toString (repr e)).splitOn ".").getLast!) ++ "')"
def pyBool (b : Bool) : String := if b then "True" else "False"

def runLine : P String := do
  let f ← pInt
  let h ← pList pNode
  match f with
  | 0 => do
    let p ← pList pAtom; let k ← pAtom; let v ← pObj
    pure (match default_visit (gOps id) h p k v with
      | .ok ((k2, v2), s) => "('ok'," ++ shAtom k2 ++ "," ++ shObj s v2 ++ ")"
      | .error e => shExc e)
  | 1 => do
    let p ← pList pAtom; let k ← pAtom; let v ← pObj
    pure (match default_enter (gOps id) h p k v with
      | .ok ((np, its), s) => "('ok'," ++ pyBool (np == v) ++ "," ++ shObj s np ++ "," ++
          (match its with | none => "None" | some l => shPairs s l) ++ ")"
      | .error e => shExc e)
  | 2 => do
    let p ← pList pAtom; let k ← pAtom; let old ← pObj; let np ← pObj; let items ← pList pPair
    pure (match default_exit (gOps id) h p k old np items with
      | .ok (ret, s) => "('ok'," ++ pyBool (ret == np) ++ "," ++ shObj s ret ++ "," ++ shObj s np ++ ")"
      | .error e => shExc e)
  | 3 => do
    let root ← pObj; let p ← pList pAtom; let d ← pOptObj
    pure (match get_path (gOps id) h root p d with
      | .ok (v, s) => "('ok'," ++ shObj s v ++ ")"
      | .error e => shExc e)
  | _ => do
    let root ← pObj; let vk ← pInt; let rr ← pInt
    ⟪LOOP⟫

partial def loop (inp : IO.FS.Stream) (out : IO.FS.Stream) : IO Unit := do
  let line ← inp.getLine
  if line.isEmpty then return ()
  let toks := (line.trim.splitOn " ").filter (· ≠ "")
  let nums := toks.filterMap String.toInt?
  if nums.length ≠ toks.length then out.putStrLn "R bad-token"
  else match runLine.run nums with
    | some (s, []) => out.putStrLn ("R " ++ s)
    | some (_, _) => out.putStrLn "R bad-trailing"
    | none => out.putStrLn "R bad-parse"
  loop inp out

def main : IO Unit := do
  loop (← IO.getStdin) (← IO.getStdout)
'''


# ---------------------------------------------------------------------------------------------- object graphs
def hashable(o):
    try:
        hash(o)
        return True
    except TypeError:
        return False


def rand_leaf(rng):
    return rng.choice([None, 0, 1, 2, 3, 7, -1, 10])


def rand_key(rng):
    return rng.choice([None, 0, 1, 2, 5, -1] + STRS + STRS)


def rand_graph(rng, n):
    """a list of container objects, later ones may contain earlier ones (sharing, no cycles)"""
    objs = []
    for _ in range(n):
        kind = rng.choice(KINDS)
        size = rng.randint(0, 4)
        pool = lambda: rng.choice(objs) if objs and rng.random() < 0.45 else rand_leaf(rng)   # noqa: E731
        if kind is dict:
            o = {rand_key(rng): pool() for _ in range(size)}
        elif kind in (list, tuple):
            o = kind([pool() for _ in range(size)])
        else:
            members = []
            for _ in range(size):
                x = pool()
                if hashable(x):
                    members.append(x)
            o = kind(members)
        objs.append(o)
    return objs


def enc_atom(a, out):
    if a is None:
        out.append(0)
    elif isinstance(a, int) and not isinstance(a, bool):
        out.extend([1, a])
    elif isinstance(a, str):
        out.extend([2, len(a)] + [ord(c) for c in a])
    else:
        raise ValueError('atom %r' % (a,))


class Enc:
    """the heap encoding of a graph: every container reachable from the listed objects gets an index"""

    def __init__(self, objs):
        self.ids, self.nodes = {}, []
        for o in objs:
            self.add(o)

    def add(self, o):
        if not isinstance(o, tuple(KINDS)):
            return
        if id(o) in self.ids:
            return
        self.ids[id(o)] = len(self.nodes)
        self.nodes.append(o)
        for c in (o.values() if isinstance(o, dict) else o):
            self.add(c)

    def obj(self, o, out):
        if isinstance(o, tuple(KINDS)):
            out.extend([1, self.ids[id(o)]])
        else:
            out.append(0)
            enc_atom(o, out)

    def heap(self, out):
        out.append(len(self.nodes))
        for o in self.nodes:
            out.append(KINDS.index(type(o)))
            out.append(len(o))
            if isinstance(o, dict):
                for k, v in o.items():
                    enc_atom(k, out)
                    self.obj(v, out)
            else:
                for v in o:          # a set: in ITS iteration order
                    out.append(0)
                    self.obj(v, out)


def canon(o):
    if isinstance(o, dict):
        return ('D', [(canon(k), canon(v)) for k, v in o.items()])
    if isinstance(o, list):
        return ('L', [canon(x) for x in o])
    if isinstance(o, tuple):
        return ('T', [canon(x) for x in o])
    if isinstance(o, (set, frozenset)):
        return ('S' if isinstance(o, set) else 'F', sorted([canon(x) for x in o], key=repr))
    return ('A', type(o).__name__, o)


def norm(t):
    """normal form of the driver's literal: set members sorted"""
    if isinstance(t, tuple) and t and t[0] in ('S', 'F'):
        return (t[0], sorted([norm(x) for x in t[1]], key=repr))
    if isinstance(t, tuple):
        return tuple(norm(x) for x in t)
    if isinstance(t, list):
        return [norm(x) for x in t]
    return t


def reaches(o, target):
    return isinstance(o, tuple(KINDS)) and id(target) in Enc([o]).ids


def empty_singleton(o):
    return isinstance(o, (tuple, frozenset)) and len(o) == 0


# ---------------------------------------------------------------------------------------------- cases
def make_case(fn, rng):
    """-> (tokens, thunk computing the expected normal form with the real function `f`)"""
    objs = rand_graph(rng, rng.randint(1, 5))
    path = [rand_key(rng) for _ in range(rng.randint(0, 2))]
    key = rand_key(rng)
    toks = [fn]
    pick = lambda: rng.choice(objs) if rng.random() < 0.8 else rng.choice([None, 3, 'a', 'key'])   # noqa: E731
    if fn in (0, 1):
        value = pick()
        enc = Enc(objs)
        enc.heap(toks)
        toks.append(len(path))
        for a in path:
            enc_atom(a, toks)
        enc_atom(key, toks)
        enc.obj(value, toks)
        if fn == 0:
            def want(f):
                k2, v2 = f(tuple(path), key, value)
                return ('ok', canon(k2), canon(v2))
        else:
            def want(f):
                np, items = f(tuple(path), key, value)
                same = np is value
                its = None if items is False else [(canon(k), canon(v)) for k, v in list(items)]
                return ('ok', None if empty_singleton(np) else same, canon(np), its)
        return toks, want
    if fn == 2:
        new_parent = rng.choice(objs) if rng.random() < 0.93 else rng.choice([None, 3])
        if rng.random() < 0.6 and isinstance(new_parent, tuple(KINDS)):
            new_parent = type(new_parent)()           # what default_enter hands out
            objs.append(new_parent)
        old = pick()
        vals = [rng.choice(objs) if rng.random() < 0.4 else rand_leaf(rng) for _ in range(rng.randint(0, 4))]
        if isinstance(new_parent, (set, frozenset)):
            vals = [v for v in vals if hashable(v)]
        vals = [v for v in vals if not reaches(v, new_parent)]          # keep the graph acyclic
        items = [(rand_key(rng), v) for v in vals]
        enc = Enc(objs)
        enc.heap(toks)
        toks.append(len(path))
        for a in path:
            enc_atom(a, toks)
        enc_atom(key, toks)
        enc.obj(old, toks)
        enc.obj(new_parent, toks)
        toks.append(len(items))
        for k, v in items:
            enc_atom(k, toks)
            enc.obj(v, toks)

        def want(f):
            ret = f(tuple(path), key, old, new_parent, list(items))
            return ('ok', None if empty_singleton(ret) else ret is new_parent, canon(ret), canon(new_parent))
        return toks, want
    if fn == 4:       # the main loop of remap with the real default enter / exit and a family of visit callbacks
        root = rng.choice(objs) if rng.random() < 0.9 else rng.choice([None, 3])
        vk, rr = rng.choice([0, 0, 1, 2, 3, 4]), rng.randint(0, 1)
        enc = Enc(objs)
        enc.heap(toks)
        enc.obj(root, toks)
        toks.extend([vk, rr])

        def visit4(p, k, v):
            if v is None:
                raise ValueError('none')
            return True
        visits = {1: lambda p, k, v: not (type(v) is int and v == 1), 2: lambda p, k, v: True,
                  3: lambda p, k, v: (k, v + 10) if type(v) is int else True, 4: visit4}

        def want(f):
            if vk == 0:
                return ('ok', canon(f(root, reraise_visit=bool(rr))))
            return ('ok', canon(f(root, visit=visits[vk], reraise_visit=bool(rr))))
        return toks, want
    # get_path: a walk from a root with mostly valid segments
    root = rng.choice(objs) if rng.random() < 0.85 else rng.choice([None, 3])     # strings are never indexed into
    segs, cur = [], root
    for _ in range(rng.randint(0, 4)):
        r = rng.random()
        if isinstance(cur, dict) and cur and r < 0.75:
            seg = rng.choice(list(cur))
        elif isinstance(cur, (list, tuple)) and cur and r < 0.75:
            seg = rng.randrange(len(cur))
            if rng.random() < 0.2:
                seg = str(seg)                   # get_path retries with int(seg)
            elif rng.random() < 0.15:
                seg = seg - len(cur)
        else:
            seg = rand_key(rng)
        segs.append(seg)
        try:
            cur = cur[seg if not (isinstance(seg, str) and isinstance(cur, (list, tuple))) else int(seg)]
        except Exception:       # noqa: BLE001
            cur = None
    default = rng.choice([T, T, None, 5] + objs)       # T stands for "no default"
    enc = Enc(objs)
    enc.heap(toks)
    enc.obj(root, toks)
    toks.append(len(segs))
    for a in segs:
        enc_atom(a, toks)
    if default is T:
        toks.append(0)
    else:
        toks.append(1)
        enc.obj(default, toks)

    def want(f):
        return ('ok', canon(f(root, tuple(segs)) if default is T else f(root, tuple(segs), default)))
    return toks, want


# ---------------------------------------------------------------------------------------------- must be refused
REJECT = [
    ('while', "def f(path, key, value):\n    while value:\n        pass\n    return key, value\n"),
    ('return in loop', "def f(path, key, value):\n    for seg in path:\n        return key, value\n    return key, value\n"),
    ('unknown method', "def f(path, key, value):\n    value.clear()\n    return key, value\n"),
    ('augmented assignment', "def f(path, key, value):\n    key += 1\n    return key, value\n"),
    ('falls off the end', "def f(path, key, value):\n    if isinstance(value, Mapping):\n        return key, value\n"),
    ('unknown isinstance class', "def f(path, key, value):\n    if isinstance(value, int):\n        return key, value\n    return key, value\n"),
    ('bare except', "def f(path, key, value):\n    try:\n        value = value[key]\n    except:\n        pass\n    return key, value\n"),
    ('finally', "def f(path, key, value):\n    try:\n        value = value[key]\n    finally:\n        pass\n    return key, value\n"),
    ('wrong result type', "def f(path, key, value):\n    return value, key\n"),
    ('unbound local', "def f(path, key, value):\n    return key, other\n"),
    ('call with effects in an exception argument', "def f(path, key, value):\n    raise TypeError(value.pop())\n"),
    ('changed signature', "def f(path, value):\n    return value, value\n"),
    ('kind-changing assignment', "def f(path, key, value):\n    value = key\n    return key, value\n"),
    ('comprehension with filter', "def f(path, key, value):\n    vals = [v for i, v in path if v]\n    return key, value\n"),
    ('mutation used as a value', "def f(path, key, value):\n    value = value.extend(path)\n    return key, value\n"),
]
_REJ_SPEC = {'qualname': 'f', 'lean_name': 'f', 'params': {'path': 'Path', 'key': 'K', 'value': 'V'}, 'result': 'KV',
             'tie_theorem': '-'}


def reject_tests(verbose=False):
    bad = []
    for name, src in REJECT:
        _, infos = T.translate_source(src, [_REJ_SPEC], 'snippets', 'snippets')
        if not infos[0].get('error'):
            bad.append(name)
        elif verbose:
            print('refused as expected: %-45s %s' % (name, infos[0]['error']))
    return bad


# ---------------------------------------------------------------------------------------------- run
def run(pids, quick=False, seed=0, verbose=True):
    """-> (number of mismatches, report dict); same contract as py2lean_selftest.run"""
    common.ensure_repo_on_path()
    t0 = time.time()
    specs = [sp for pid in pids for sp in srctie_specs.SPECS.get(pid, []) if sp.get('translator') == 'py2lean_c08']
    module_name = specs[0]['module']
    mod = importlib.import_module(module_name)
    src, rel = T.read_module_source(module_name, common.REPO)
    gen_text, infos = T.translate_source(src, specs, module_name, rel)
    for i in infos:
        if i.get('error'):
            raise common.InfraError('not translated: %s: %s' % (i['function'], i['error']))
    order = ['default_visit', 'default_enter', 'default_exit', 'get_path', 'remap']
    fns = [sp for sp in specs if sp['qualname'] in order]
    rng = random.Random('py2lean-c08-selftest-%d' % seed)
    n_cases = 250 if quick else 3000
    lines, meta = [], []
    for sp in fns:
        fn = order.index(sp['qualname'])
        for _ in range(n_cases // (4 if fn == 0 else 1)):
            toks, want = make_case(fn, rng)
            lines.append(' '.join(map(str, toks)))
            meta.append((sp, want))
    body = gen_text.replace('import BoltonsVerif.PyRtC08\n', '')
    tmp = tempfile.mkdtemp(prefix='py2lean-c08-selftest-')
    try:
        with common.BuildLock():
            rc, out = common._run(['lake', 'build', 'BoltonsVerif.C08.SrcTieOps'])
        if rc != 0:
            raise common.InfraError('cannot build BoltonsVerif.C08.SrcTieOps: ' + out[-500:])
        drv = os.path.join(tmp, 'C08SelfTest.lean')
        with open(drv, 'w') as fh:
            has_loop = any(sp['qualname'] == 'remap' for sp in fns)
            fh.write('import BoltonsVerif.C08.SrcTieOps\n' + body + DRIVER.replace('\u27eaLOOP\u27eb', LOOP_DRIVER if has_loop else NO_LOOP_DRIVER))
        t1 = time.time()
        p = subprocess.run(['lake', 'env', 'lean', '--run', drv], cwd=common.LEAN, input='\n'.join(lines) + '\n',
                           stdout=subprocess.PIPE, stderr=subprocess.STDOUT, text=True, timeout=1800)
        t_lean = time.time() - t1
    finally:
        shutil.rmtree(tmp, ignore_errors=True)
    outs = [ln[2:] for ln in p.stdout.split('\n') if ln.startswith('R ')]
    if p.returncode != 0 or len(outs) != len(lines):
        raise common.InfraError('c08 scratch driver failed (rc %s, %d lines for %d inputs): %s' % (
            p.returncode, len(outs), len(lines), p.stdout[-1500:]))
    report, mismatches = {}, []
    for (sp, want), got, line in zip(meta, outs, lines):
        r = report.setdefault(sp['lean_name'], {'cases': 0, 'compared': 0, 'python_raises': 0, 'unspecified': 0,
                                                'mismatches': 0})
        r['cases'] += 1
        if got.startswith('bad'):
            raise common.InfraError('driver rejected a line: %s for %s' % (got, line))
        lean = ast.literal_eval(got)
        if lean == ('exc', 'Other'):
            r['unspecified'] += 1
            continue
        try:
            py = want(getattr(mod, sp['qualname']))
        except Exception as e:        # noqa: BLE001
            py = ('exc', type(e).__name__)
            r['python_raises'] += 1
        r['compared'] += 1
        if lean[0] == 'ok':
            lean = norm(lean)
            if len(lean) == 4 and len(py) == 4 and py[1] is None:       # identity not defined for () / frozenset()
                lean = (lean[0], None) + lean[2:]
        if lean != py:
            r['mismatches'] += 1
            mismatches.append((sp['lean_name'], {'line': line}, 'Python %r but Lean %r' % (py, lean)))
    for name in reject_tests(verbose):
        mismatches.append(('reject', {}, 'snippet outside the subset was translated: ' + name))
    report['_reject_snippets'] = {'snippets': len(REJECT)}
    report['_mismatches'] = [{'function': nm, 'case': c, 'what': b} for nm, c, b in mismatches[:5]]
    report['_wall_s'] = round(time.time() - t0, 2)
    report['_lean_s'] = round(t_lean, 2)
    if verbose:
        for name, r in report.items():
            print(name, r)
        for name, case, b in mismatches[:10]:
            print('MISMATCH %s %r: %s' % (name, case, b))
    return len(mismatches), report


if __name__ == '__main__':
    n, rep = run(['C08'], quick='--quick' in sys.argv, seed=0, verbose=True)
    sys.exit(1 if n else 0)
