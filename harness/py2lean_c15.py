"""py2lean_c15 - source translator for GENERATOR functions over an ABSTRACT NUMBER CARRIER (round 3d, property C15:
`boltons.iterutils.backoff_iter` / `backoff`).  Spec key `translator: 'py2lean_c15'`; runtime
`lean/BoltonsVerif/PyRtC15.lean`; language: notes/SRCTIE.md section 2d; validation: `selftest` below
(`py2lean_c15_selftest.py`).

Types (spec `params`):  A (a Python float = a value of the carrier `α`), Int, Bool, Count (`None` | str | int: `CountV`).
What is translated EXACTLY, everything else is refused (`Unsupported`, never guessed):
  statements   `v = e`, `v, w = e, f` (right-hand sides first, left to right), `v op= e`, `if/elif/else`, `while` (fuel),
               `raise E(<message>)` (E a class of PyExc; the message must be a constant or `'...' % <bound names>`),
               `yield e` as a statement, bare `return` (generator) / `return e` (function, outside loops), `pass`,
               docstring
  expressions  names (a variable some path leaves unbound is an `Option` and reading it may raise UnboundLocalError),
               the literals 0 / 1 / 0.0 / 1.0 / -1.0 on the carrier, int literals, 'str' literals against `count`,
               `None`, comparisons (also chained when pure), `and` / `or` / `not` (short circuit kept), `b if c else a`,
               `*` and `-` on the carrier, `+ - *` on ints, `count + k`, unary minus, truth value of a carrier value
               (`x != 0`), `float(x)` of a carrier value (identity), `random.random()` (the next scripted draw),
               `list(<translated generator>(...))` in a function.
"""
from __future__ import annotations

import ast
import importlib
import inspect
import os
import sys

HERE = os.path.dirname(os.path.abspath(__file__))
if HERE not in sys.path:
    sys.path.insert(0, HERE)
from py2lean import Unsupported, LEAN_RESERVED     # noqa: E402

RT_IMPORT = 'PyRtC15'
LEAN_TY = {'A': 'α', 'Int': 'Int', 'Bool': 'Bool', 'Count': 'CountV'}
EXC = {'KeyError', 'ValueError', 'TypeError', 'IndexError', 'ZeroDivisionError', 'StopIteration', 'RecursionError'}
CARRIER_CLASSES = '[LE α] [LT α] [DecidableLE α] [DecidableLT α] [BEq α] [Mul α] [Sub α] [Neg α] [OfNat α 0] [OfNat α 1]'


def mangle(name):
    return name + '_' if name in LEAN_RESERVED or name in ('rnd', 'fuel', 'n', 'G', 'α') else name


def lean_str(s):
    out = []
    for c in s:
        if c == '"' or c == '\\':
            out.append('\\' + c)
        elif 32 <= ord(c) < 127:
            out.append(c)
        else:
            out.append('\\u{%x}' % ord(c))
    return '"' + ''.join(out) + '"'


def opt_ty(ty, st):
    return 'Option %s' % LEAN_TY[ty] if st == 'm' else LEAN_TY[ty]


class E:
    """a translated expression: `code` is a pure Lean term of type `ty`, or (eff) a `G α <ty>` computation;
    ty in A | Int | Bool | Count | IntLit | StrLit | NoneLit (literals adapt to their context, `lit` = the value)"""

    def __init__(self, code, ty, eff=False, lit=None):
        self.code, self.ty, self.eff, self.lit = code, ty, eff, lit


def ind(code, k=1):
    return '\n'.join(('  ' * k + ln) if ln else ln for ln in code.split('\n'))


class FnTr:
    def __init__(self, fdef, spec, tree, emitted):
        self.f, self.spec, self.tree, self.emitted = fdef, spec, tree, emitted
        self.name = spec['lean_name']
        self.gen = spec['kind'] == 'generator'
        self.ntemp = 0
        self.njoin = 0
        self.nloop = 0
        self.loops = []            # (number, text) of the loop definitions
        self.loop_no = {id(w): i + 1 for i, w in enumerate(w for w in dfs(fdef) if isinstance(w, ast.While))}
        self.in_loop = 0
        self.check_signature()
        self.parents = {}
        for node in ast.walk(fdef):
            for fld, val in ast.iter_fields(node):
                if isinstance(val, list):
                    for i, ch in enumerate(val):
                        if isinstance(ch, ast.AST):
                            self.parents[ch] = (node, fld, i)
                elif isinstance(val, ast.AST):
                    self.parents[val] = (node, fld, None)
        self.pynames = {n.id for n in ast.walk(fdef) if isinstance(n, ast.Name)} | {a.arg for a in fdef.args.args}
        for n in ast.walk(fdef):
            if isinstance(n, (ast.FunctionDef, ast.AsyncFunctionDef, ast.Lambda, ast.ClassDef, ast.Global, ast.Nonlocal,
                              ast.Try, ast.With, ast.For, ast.Break, ast.Continue, ast.Delete, ast.Import,
                              ast.ImportFrom, ast.YieldFrom, ast.Await, ast.ListComp, ast.GeneratorExp, ast.SetComp,
                              ast.DictComp, ast.NamedExpr, ast.Starred, ast.Assert)) and n is not fdef:
                raise Unsupported(n, 'outside the subset of py2lean_c15')
        has_yield = any(isinstance(n, ast.Yield) for n in ast.walk(fdef))
        if has_yield != self.gen:
            raise Unsupported(fdef, 'spec kind %r but the function %s' % (spec['kind'], 'yields' if has_yield else 'does not yield'))
        stores = {n.id for n in ast.walk(fdef) if isinstance(n, ast.Name) and isinstance(n.ctx, (ast.Store, ast.Del))}
        for b in ('float', 'random', 'list', 'None', 'True', 'False') + tuple(s['qualname'] for s in emitted):
            if b in stores or b in spec['params']:
                raise Unsupported(fdef, 'name %s is rebound' % b)
        for st in tree.body:       # the interpreted globals must be what the translator takes them for
            names = []
            if isinstance(st, (ast.FunctionDef, ast.ClassDef)):
                names = [st.name]
            elif isinstance(st, ast.Assign):
                names = [t.id for t in st.targets if isinstance(t, ast.Name)]
            elif isinstance(st, (ast.Import, ast.ImportFrom)):
                names = [(a.asname or a.name).split('.')[0] for a in st.names]
                if isinstance(st, ast.Import) and any(a.name == 'random' and a.asname is None for a in st.names):
                    names = [x for x in names if x != 'random']
            for b in ('float', 'random', 'list'):
                if b in names:
                    raise Unsupported(st, 'module-level name %s is not the builtin / the stdlib module' % b)
        if not any(isinstance(st, ast.Import) and any(a.name == 'random' and a.asname is None for a in st.names)
                   for st in tree.body):
            self.no_random = True
        else:
            self.no_random = False

    # ------------------------------------------------------------------ signature
    def check_signature(self):
        a = self.f.args
        if a.vararg or a.kwarg or a.kwonlyargs or a.posonlyargs:
            raise Unsupported(self.f, 'signature')
        names = [x.arg for x in a.args]
        if names != list(self.spec['params']):
            raise Unsupported(self.f, 'parameters %r, the spec declares %r' % (names, list(self.spec['params'])))
        for t in self.spec['params'].values():
            if t not in LEAN_TY:
                raise Unsupported(self.f, 'parameter type %s' % t)
        if self.f.decorator_list:
            raise Unsupported(self.f, 'decorators')

    # ------------------------------------------------------------------ helpers
    def fresh(self, base='t'):
        while True:
            self.ntemp += 1
            nm = '%s%d' % (base, self.ntemp)
            if nm not in self.pynames:
                return nm

    def coerce(self, e, ty, node):
        if e.ty == ty:
            return e
        if e.ty == 'IntLit':
            k = e.lit
            if ty == 'Int':
                return E('(%d : Int)' % k, 'Int')
            if ty == 'A':
                if k in (0, 1):
                    return E('(%d : α)' % k, 'A')
                if k == -1:
                    return E('(-(1 : α))', 'A')
                raise Unsupported(node, 'the carrier has the literals 0 and 1 only')
            if ty == 'Count':
                return E('(CountV.int %d)' % k if k >= 0 else '(CountV.int (%d))' % k, 'Count')
        if e.ty == 'Int' and ty == 'Count' and not e.eff:
            return E('(CountV.int %s)' % e.code, 'Count')
        if e.ty == 'NoneLit' and ty == 'Count':
            return E('CountV.none', 'Count')
        if e.ty == 'StrLit' and ty == 'Count':
            return E('(CountV.str %s)' % lean_str(e.lit), 'Count')
        raise Unsupported(node, 'a value of type %s where %s is expected' % (e.ty, ty))

    def settle(self, e, node):
        """the type a literal takes when nothing constrains it"""
        if e.ty == 'IntLit':
            return self.coerce(e, 'Int', node)
        if e.ty in ('StrLit', 'NoneLit'):
            raise Unsupported(node, 'a %s value is supported only against a Count variable' % e.ty)
        return e

    def combine(self, subs, build):
        """evaluate `subs` left to right (effectful ones are bound to temporaries), then `build(pure codes) -> E`"""
        binds, pures = [], []
        for s in subs:
            if s.eff:
                t = self.fresh()
                binds.append((t, s.code))
                pures.append(t)
            else:
                pures.append(s.code)
        r = build(pures)
        if not binds:
            return r
        out = r.code if r.eff else 'G.pure %s' % r.code
        for t, c in reversed(binds):
            out = 'G.bind (%s) fun %s =>\n%s' % (c, t, out)
        return E('(%s)' % out, r.ty, True)

    def as_g(self, e):
        return e.code if e.eff else 'G.pure %s' % e.code

    # ------------------------------------------------------------------ expressions
    def expr(self, n, env):
        if isinstance(n, ast.Constant):
            v = n.value
            if v is None:
                return E('', 'NoneLit')
            if isinstance(v, bool):
                return E('true' if v else 'false', 'Bool')
            if isinstance(v, int):
                return E('', 'IntLit', lit=v)
            if isinstance(v, float):
                if v == 0.0 and str(v) == '0.0':
                    return E('(0 : α)', 'A')
                if v == 1.0:
                    return E('(1 : α)', 'A')
                raise Unsupported(n, 'the carrier has the literals 0 and 1 only')
            if isinstance(v, str):
                return E('', 'StrLit', lit=v)
            raise Unsupported(n, 'constant')
        if isinstance(n, ast.Name):
            if n.id not in env:
                raise Unsupported(n, 'name %s is not a parameter or a local bound on every path before' % n.id)
            ty, st = env[n.id]
            if st == 'm':
                return E('(G.unbox %s)' % mangle(n.id), ty, True)
            return E(mangle(n.id), ty)
        if isinstance(n, ast.UnaryOp):
            if isinstance(n.op, ast.USub):
                a = self.expr(n.operand, env)
                if a.ty == 'IntLit':
                    return E('', 'IntLit', lit=-a.lit)
                if a.ty in ('A', 'Int'):
                    return self.combine([a], lambda p: E('(-%s)' % p[0], a.ty))
                raise Unsupported(n, 'unary minus on %s' % a.ty)
            if isinstance(n.op, ast.Not):
                a = self.truth(n.operand, env)
                return self.combine([a], lambda p: E('(!%s)' % p[0], 'Bool'))
            raise Unsupported(n, 'unary operator')
        if isinstance(n, ast.BinOp):
            return self.binop(n, n.op, self.expr(n.left, env), self.expr(n.right, env))
        if isinstance(n, ast.Compare):
            return self.compare(n, env)
        if isinstance(n, ast.BoolOp):
            vals = [self.truth_strict(v, env) for v in n.values]
            is_or = isinstance(n.op, ast.Or)
            if not any(v.eff for v in vals):
                return E('(%s)' % (' || ' if is_or else ' && ').join(v.code for v in vals), 'Bool')
            out = self.as_g(vals[-1])
            for v in reversed(vals[:-1]):
                short = 'G.pure true' if is_or else 'G.pure false'
                a, b = (short, out) if is_or else (out, short)
                if v.eff:
                    t = self.fresh()
                    out = 'G.bind (%s) fun %s =>\n(if %s then %s else %s)' % (v.code, t, t, a, b)
                else:
                    out = '(if %s then %s else %s)' % (v.code, a, b)
            return E('(%s)' % out, 'Bool', True)
        if isinstance(n, ast.IfExp):
            c = self.truth(n.test, env)
            b, a = self.expr(n.body, env), self.expr(n.orelse, env)
            ty = b.ty if b.ty not in ('IntLit',) else a.ty
            if ty == 'IntLit':
                ty = 'Int'
            b, a = self.coerce(b, ty, n), self.coerce(a, ty, n)
            if not (b.eff or a.eff):
                return self.combine([c], lambda p: E('(if %s then %s else %s)' % (p[0], b.code, a.code), ty))
            return self.combine([c], lambda p: E('(if %s then %s else %s)' % (p[0], self.as_g(b), self.as_g(a)), ty, True))
        if isinstance(n, ast.Call):
            return self.call(n, env)
        raise Unsupported(n, 'expression')

    def binop(self, n, op, l, r):
        sym = {ast.Mult: '*', ast.Sub: '-', ast.Add: '+'}.get(type(op))
        if sym is None:
            raise Unsupported(n, 'operator')
        if l.ty == 'IntLit' and r.ty == 'IntLit':
            raise Unsupported(n, 'constant arithmetic')
        if 'A' in (l.ty, r.ty):
            if sym == '+':
                raise Unsupported(n, '`+` is not an operation of the carrier')
            l, r = self.coerce(l, 'A', n), self.coerce(r, 'A', n)
            return self.combine([l, r], lambda p: E('(%s %s %s)' % (p[0], sym, p[1]), 'A'))
        if l.ty == 'Count':
            if sym == '*' or r.ty not in ('Int', 'IntLit'):
                raise Unsupported(n, 'arithmetic on count')
            r = self.coerce(r, 'Int', n)
            fn = 'addInt' if sym == '+' else 'subInt'
            return self.combine([l, r], lambda p: E('(G.ofExcept (CountV.%s %s %s))' % (fn, p[0], p[1]), 'Count', True))
        if l.ty in ('Int', 'IntLit') and r.ty in ('Int', 'IntLit'):
            l, r = self.coerce(l, 'Int', n), self.coerce(r, 'Int', n)
            return self.combine([l, r], lambda p: E('(%s %s %s)' % (p[0], sym, p[1]), 'Int'))
        raise Unsupported(n, 'operands of type %s and %s' % (l.ty, r.ty))

    def cmp1(self, n, op, l, r):
        """one comparison of two pure-or-effectful operands -> E of type Bool"""
        o = type(op)
        if isinstance(op, (ast.Is, ast.IsNot)):
            if l.ty == 'Count' and r.ty == 'NoneLit':
                neg = '!' if o is ast.IsNot else ''
                return self.combine([l], lambda p: E('(%sCountV.isNone %s)' % (neg, p[0]), 'Bool'))
            raise Unsupported(n, '`is` on %s, %s' % (l.ty, r.ty))
        if o not in (ast.Lt, ast.LtE, ast.Gt, ast.GtE, ast.Eq, ast.NotEq):
            raise Unsupported(n, 'comparison operator')
        if 'A' in (l.ty, r.ty) or (l.ty in ('Int', 'IntLit') and r.ty in ('Int', 'IntLit')):
            ty = 'A' if 'A' in (l.ty, r.ty) else 'Int'
            if l.ty == 'IntLit' and r.ty == 'IntLit':
                raise Unsupported(n, 'constant comparison')
            l, r = self.coerce(l, ty, n), self.coerce(r, ty, n)
            fmt = {ast.Lt: '(decide (%s < %s))', ast.LtE: '(decide (%s ≤ %s))', ast.Gt: '(decide (%s < %s))',
                   ast.GtE: '(decide (%s ≤ %s))', ast.Eq: '(%s == %s)', ast.NotEq: '(!(%s == %s))'}[o]
            swap = o in (ast.Gt, ast.GtE)         # a > b is b < a, a >= b is b <= a: one order relation each
            return self.combine([l, r], lambda p: E(fmt % ((p[1], p[0]) if swap else (p[0], p[1])), 'Bool'))
        if l.ty == 'Count' and r.ty == 'StrLit' and o in (ast.Eq, ast.NotEq):
            neg = '!' if o is ast.NotEq else ''
            return self.combine([l], lambda p: E('(%sCountV.eqStr %s %s)' % (neg, p[0], lean_str(r.lit)), 'Bool'))
        if l.ty == 'Count' and r.ty == 'NoneLit' and o in (ast.Eq, ast.NotEq):
            neg = '!' if o is ast.NotEq else ''
            return self.combine([l], lambda p: E('(%sCountV.isNone %s)' % (neg, p[0]), 'Bool'))
        if l.ty == 'Count' and r.ty in ('Int', 'IntLit'):
            r = self.coerce(r, 'Int', n)
            if o in (ast.Eq, ast.NotEq):
                neg = '!' if o is ast.NotEq else ''
                return self.combine([l, r], lambda p: E('(%sCountV.eqInt %s %s)' % (neg, p[0], p[1]), 'Bool'))
            fn = {ast.Lt: 'CountV.ltInt %s %s', ast.LtE: 'CountV.leInt %s %s', ast.Gt: 'CountV.intLt %s %s',
                  ast.GtE: 'CountV.intLe %s %s'}[o]
            swap = o in (ast.Gt, ast.GtE)
            return self.combine([l, r], lambda p: E('(G.ofExcept (%s))' % (fn % ((p[1], p[0]) if swap else (p[0], p[1]))),
                                                    'Bool', True))
        if l.ty in ('Int', 'IntLit') and r.ty == 'Count':
            l = self.coerce(l, 'Int', n)
            if o in (ast.Eq, ast.NotEq):
                neg = '!' if o is ast.NotEq else ''
                return self.combine([l, r], lambda p: E('(%sCountV.eqInt %s %s)' % (neg, p[1], p[0]), 'Bool'))
            fn = {ast.Lt: 'CountV.intLt %s %s', ast.LtE: 'CountV.intLe %s %s', ast.Gt: 'CountV.ltInt %s %s',
                  ast.GtE: 'CountV.leInt %s %s'}[o]
            swap = o in (ast.Gt, ast.GtE)
            return self.combine([l, r], lambda p: E('(G.ofExcept (%s))' % (fn % ((p[1], p[0]) if swap else (p[0], p[1]))),
                                                    'Bool', True))
        raise Unsupported(n, 'comparison of %s and %s' % (l.ty, r.ty))

    def compare(self, n, env):
        operands = [self.expr(x, env) for x in [n.left] + n.comparators]
        if len(n.ops) == 1:
            return self.cmp1(n, n.ops[0], operands[0], operands[1])
        if any(x.eff for x in operands):
            raise Unsupported(n, 'chained comparison with an operand that may raise or draw')
        parts = [self.cmp1(n, op, operands[i], operands[i + 1]) for i, op in enumerate(n.ops)]
        if any(p.eff for p in parts):
            raise Unsupported(n, 'chained comparison that may raise')
        return E('(%s)' % ' && '.join(p.code for p in parts), 'Bool')

    def truth_strict(self, n, env):
        """operand of and / or: only Bool operands (then the value of the expression IS a bool)"""
        e = self.expr(n, env)
        if e.ty != 'Bool':
            raise Unsupported(n, 'and / or of a non-bool operand (the value would be the operand)')
        return e

    def truth(self, n, env):
        e = self.expr(n, env)
        if e.ty == 'Bool':
            return e
        if e.ty == 'A':
            return self.combine([e], lambda p: E('(!(%s == (0 : α)))' % p[0], 'Bool'))
        if e.ty == 'Int':
            return self.combine([e], lambda p: E('(!(%s == 0))' % p[0], 'Bool'))
        raise Unsupported(n, 'truth value of %s' % e.ty)

    def call(self, n, env):
        if n.keywords and not (isinstance(n.func, ast.Name) and any(n.func.id == s['qualname'] for s in self.emitted)):
            raise Unsupported(n, 'keyword arguments')
        if isinstance(n.func, ast.Name) and n.func.id == 'float':
            if len(n.args) != 1:
                raise Unsupported(n, 'float()')
            a = self.expr(n.args[0], env)
            if a.ty != 'A':
                raise Unsupported(n, 'float() of a %s (only of a value that already is on the carrier)' % a.ty)
            return self.combine([a], lambda p: E('(PyRtC15.float %s)' % p[0], 'A'))
        if (isinstance(n.func, ast.Attribute) and isinstance(n.func.value, ast.Name) and n.func.value.id == 'random'
                and n.func.attr == 'random' and not n.args and 'random' not in env and not self.no_random):
            return E('(G.draw rnd)', 'A', True)
        if isinstance(n.func, ast.Name) and n.func.id == 'list' and len(n.args) == 1 and isinstance(n.args[0], ast.Call):
            inner = n.args[0]
            if isinstance(inner.func, ast.Name):
                callee = [s for s in self.emitted if s['qualname'] == inner.func.id and s['kind'] == 'generator']
                if callee and not self.gen:
                    cs = callee[0]
                    if getattr(self, 'called_gen', False):
                        raise Unsupported(n, 'a second generator call (the draw script is handed to one callee)')
                    self.called_gen = True
                    args = dict(zip(cs['params'], inner.args))
                    if len(inner.args) > len(cs['params']):
                        raise Unsupported(n, 'too many arguments')
                    for kw in inner.keywords:
                        if kw.arg is None or kw.arg not in cs['params'] or kw.arg in args:
                            raise Unsupported(n, 'keyword argument')
                        args[kw.arg] = kw.value
                    if set(args) != set(cs['params']):
                        raise Unsupported(n, 'every parameter of the callee must be passed (defaults are not translated)')
                    # Python evaluates positional arguments, then keywords, in source order
                    order = list(inner.args) + [kw.value for kw in inner.keywords]
                    vals = {id(x): self.coerce(self.expr(x, env), cs['params'][p], n) for p, x in args.items()}
                    subs = [vals[id(x)] for x in order]
                    pos = {id(x): i for i, x in enumerate(order)}

                    def build(p, cs=cs, args=args, pos=pos):
                        a = ' '.join(p[pos[id(args[q])]] for q in cs['params'])
                        return E('(G.ofExcept (PyRtC15.listOf fuel fun n => %s fuel n rnd %s))' % (cs['lean_name'], a),
                                 'ListA', True)
                    return self.combine(subs, build)
        raise Unsupported(n, 'call')

    # ------------------------------------------------------------------ flow analysis
    @staticmethod
    def terminates(stmts):
        if not stmts:
            return False
        s = stmts[-1]
        if isinstance(s, (ast.Raise, ast.Return)):
            return True
        if isinstance(s, ast.If):
            return FnTr.terminates(s.body) and FnTr.terminates(s.orelse)
        return False

    def stmt_of(self, node):
        while not isinstance(node, ast.stmt):
            node = self.parents[node][0]
        return node

    def assigns_uncond(self, st, v):
        if isinstance(st, ast.If) and st.orelse:       # assigned on every path through the statement that falls through
            return all(self.terminates(b) or any(self.assigns_uncond(x, v) for x in b) for b in (st.body, st.orelse)) \
                and not (self.terminates(st.body) and self.terminates(st.orelse))
        if isinstance(st, ast.Assign) and len(st.targets) == 1:
            t = st.targets[0]
            if isinstance(t, ast.Name):
                return t.id == v
            if isinstance(t, ast.Tuple):
                return any(isinstance(x, ast.Name) and x.id == v for x in t.elts)
        return False

    def local_to(self, v, S):
        """every read of `v` in the function lies inside statement `S` and comes after an unconditional assignment to `v`
        made inside `S` on the way to it: the value `v` has when `S` is entered / left is never read"""
        inside = {id(x) for x in ast.walk(S)}
        for n in ast.walk(self.f):
            is_read = isinstance(n, ast.Name) and n.id == v and (
                isinstance(n.ctx, ast.Load) or isinstance(self.parents[n][0], ast.AugAssign))
            if not is_read:
                continue
            if id(n) not in inside:
                return False
            cur = self.stmt_of(n)
            if isinstance(cur, ast.AugAssign) and n is cur.target:
                pass
            found = False
            while cur is not S:
                owner, fld, idx = self.parents[cur]
                block = getattr(owner, fld)
                if any(self.assigns_uncond(b, v) for b in block[:idx]):
                    found = True
                    break
                # a read in the test of `owner` is evaluated before owner's blocks: handled by climbing from owner
                cur = owner
                if not isinstance(cur, ast.stmt):
                    return False
            if not found:
                return False
        return True

    def merge(self, envs, before, S, node):
        """environment after the branches `envs` (None = the branch does not fall through) of statement S"""
        live = [e for e in envs if e is not None]
        if not live:
            return None
        out = {}
        names = []
        for e in live:
            for v in e:
                if v not in names:
                    names.append(v)
        for v in names:
            tys = {e[v][0] for e in live if v in e}
            if len(tys) > 1:
                raise Unsupported(node, 'variable %s has the types %s on different paths' % (v, sorted(tys)))
            ty = tys.pop()
            if v not in before and self.local_to(v, S):
                continue
            st = 'b' if all(v in e and e[v][1] == 'b' for e in live) else 'm'
            out[v] = (ty, st)
        return out

    def assigned_in(self, stmts):
        out = []
        for s in stmts:
            for n in ast.walk(s):
                if isinstance(n, ast.Name) and isinstance(n.ctx, ast.Store) and n.id not in out:
                    out.append(n.id)
        return out

    def flow(self, stmts, env):
        """the environment after `stmts` (None: does not fall through); types only, no code"""
        env = dict(env)
        for s in stmts:
            if isinstance(s, ast.Assign):
                for v, e in self.assign_parts(s, env):
                    env[v] = (self.assign_type(v, e, env, s), 'b')
            elif isinstance(s, ast.AugAssign):
                v, e = self.aug_parts(s, env)
                env[v] = (self.assign_type(v, e, env, s), 'b')
            elif isinstance(s, ast.If):
                self.truth(s.test, env)
                a = self.flow(s.body, env)
                b = self.flow(s.orelse, env)
                env = self.merge([a, b], env, s, s)
                if env is None:
                    return None
            elif isinstance(s, ast.While):
                env = self.loop_env(s, env)[0]
            elif isinstance(s, (ast.Raise, ast.Return)):
                return None
            elif isinstance(s, (ast.Pass, ast.Expr)):
                pass
            else:
                raise Unsupported(s, 'statement')
        return env

    def loop_env(self, s, env):
        """-> (environment at the loop head = after the loop, carried variables)"""
        if s.orelse:
            raise Unsupported(s, 'while-else')
        head = dict(env)
        for _ in range(6):
            after = self.flow(s.body, head)
            new = self.merge([env, after], env, s, s)
            if new == head:
                break
            head = new
        else:
            raise Unsupported(s, 'loop typing does not converge')
        carried = sorted(v for v in self.assigned_in(s.body) if v in head)     # canonical: not the statement order
        return head, carried

    def assign_parts(self, s, env):
        if len(s.targets) != 1:
            raise Unsupported(s, 'chained assignment')
        t = s.targets[0]
        if isinstance(t, ast.Name):
            return [(t.id, self.expr(s.value, env))]
        if isinstance(t, ast.Tuple) and isinstance(s.value, ast.Tuple) and len(t.elts) == len(s.value.elts) \
                and all(isinstance(x, ast.Name) for x in t.elts):
            names = [x.id for x in t.elts]
            if len(set(names)) != len(names):
                raise Unsupported(s, 'a name twice in one tuple target')
            return [(x.id, self.expr(v, env)) for x, v in zip(t.elts, s.value.elts)]
        raise Unsupported(s, 'assignment target')

    def aug_parts(self, s, env):
        if not isinstance(s.target, ast.Name):
            raise Unsupported(s, 'augmented assignment target')
        load = ast.copy_location(ast.Name(id=s.target.id, ctx=ast.Load()), s.target)
        return s.target.id, self.binop(s, s.op, self.expr(load, env), self.expr(s.value, env))

    def assign_type(self, v, e, env, node):
        if v in self.spec['params']:
            ty = self.spec['params'][v]
        elif v in env:
            ty = env[v][0]
        else:
            return self.settle(e, node).ty
        self.coerce(e, ty, node)
        return ty

    # ------------------------------------------------------------------ statements (CPS)
    def pack(self, names, env_to, env_from):
        """arguments handing the variables `names` of `env_from` to a join point / loop whose environment is `env_to`"""
        out = []
        for v in names:
            want = env_to[v][1]
            if v not in env_from:
                if want != 'm':
                    raise Unsupported(self.f, 'internal: %s unbound at a join' % v)
                out.append('none')
            elif want == 'm' and env_from[v][1] == 'b':
                out.append('(some %s)' % mangle(v))
            else:
                out.append(mangle(v))
        return out

    def block(self, stmts, env, k):
        """Lean code (a `G α R`) of `stmts` followed by the continuation `k : env -> code`"""
        if not stmts:
            return k(env)
        s, rest = stmts[0], stmts[1:]
        nxt = lambda e: self.block(rest, e, k)      # noqa: E731
        if isinstance(s, ast.Expr) and isinstance(s.value, ast.Constant) and isinstance(s.value.value, str):
            return nxt(env)
        if isinstance(s, ast.Pass):
            return nxt(env)
        if isinstance(s, ast.Expr) and isinstance(s.value, ast.Yield):
            if s.value.value is None:
                raise Unsupported(s, 'bare yield')
            e = self.coerce(self.expr(s.value.value, env), self.spec['result'], s)
            y = self.combine([e], lambda p: E('(G.yield_ %s)' % p[0], 'Unit', True))
            return 'G.bind %s fun _ =>\n%s' % (y.code, nxt(env))
        if isinstance(s, ast.Expr):
            raise Unsupported(s, 'expression statement')
        if isinstance(s, ast.Raise):
            return self.raise_(s, env)
        if isinstance(s, ast.Return):
            if self.gen:
                if s.value is not None:
                    raise Unsupported(s, 'return with a value in a generator')
                return 'G.ret'
            if self.in_loop:
                raise Unsupported(s, 'return inside a loop of a function')
            if s.value is None:
                raise Unsupported(s, 'return without a value')
            e = self.expr(s.value, env)
            if e.ty != self.spec['result']:
                raise Unsupported(s, 'returns %s, the spec declares %s' % (e.ty, self.spec['result']))
            return self.as_g(e)
        if isinstance(s, (ast.Assign, ast.AugAssign)):
            parts = self.assign_parts(s, env) if isinstance(s, ast.Assign) else [self.aug_parts(s, env)]
            new = dict(env)
            vals = []
            for v, e in parts:
                ty = self.assign_type(v, e, env, s)
                vals.append((v, self.coerce(e, ty, s) if (v in env or v in self.spec['params']) else self.settle(e, s)))
                new[v] = (ty, 'b')
            if len(vals) == 1:
                v, e = vals[0]
                if e.eff:
                    return 'G.bind %s fun %s =>\n%s' % (e.code, mangle(v), nxt(new))
                return 'let %s := %s\n%s' % (mangle(v), e.code, nxt(new))
            # tuple assignment: all right-hand sides first (left to right), then the bindings
            lines, temps = [], []
            for v, e in vals:
                t = self.fresh()
                temps.append(t)
                lines.append(('G.bind %s fun %s =>' % (e.code, t)) if e.eff else ('let %s := %s' % (t, e.code)))
            for (v, e), t in zip(vals, temps):
                lines.append('let %s := %s' % (mangle(v), t))
            return '\n'.join(lines) + '\n' + nxt(new)
        if isinstance(s, ast.If):
            return self.if_(s, env, nxt)
        if isinstance(s, ast.While):
            return self.while_(s, env, nxt)
        raise Unsupported(s, 'statement')

    def raise_(self, s, env):
        if s.cause is not None or s.exc is None:
            raise Unsupported(s, 'raise form')
        x = s.exc
        if isinstance(x, ast.Name):
            cls, args = x.id, []
        elif isinstance(x, ast.Call) and isinstance(x.func, ast.Name) and not x.keywords:
            cls, args = x.func.id, x.args
        else:
            raise Unsupported(s, 'raise form')
        if cls not in EXC or cls in env:
            raise Unsupported(s, 'exception class %s' % cls)
        for a in args:                     # the message is not modelled; building it must not be able to raise
            ok = isinstance(a, ast.Constant)
            if isinstance(a, ast.BinOp) and isinstance(a.op, ast.Mod) and isinstance(a.left, ast.Constant) \
                    and isinstance(a.left.value, str):
                items = a.right.elts if isinstance(a.right, ast.Tuple) else [a.right]
                ok = all(isinstance(i, ast.Name) and i.id in env and env[i.id][1] == 'b' for i in items) \
                    and self.fmt_ok(a.left.value, len(items))
            if not ok:
                raise Unsupported(s, 'exception message')
        return 'G.raise .%s' % cls

    @staticmethod
    def fmt_ok(fmt, n):
        import re
        specs = re.findall(r'%(.)', fmt.replace('%%', ''))
        return len(specs) == n and all(c in 'rs' for c in specs)

    def if_(self, s, env, nxt):
        c = self.truth(s.test, env)
        ea, eb = self.flow(s.body, env), self.flow(s.orelse, env)
        merged = self.merge([ea, eb], env, s, s)
        if merged is None:                     # neither branch falls through: the rest is unreachable
            a = self.block(s.body, env, lambda e: 'G.ret')
            b = self.block(s.orelse, env, lambda e: 'G.ret')
            return self.cond(c, a, b)
        if ea is None or eb is None:           # one branch falls through: no join point
            k1 = lambda e: nxt({v: e[v] for v in merged})       # noqa: E731
            a = self.block(s.body, env, k1)
            b = self.block(s.orelse, env, k1)
            return self.cond(c, a, b)
        changed = [v for v in merged if v not in env or merged[v] != env[v] or
                   v in self.assigned_in(s.body) or v in self.assigned_in(s.orelse)]
        self.njoin += 1
        kname = 'k%d' % self.njoin
        while kname in self.pynames:
            kname += '_'
        rest_env = dict(merged)
        rest = nxt(rest_env)
        binders = ' '.join('(%s : %s)' % (mangle(v), opt_ty(*merged[v])) for v in changed) or '(_ : Unit)'

        def call(e):
            return ('%s %s' % (kname, ' '.join(self.pack(changed, merged, e)))) if changed else '%s ()' % kname
        a = self.block(s.body, env, call)
        b = self.block(s.orelse, env, call)
        return 'let %s := fun %s =>\n%s\n%s' % (kname, binders, ind(rest), self.cond(c, a, b))

    def cond(self, c, a, b):
        if c.eff:
            t = self.fresh()
            return 'G.bind %s fun %s =>\n(if %s then\n%s\nelse\n%s)' % (c.code, t, t, ind(a), ind(b))
        return '(if %s then\n%s\nelse\n%s)' % (c.code, ind(a), ind(b))

    def while_(self, s, env, nxt):
        head, carried = self.loop_env(s, env)
        lname = '%s.loop%d' % (self.name, self.loop_no[id(s)])
        used = {n.id for n in ast.walk(s) if isinstance(n, ast.Name)}
        fixed = sorted(v for v in env if v not in carried and v in used and v in head)
        fix_b = ' '.join('(%s : %s)' % (mangle(v), opt_ty(*head[v])) for v in fixed)
        car_t = [opt_ty(*head[v]) for v in carried]
        res_t = ' × '.join(car_t) if carried else 'Unit'
        res_v = ('(%s)' % ', '.join(mangle(v) for v in carried)) if len(carried) != 1 else mangle(carried[0])
        if not carried:
            res_v = '()'
        rec = '%s rnd %s fuel' % (lname, ' '.join(mangle(v) for v in fixed))

        def again(e):
            return ' '.join([rec] + self.pack(carried, head, e))
        self.in_loop += 1
        c = self.truth(s.test, head)
        body = self.block(s.body, head, again)
        self.in_loop -= 1
        text = ('/-- `while %s:` (line %d of the function) -/\n'
                'def %s (rnd : Nat → α) %s : Nat → %sG α (%s)\n'
                '  | 0%s => G.outOfFuel\n'
                '  | fuel + 1%s =>\n%s\n' % (
                    ast.unparse(s.test), s.lineno - self.f.lineno + 1, lname, fix_b,
                    ''.join(t + ' → ' for t in [('(%s)' % t if ' ' in t else t) for t in car_t]), res_t,
                    ''.join(', _' for _ in carried), ''.join(', ' + mangle(v) for v in carried),
                    ind(self.cond(c, body, 'G.pure %s' % res_v), 2)))
        self.loops.append((self.loop_no[id(s)], text))
        out_env = dict(head)
        call = ' '.join(['%s rnd %s fuel' % (lname, ' '.join(mangle(v) for v in fixed))] + self.pack(carried, head, env))
        return 'G.bind (%s) fun %s =>\n%s' % (call, res_v if carried else '_', nxt(out_env))

    # ------------------------------------------------------------------ whole function
    def emit(self):
        env = {p: (t, 'b') for p, t in self.spec['params'].items()}
        params = ' '.join('(%s : %s)' % (mangle(p), LEAN_TY[t]) for p, t in self.spec['params'].items())
        if self.gen:
            if self.spec['result'] != 'A':
                raise Unsupported(self.f, 'a generator yields carrier values')
            body = self.block(self.f.body, env, lambda e: 'G.ret')
            head = ('/-- `%s` (generator): what `n` calls of `next()` on a fresh generator show; `fuel` bounds every\n'
                    '    `while` loop, `rnd` is the script of `random.random()` results -/\n'
                    'def %s (fuel n : Nat) (rnd : Nat → α) %s : List α × Stop :=\n  G.run n (\n%s)\n' % (
                        self.spec['qualname'], self.name, params, ind(body, 2)))
        else:
            if self.spec['result'] != 'ListA':
                raise Unsupported(self.f, 'result type')
            if not self.terminates(self.f.body):
                raise Unsupported(self.f, 'a function must end in return / raise on every path')
            body = self.block(self.f.body, env, lambda e: 'G.ret')
            head = ('/-- `%s`: the value returned or the exception class; `fuel` bounds every `while` loop and the length of\n'
                    '    a generator handed to `list`, `rnd` is the script of `random.random()` results -/\n'
                    'def %s (fuel : Nat) (rnd : Nat → α) %s : Except PyExc (List α) :=\n  PyRtC15.runFn (α := α) (\n%s)\n' % (
                        self.spec['qualname'], self.name, params, ind(body, 2)))
        return '\n'.join([t for _, t in self.loops] + [head])


def dfs(node):
    """pre-order walk (the order of the text, also after helpers were inlined)"""
    yield node
    for ch in ast.iter_child_nodes(node):
        yield from dfs(ch)


# ---------------------------------------------------------------------------------------------- pre-pass
class _Rename(ast.NodeTransformer):
    def __init__(self, m):
        self.m = m

    def visit_Name(self, n):
        return ast.copy_location(ast.Name(id=self.m.get(n.id, n.id), ctx=n.ctx), n)


def _locals_of(fdef):
    return {a.arg for a in fdef.args.args} | {n.id for n in ast.walk(fdef)
                                               if isinstance(n, ast.Name) and isinstance(n.ctx, (ast.Store, ast.Del))}


def _inlinable(h, caller, n_args):
    """a private module-level helper that can be inlined at a statement: plain positional parameters, no yield / nested
    scopes, `return` only as its last top-level statement, and no free name that is a local of the caller"""
    a = h.args
    if a.vararg or a.kwarg or a.kwonlyargs or a.posonlyargs or a.defaults or h.decorator_list or len(a.args) != n_args:
        return False
    body = h.body
    for n in ast.walk(h):
        if n is not h and isinstance(n, (ast.FunctionDef, ast.AsyncFunctionDef, ast.Lambda, ast.ClassDef, ast.Yield,
                                         ast.YieldFrom, ast.Global, ast.Nonlocal)):
            return False
        if isinstance(n, ast.Return) and n is not body[-1]:
            return False
        if isinstance(n, ast.Call) and isinstance(n.func, ast.Name) and n.func.id == h.name:
            return False
    free = {n.id for n in ast.walk(h) if isinstance(n, ast.Name)} - _locals_of(h)
    return not (free & _locals_of(caller))


def prepass(fdef, tree, notes):
    """syntactic rewritings into the subset (each exact; skipped when a side condition fails, the construct then reaches the
    translator and is refused there):
      inline   `h(a, …)` as a statement / `v = h(a, …)` for a private module-level helper `h` (see `_inlinable`): the
               arguments are bound to fresh copies of h's parameters, h's locals are renamed apart, `return e` becomes
               `v = e`
      for-count `for n in itertools.count(): if not C: break; B`  ->  `n = 0; while C: B; n += 1`  (no other break /
               continue in B, B does not assign n)"""
    import copy
    fdef = copy.deepcopy(fdef)
    helpers = {n.name: n for n in tree.body if isinstance(n, ast.FunctionDef)}
    counter = [0]

    def inline_call(call, target):
        if not (isinstance(call, ast.Call) and isinstance(call.func, ast.Name) and call.func.id in helpers
                and call.func.id.startswith('_') and not call.keywords
                and not any(isinstance(x, ast.Starred) for x in call.args)):
            return None
        h = helpers[call.func.id]
        if h.name == fdef.name or not _inlinable(h, fdef, len(call.args)):
            return None
        has_ret = isinstance(h.body[-1], ast.Return) and h.body[-1].value is not None
        if (target is None) == has_ret:          # a value nobody takes / no value to take
            return None
        counter[0] += 1
        m = {v: '%s_%s%d' % (v, h.name.strip('_'), counter[0]) for v in _locals_of(h)}
        taken = _locals_of(fdef) | set(helpers)
        if any(v in taken for v in m.values()):
            return None
        body = [copy.deepcopy(x) for x in h.body]
        if body and isinstance(body[0], ast.Expr) and isinstance(body[0].value, ast.Constant) \
                and isinstance(body[0].value.value, str):
            body = body[1:]
        out = [ast.Assign(targets=[ast.Name(id=m[a.arg], ctx=ast.Store())], value=x) for a, x in zip(h.args.args, call.args)]
        ren = _Rename(m)
        body = [ren.visit(x) for x in body]
        if has_ret:
            ret = body.pop()
            out += body + [ast.Assign(targets=[target], value=ret.value)]
        else:
            if body and isinstance(body[-1], ast.Return):
                body.pop()
            out += body
        notes.append('inline:' + h.name)
        return [ast.copy_location(x, call) for x in out] or [ast.copy_location(ast.Pass(), call)]

    def for_count(st):
        if not (isinstance(st, ast.For) and isinstance(st.target, ast.Name) and not st.orelse
                and isinstance(st.iter, ast.Call) and not st.iter.args and not st.iter.keywords
                and isinstance(st.iter.func, ast.Attribute) and st.iter.func.attr == 'count'
                and isinstance(st.iter.func.value, ast.Name) and st.iter.func.value.id == 'itertools'
                and 'itertools' not in _locals_of(fdef)
                and any(isinstance(x, ast.Import) and any(a.name == 'itertools' and a.asname is None for a in x.names)
                        for x in tree.body)
                and not any(isinstance(x, (ast.FunctionDef, ast.ClassDef)) and x.name == 'itertools' for x in tree.body)):
            return None
        b = st.body
        if not (b and isinstance(b[0], ast.If) and not b[0].orelse and len(b[0].body) == 1
                and isinstance(b[0].body[0], ast.Break)):
            return None
        rest = b[1:]
        for x in rest:
            for n in ast.walk(x):
                if isinstance(n, (ast.Break, ast.Continue)) or (
                        isinstance(n, ast.Name) and n.id == st.target.id and isinstance(n.ctx, ast.Store)):
                    return None
        t = b[0].test
        cond = t.operand if isinstance(t, ast.UnaryOp) and isinstance(t.op, ast.Not) else ast.UnaryOp(op=ast.Not(), operand=t)
        v = st.target.id
        init = ast.Assign(targets=[ast.Name(id=v, ctx=ast.Store())], value=ast.Constant(value=0))
        step = ast.AugAssign(target=ast.Name(id=v, ctx=ast.Store()), op=ast.Add(), value=ast.Constant(value=1))
        loop = ast.While(test=cond, body=rest + [step], orelse=[])
        notes.append('for-count')
        return [ast.copy_location(x, st) for x in (init, loop)]

    def rewrite_block(block):
        out = []
        for st in block:
            for fld in ('body', 'orelse'):
                if isinstance(getattr(st, fld, None), list) and isinstance(st, (ast.If, ast.While, ast.For)):
                    setattr(st, fld, rewrite_block(getattr(st, fld)))
            new = None
            if isinstance(st, ast.Expr):
                new = inline_call(st.value, None)
            elif isinstance(st, ast.Assign) and len(st.targets) == 1 and isinstance(st.targets[0], ast.Name):
                new = inline_call(st.value, st.targets[0])
            elif isinstance(st, ast.For):
                new = for_count(st)
            if new is None:
                out.append(st)
            else:
                out.extend(rewrite_block(new) if any(isinstance(x, (ast.If, ast.While, ast.For)) for x in new) and False else new)
        return out

    for _ in range(4):                            # helpers calling helpers: a few rounds
        before = len(notes)
        fdef.body = rewrite_block(fdef.body)
        if len(notes) == before:
            break
    ast.fix_missing_locations(fdef)
    return fdef


# ---------------------------------------------------------------------------------------------- module
def find_function(tree, qualname):
    hits = [n for n in tree.body if isinstance(n, ast.FunctionDef) and n.name == qualname]
    if len(hits) != 1:
        raise Unsupported(qualname, 'expected exactly one module-level def, found %d' % len(hits))
    return hits[0]


def translate_source(src, specs, module_name, rel):
    tree = ast.parse(src)
    short = module_name.split('.')[-1]
    parts, infos, head, emitted = [], [], [], []
    for spec in specs:
        info = {'function': '%s.%s' % (module_name, spec['qualname']), 'source_file': rel, 'lines': None,
                'lean_def': 'Src.%s.%s' % (short, spec['lean_name']), 'lean_pre': None,
                'tie_theorem': spec['tie_theorem']}
        infos.append(info)
        try:
            fdef = find_function(tree, spec['qualname'])
            info['lines'] = '%d-%d' % (fdef.lineno, fdef.end_lineno)
            notes = []
            fdef = prepass(fdef, tree, notes)
            if notes:
                info['prepass'] = ['c15:' + x for x in notes]
            text = FnTr(fdef, spec, tree, emitted).emit()
            emitted.append(spec)
        except (Unsupported, RecursionError) as e:
            info['error'] = str(e) or type(e).__name__
            parts.append('-- NOT TRANSLATED: %s: %s\n' % (spec['qualname'], info['error'].replace('\n', ' ')))
            head.append('  %s -> NOT TRANSLATED' % spec['qualname'])
            continue
        parts.append(text)
        head.append('  %s (lines %s) -> Src.%s.%s' % (spec['qualname'], info['lines'], short, spec['lean_name']))
    out = ('/- GENERATED by harness/py2lean_c15.py (generators over an abstract number carrier) from %s - do not edit.\n'
           '   Translation of the current source text (rules: notes/SRCTIE.md, section 2d):\n%s\n-/\n'
           'import BoltonsVerif.PyRtC15\n\nnamespace Src.%s\nopen PyRtC15\n\nsection\n'
           'variable {α : Type} %s\n\n%s\nend\n\nend Src.%s\n' % (
               rel, '\n'.join(head), short, CARRIER_CLASSES, '\n'.join(parts), short))
    return out, infos


def translate_module(module_name, specs, repo):
    mod = importlib.import_module(module_name)
    path = os.path.abspath(inspect.getsourcefile(mod))
    if not path.startswith(os.path.abspath(repo) + os.sep):
        raise RuntimeError('%s imported from %s, not from %s' % (module_name, path, repo))
    with open(path) as fh:
        src = fh.read()
    return translate_source(src, specs, module_name, os.path.relpath(path, os.path.abspath(repo)))


def selftest(pids, quick=False, seed=0, verbose=True):
    import py2lean_c15_selftest
    return py2lean_c15_selftest.run(pids, quick=quick, seed=seed, verbose=verbose)
