"""py2lean_c11 - source translator for the interval / tombstone bookkeeping of boltons.setutils.IndexedSet
(SrcTie, round 3d; spec key `translator: 'py2lean_c11'`).

`IndexedSet` works BY ALIASING: every helper starts with local aliases of the object's lists
(`dints = self.dead_indices`, `items, ii_map = self.item_list, self.item_index_map`) and mutates through them, and the
`[start, stop]` intervals of `dead_indices` are two-slot lists that `_add_dead` reaches through a local
(`dint = dints[int_idx - 1]; dint[0] = start`).  This module translates those methods, statement by statement and
compositionally, into the combinators of `lean/BoltonsVerif/PyRtC11.lean` over the OBJECT STORE of `PyHeap.lean`
(heap mode): the intervals are cells of the store, the two list attributes are Lean lists of dynamic values `Val`
(items: `key k` / the `_MISSING` sentinel; intervals: `ref a`).

Rules: notes/SRCTIE.md section 2d.  Anything not listed there raises `Unsupported`: the method is then "not
translated", no definition is emitted and its tie theorems stop checking.  Trusted like py2lean.py; validated against
CPython (the real class, the real `bisect.bisect_left`) by `selftest` below (called by py2lean_selftest.run).

Public API (through the dispatch of py2lean.generate / py2lean_selftest.run):
    translate_module(module_name, specs, repo) -> (text of Generated/Src_<gen_file>.lean, infos)
    selftest(pids, quick, seed, verbose) -> (number of mismatches, report)
"""
from __future__ import annotations

import ast
import importlib
import inspect
import os

from py2lean import Unsupported, EXC_NAMES

RT_IMPORT = 'PyRtC11'

# ------------------------------------------------------------------------------------------------ types
# Int | Bool | None | Key (the item type κ) | Val (a dynamic value) | Option Int | List Val | Dict Key Int | Heap
INT, BOOL, UNIT, KEY, VAL, OPTINT, LVAL, DICT, HEAP = 'Int', 'Bool', 'None', 'Key', 'Val', 'Option Int', 'List Val', \
    'Dict Key Int', 'Heap'
ENUM = 'List (Int × Val)'
_LEAN = {INT: 'Int', BOOL: 'Bool', UNIT: 'Unit', KEY: 'κ', VAL: 'Val κ Unit', OPTINT: 'Option Int',
         LVAL: 'List (Val κ Unit)', DICT: 'PyRt.Dict κ Int', HEAP: 'Heap κ Unit', ENUM: 'List (Int × Val κ Unit)'}
_DEFAULT = {INT: '(0 : Int)', BOOL: 'false', UNIT: '()', KEY: 'default', VAL: 'Val.none', OPTINT: 'none',
            LVAL: '[]', DICT: '[]', HEAP: 'Heap.empty', ENUM: '[]'}


def lean_type(t, top=True):
    r = _LEAN[t]
    return r if top or ' ' not in r else '(' + r + ')'


def field_of(attr):
    return attr.lstrip('_')


class E:
    """a translated expression: `term` has the Lean type of `typ` when `pure`, else `Except PyExc <typ>`"""
    def __init__(self, term, typ, pure=True):
        self.term, self.typ, self.pure = term, typ, pure


class Binds:
    """a chain of `bx` binds in evaluation order"""
    def __init__(self, tr):
        self.tr, self.items = tr, []

    def use(self, e: E) -> str:
        if e.pure:
            return e.term
        v = self.tr.fresh()
        self.items.append((v, e.term))
        return v

    def wrap(self, final: str) -> str:
        """final : a term of type `Except PyExc T`"""
        for v, t in reversed(self.items):
            final = '(bx %s (fun %s => %s))' % (t, v, final)
        return final

    def done(self, term: str, typ) -> E:
        if not self.items:
            return E(term, typ, True)
        return E(self.wrap('(.ok %s)' % term), typ, False)


def lift(e: E) -> str:
    return e.term if not e.pure else '(.ok %s)' % e.term


# ------------------------------------------------------------------------------------------------ class-level facts
def _self_attr(node, self_name='self'):
    return (isinstance(node, ast.Attribute) and isinstance(node.value, ast.Name) and node.value.id == self_name)


def attrs_rebound(cdef: ast.ClassDef):
    """attributes some method other than `__init__` binds (`self.a = …`, `self.a op= …`, `del self.a`): an alias of such
    an attribute could go stale"""
    out = set()
    for fn in cdef.body:
        if not isinstance(fn, ast.FunctionDef) or fn.name == '__init__':
            continue
        self_name = fn.args.args[0].arg if fn.args.args else None
        for n in ast.walk(fn):
            tgts = []
            if isinstance(n, ast.Assign):
                tgts = n.targets
            elif isinstance(n, (ast.AugAssign, ast.AnnAssign)):
                tgts = [n.target]
            elif isinstance(n, ast.Delete):
                tgts = n.targets
            for t in tgts:
                for u in (t.elts if isinstance(t, (ast.Tuple, ast.List)) else [t]):
                    if _self_attr(u, self_name):
                        out.add(u.attr)
    return out


def module_int_constant(tree: ast.Module, name: str):
    """the value of a module-level `NAME = <int literal>` bound exactly once in the module (and never `global`)"""
    vals = []
    for n in ast.walk(tree):
        if isinstance(n, ast.Global) and name in n.names:
            raise Unsupported(n, 'global %s' % name)
        if isinstance(n, ast.Name) and n.id == name and isinstance(n.ctx, (ast.Store, ast.Del)):
            vals.append(n)
    top = [st for st in tree.body if isinstance(st, ast.Assign) and len(st.targets) == 1
           and isinstance(st.targets[0], ast.Name) and st.targets[0].id == name]
    if len(vals) != 1 or len(top) != 1 or not isinstance(top[0].value, ast.Constant) \
            or type(top[0].value.value) is not int:
        raise Unsupported('module', '%s is not a module-level int constant bound once' % name)
    return top[0].value.value


def _module_import_plain(tree, name):
    """`import <name>` once at module level and the name bound nowhere else in the module"""
    n_imp = sum(1 for n in tree.body if isinstance(n, ast.Import) for a in n.names if a.name == name and a.asname is None)
    others = 0
    for n in ast.walk(tree):
        if isinstance(n, ast.Name) and n.id == name and isinstance(n.ctx, (ast.Store, ast.Del)):
            others += 1
        elif isinstance(n, (ast.FunctionDef, ast.ClassDef)) and n.name == name:
            others += 1
        elif isinstance(n, ast.arg) and n.arg == name:
            others += 1
        elif isinstance(n, ast.ImportFrom):
            others += sum(1 for a in n.names if (a.asname or a.name) == name)
        elif isinstance(n, ast.Import):
            others += sum(1 for a in n.names if a.asname == name or (a.name == name and n not in tree.body))
    return n_imp == 1 and others == 0


def module_import_ok(tree: ast.Module, mod: str, name: str):
    """`from <mod> import <name>` at top level and `name` bound nowhere else in the module"""
    found = False
    for st in tree.body:
        if isinstance(st, ast.ImportFrom) and st.module == mod and any(a.name == name and a.asname is None for a in st.names):
            found = True
    if not found:
        return False
    for n in ast.walk(tree):
        if isinstance(n, ast.Name) and n.id == name and isinstance(n.ctx, (ast.Store, ast.Del)):
            return False
        if isinstance(n, (ast.FunctionDef, ast.ClassDef)) and n.name == name:
            return False
        if isinstance(n, ast.arg) and n.arg == name:
            return False
    return True


# ------------------------------------------------------------------------------------------------ the translator
class MethodTr:
    def __init__(self, fdef: ast.FunctionDef, spec: dict, tree: ast.Module, cdef: ast.ClassDef, emitted: dict):
        self.fdef, self.spec, self.tree, self.cdef, self.emitted = fdef, spec, tree, cdef, emitted
        self.cls = spec['cls']
        self.state = {a: t for a, t in self.cls['state'].items()}
        self.n_fresh = 0
        self.mutates = False
        self.uses_fuel = False
        self.aliases = {}            # local name -> attribute it names
        self.vars = {}               # python name -> (lean field, type)   (parameters and locals)
        self.order = []              # python names in field order
        self.rules = []              # applied rules, for the evidence
        a = fdef.args
        if a.vararg or a.kwarg or a.kwonlyargs or a.posonlyargs:
            raise Unsupported(fdef, 'star / keyword-only parameters')
        if fdef.decorator_list and not self.spec.get('property'):
            raise Unsupported(fdef, 'decorated method')
        if self.spec.get('property'):
            if [ast.dump(d) for d in fdef.decorator_list] != [ast.dump(ast.Name('property', ast.Load()))]:
                raise Unsupported(fdef, 'not a plain @property')
        names = [x.arg for x in a.args]
        if not names:
            raise Unsupported(fdef, 'no self parameter')
        self.self_name = names[0]
        if names[1:] != list(spec['params']):
            raise Unsupported(fdef, 'parameters %r differ from the spec %r' % (names[1:], list(spec['params'])))
        ndef = len(a.defaults)
        self.defaults = {}
        for nm, d in zip(names[len(names) - ndef:], a.defaults):
            if not isinstance(d, ast.Constant) or not (d.value is None or type(d.value) in (int, bool)):
                raise Unsupported(d, 'non-constant default')
            self.defaults[nm] = d.value
        for p, t in spec['params'].items():
            if t not in _LEAN:
                raise Unsupported(fdef, 'parameter type %r' % t)
            self.vars[p] = (p if p not in _RESERVED else p + '_', t)
            self.order.append(p)
        for n in ast.walk(fdef):
            if isinstance(n, (ast.FunctionDef, ast.AsyncFunctionDef, ast.Lambda, ast.ClassDef)) and n is not fdef:
                raise Unsupported(n, 'nested function / class')
            if isinstance(n, (ast.Global, ast.Nonlocal, ast.Yield, ast.YieldFrom, ast.Await, ast.With, ast.NamedExpr,
                              ast.Starred)):
                raise Unsupported(n, type(n).__name__)
        self.rebound = attrs_rebound(cdef)
        self._find_aliases()

    # ---- helpers
    def fresh(self):
        self.n_fresh += 1
        return 'v%d' % self.n_fresh

    def _stores(self, name):
        return [n for n in ast.walk(self.fdef) if isinstance(n, ast.Name) and n.id == name
                and isinstance(n.ctx, (ast.Store, ast.Del))]

    def _find_aliases(self):
        """rule A1: a TOP-LEVEL statement `x = self.a` / `x, y = self.a, self.b` where `a` is a declared list / dict
        attribute that no method of the class (but `__init__`) ever rebinds, and `x` is bound exactly once in the method,
        is no statement: `x` IS `self.a` (one object) in everything that follows"""
        body = self.fdef.body
        for i, st in enumerate(body):
            if not (isinstance(st, ast.Assign) and len(st.targets) == 1):
                continue
            tgt, val = st.targets[0], st.value
            pairs = None
            if isinstance(tgt, ast.Name) and _self_attr(val, self.self_name):
                pairs = [(tgt, val)]
            elif isinstance(tgt, ast.Tuple) and isinstance(val, ast.Tuple) and len(tgt.elts) == len(val.elts) \
                    and all(isinstance(t, ast.Name) for t in tgt.elts) \
                    and all(_self_attr(v, self.self_name) for v in val.elts):
                pairs = list(zip(tgt.elts, val.elts))
            if pairs is None:
                continue
            ok = True
            for t, v in pairs:
                if v.attr not in self.state or self.state[v.attr] not in (LVAL, DICT) or v.attr in self.rebound \
                        or t.id in self.vars or len(self._stores(t.id)) != 1 or t.id == self.self_name:
                    ok = False
                # every other occurrence comes textually after the binding
                for n in ast.walk(self.fdef):
                    if isinstance(n, ast.Name) and n.id == t.id and n is not t and \
                            (n.lineno, n.col_offset) < (st.end_lineno, st.end_col_offset):
                        ok = False
            if not ok:
                continue
            for t, v in pairs:
                self.aliases[t.id] = v.attr
            st._c11_alias = True
            if 'A1:attribute-alias' not in self.rules:
                self.rules.append('A1:attribute-alias')

    def attr_of(self, node):
        """the declared container attribute a place expression names (`self.a` or an alias), else None"""
        if isinstance(node, ast.Name) and node.id in self.aliases:
            return self.aliases[node.id]
        if _self_attr(node, self.self_name) and node.attr in self.state and node.attr not in self.cls.get('virtual', ()):
            return node.attr
        return None

    def sget(self, attr):
        return 's.self.%s' % field_of(attr)

    def sset(self, updates: dict, locals_: dict = None):
        """`{ s with self := { s.self with a := …}, x := … }`"""
        parts = []
        if updates:
            self.mutates = True
            parts.append('self := { s.self with %s }' % ', '.join('%s := %s' % (field_of(a), v) for a, v in updates.items()))
        for x, v in (locals_ or {}).items():
            parts.append('%s := %s' % (x, v))
        return '{ s with %s }' % ', '.join(parts)

    def bind_local(self, name, typ, node):
        if name == self.self_name or name in self.aliases:
            raise Unsupported(node, 'assignment to %s' % name)
        if name in self.vars:
            f, t = self.vars[name]
            if t == typ or (t == OPTINT and typ in (INT, UNIT)) or (t == VAL and typ in (INT, KEY, UNIT, OPTINT)):
                return f, t
            raise Unsupported(node, 'variable %s used at types %s and %s' % (name, t, typ))
        if typ == UNIT:
            raise Unsupported(node, 'a local that is only None')
        f = 'loc%d' % (1 + sum(1 for x in self.vars.values() if x[0].startswith('loc')))
        self.vars[name] = (f, typ)
        self.order.append(name)
        return f, typ

    # ---- coercions
    def box(self, term, typ, node):
        if typ == VAL:
            return term
        if typ == INT:
            return '(Val.int %s)' % term
        if typ == KEY:
            return '(Val.key %s)' % term
        if typ == OPTINT:
            return '(boxOpt %s)' % term
        if typ == UNIT:
            return 'Val.none'
        raise Unsupported(node, 'a %s stored where a dynamic value is expected' % typ)

    def as_int(self, b: Binds, term, typ, node):
        """use a value as an int (arithmetic / ordering against an int): the coercion raises what Python raises"""
        if typ == INT:
            return term
        if typ == VAL:
            return b.use(E('(asInt? %s)' % term, INT, False))
        if typ == OPTINT:
            return b.use(E('(optInt? %s)' % term, INT, False))
        raise Unsupported(node, 'a %s used as an int' % typ)

    def store_as(self, term, typ, want, node):
        if typ == want:
            return term
        if want == OPTINT and typ == INT:
            return '(some %s)' % term
        if want == OPTINT and typ == UNIT:
            return 'none'
        if want == VAL:
            return self.box(term, typ, node)
        raise Unsupported(node, 'a %s stored into a %s' % (typ, want))

    # ---- expressions
    def expr(self, node) -> E:
        if isinstance(node, ast.Constant):
            v = node.value
            if v is None:
                return E('()', UNIT)
            if v is True or v is False:
                return E('true' if v else 'false', BOOL)
            if type(v) is int:
                return E('(%d : Int)' % v, INT)
            raise Unsupported(node, 'constant %r' % (v,))
        if isinstance(node, ast.Name):
            if node.id in self.aliases:
                return E(self.sget(self.aliases[node.id]), self.state[self.aliases[node.id]])
            if node.id in self.vars:
                f, t = self.vars[node.id]
                return E('s.%s' % f, t)
            if node.id in self.cls.get('sentinels', ()):
                return E('Val.sentinel', VAL)
            if node.id in self.cls.get('consts', ()):
                return E('(%d : Int)' % module_int_constant(self.tree, node.id), INT)
            raise Unsupported(node, 'name %s (not a parameter, a local bound before, a sentinel or a declared constant)' % node.id)
        if isinstance(node, ast.Attribute):
            if _self_attr(node, self.self_name):
                if node.attr in self.state and node.attr not in self.cls.get('virtual', ()):
                    return E(self.sget(node.attr), self.state[node.attr])
                m = self.method(node.attr, prop=True)
                if m is not None:
                    return self.call_pure(m, [], node)
            raise Unsupported(node, 'attribute %s' % ast.unparse(node))
        if isinstance(node, ast.UnaryOp):
            if isinstance(node.op, ast.USub):
                b = Binds(self)
                o = self.expr(node.operand)
                t = self.as_int(b, b.use(o), o.typ, node)
                return b.done('(-%s)' % t, INT)
            if isinstance(node.op, ast.Not):
                c = self.cond(node.operand)
                if c.pure:
                    return E('(!%s)' % c.term, BOOL)
                return E('(bx %s (fun c => .ok (!c)))' % c.term, BOOL, False)
            raise Unsupported(node, 'unary operator')
        if isinstance(node, ast.BinOp):
            ops = {ast.Add: '+', ast.Sub: '-', ast.Mult: '*'}
            if type(node.op) not in ops:
                raise Unsupported(node, 'operator %s' % type(node.op).__name__)
            b = Binds(self)
            l, r = self.expr(node.left), self.expr(node.right)
            lt, rt = b.use(l), b.use(r)
            # two dynamic values: only `-` (no built-in non-number supports it: `TypeError` exactly when `asInt?` fails;
            # `+` / `*` mean concatenation / repetition on lists and stay refused)
            both_dyn = l.typ == VAL and r.typ == VAL and isinstance(node.op, ast.Sub)
            if l.typ not in (INT, VAL, OPTINT) or r.typ not in (INT, VAL, OPTINT) or \
                    (INT not in (l.typ, r.typ) and not both_dyn):
                raise Unsupported(node, 'arithmetic on %s and %s' % (l.typ, r.typ))
            li = self.as_int(b, lt, l.typ, node)
            ri = self.as_int(b, rt, r.typ, node)
            return b.done('(%s %s %s)' % (li, ops[type(node.op)], ri), INT)
        if isinstance(node, ast.Compare):
            return self.cond(node)
        if isinstance(node, ast.BoolOp):
            # in VALUE position `a and b` / `a or b` return an operand: the same as the boolean only for Bool operands
            for v in node.values:
                if not (isinstance(v, (ast.Compare, ast.BoolOp)) or (isinstance(v, ast.UnaryOp) and isinstance(v.op, ast.Not))
                        or (isinstance(v, ast.Constant) and isinstance(v.value, bool))):
                    raise Unsupported(node, 'and/or returning an operand that is not a Bool')
            return self.cond(node)
        if isinstance(node, ast.Subscript):
            if isinstance(node.slice, ast.Slice):
                raise Unsupported(node, 'slice read')
            b = Binds(self)
            base = self.expr(node.value)
            bt = b.use(base)
            idx = self.expr(node.slice)
            it = b.use(idx)
            if base.typ == LVAL:
                ii = self.as_int_index(it, idx.typ, node)
                return E(b.wrap('(PyRt.index? %s %s)' % (bt, ii)), VAL, False)
            if base.typ == VAL:
                ii = self.as_int_index(it, idx.typ, node)
                return E(b.wrap('(Heap.get? s.self.heap %s %s)' % (bt, ii)), VAL, False)
            if base.typ == DICT:
                k = self.as_key(b, it, idx.typ, node)
                return E(b.wrap('(PyRt.Dict.get? %s %s)' % (bt, k)), INT, False)
            raise Unsupported(node, 'subscript of a %s' % base.typ)
        if isinstance(node, ast.Call):
            return self.call_expr(node)
        raise Unsupported(node, 'expression %s' % type(node).__name__)

    def as_int_index(self, term, typ, node):
        # an index must be an int statically (a dynamic value as an index is refused: `list[None]` etc. not modelled)
        if typ != INT:
            raise Unsupported(node, 'index of type %s' % typ)
        return term

    def as_key(self, b: Binds, term, typ, node):
        """the key of a dict LOOKUP / DELETION: a key, or a dynamic value (`Val.asKey?`: a list is unhashable, anything
        else that is not a key is a hashable object that is not among the keys)"""
        if typ == KEY:
            return term
        if typ == VAL:
            return b.use(E('(Val.asKey? %s)' % term, KEY, False))
        raise Unsupported(node, 'dict key of type %s' % typ)

    def truthy(self, term, typ, node):
        if typ == BOOL:
            return term
        if typ == INT:
            return '(decide (%s ≠ 0))' % term
        if typ in (LVAL, DICT):
            return '(!(%s).isEmpty)' % term
        raise Unsupported(node, 'truth value of a %s' % typ)

    def cond(self, node) -> E:
        """an expression in BOOLEAN position -> E of type Bool"""
        if isinstance(node, ast.BoolOp):
            parts = [self.cond(v) for v in node.values]
            comb = 'andE' if isinstance(node.op, ast.And) else 'orE'
            sym = '&&' if isinstance(node.op, ast.And) else '||'
            if all(p.pure for p in parts):
                return E('(%s)' % (' %s ' % sym).join(p.term for p in parts), BOOL)
            acc = lift(parts[-1])
            for p in reversed(parts[:-1]):
                acc = '(%s %s %s)' % (comb, lift(p), acc)
            return E(acc, BOOL, False)
        if isinstance(node, ast.UnaryOp) and isinstance(node.op, ast.Not):
            return self.expr(node)
        if isinstance(node, ast.Compare):
            return self.compare(node)
        e = self.expr(node)
        if e.pure:
            return E(self.truthy(e.term, e.typ, node), BOOL)
        v = self.fresh()
        return E('(bx %s (fun %s => .ok %s))' % (e.term, v, self.truthy(v, e.typ, node)), BOOL, False)

    def _is_true_div_by_const(self, node):
        return isinstance(node, ast.BinOp) and isinstance(node.op, ast.Div) and isinstance(node.right, ast.Name) \
            and node.right.id in self.cls.get('consts', ())

    def compare(self, node: ast.Compare) -> E:
        operands = [node.left] + list(node.comparators)
        # spec-declared comparison: `a > (b / C)`, C a positive module int constant
        if len(node.ops) == 1 and isinstance(node.ops[0], ast.Gt) and self._is_true_div_by_const(operands[1]):
            c = module_int_constant(self.tree, operands[1].right.id)
            if c <= 0:
                raise Unsupported(node, 'true division by a non-positive constant')
            b = Binds(self)
            a, bb = self.expr(operands[0]), self.expr(operands[1].left)
            at, bt = b.use(a), b.use(bb)
            if a.typ != INT or bb.typ != INT:
                raise Unsupported(node, 'float comparison on non-ints')
            if 'F1:int-vs-true-division' not in self.rules:
                self.rules.append('F1:int-vs-true-division')
            return b.done('(gtTrueDiv %s %s %d)' % (at, bt, c), BOOL)
        if len(node.ops) == 1:
            return self.compare1(None, self.expr(operands[0]), node.ops[0], operands[1], node)
        # a chain a op b op c: every operand evaluated once, a later link only when the earlier ones hold
        b = Binds(self)
        first = self.expr(operands[0])
        ft = b.use(first)
        left = E(ft, first.typ)
        acc = None

        def build(i, left):
            if i == len(node.ops):
                return '(.ok true)'
            bi = Binds(self)
            right = self.expr(operands[i + 1])
            rt = bi.use(right)
            link = self.link(bi, left.term, left.typ, node.ops[i], rt, right.typ, node)
            rest = build(i + 1, E(rt, right.typ))
            if rest == '(.ok true)':
                return bi.wrap('(.ok %s)' % link)
            return bi.wrap('(if %s then %s else .ok false)' % (link, rest))
        return E(b.wrap(build(0, left)), BOOL, False)

    def compare1(self, _b, left: E, op, right_node, node) -> E:
        b = Binds(self)
        lt = b.use(left)
        # identity tests with a constant written in the source
        if isinstance(op, (ast.Is, ast.IsNot)):
            neg = isinstance(op, ast.IsNot)
            if isinstance(right_node, ast.Constant) and right_node.value is None:
                if left.typ == OPTINT:
                    t = '(%s).isNone' % lt
                elif left.typ == VAL:
                    t = '(Val.isNone %s)' % lt
                else:
                    raise Unsupported(node, '`is None` on a %s' % left.typ)
            elif isinstance(right_node, ast.Name) and right_node.id in self.cls.get('sentinels', ()):
                if left.typ != VAL:
                    raise Unsupported(node, '`is <sentinel>` on a %s' % left.typ)
                t = '(Val.isSentinel %s)' % lt
            else:
                raise Unsupported(node, '`is` between two objects')
            return b.done('(!%s)' % t if neg else t, BOOL)
        right = self.expr(right_node)
        rt = b.use(right)
        return b.done(self.link(b, lt, left.typ, op, rt, right.typ, node), BOOL)

    def link(self, b: Binds, lt, ltyp, op, rt, rtyp, node) -> str:
        """one comparison on two evaluated operands -> a pure Bool term (coercions are added to `b`)"""
        if isinstance(op, (ast.In, ast.NotIn)):
            if rtyp != DICT:
                raise Unsupported(node, '`in` a %s' % rtyp)
            if ltyp != KEY:
                raise Unsupported(node, '`in` with a %s' % ltyp)
            t = '(PyRt.Dict.contains %s %s)' % (rt, lt)
            return '(!%s)' % t if isinstance(op, ast.NotIn) else t
        if isinstance(op, (ast.Eq, ast.NotEq)):
            if ltyp == OPTINT and rtyp == INT:
                t = '(decide (%s = some %s))' % (lt, rt)
            elif ltyp == INT and rtyp == OPTINT:
                t = '(decide (some %s = %s))' % (lt, rt)
            elif ltyp == rtyp and ltyp in (INT, BOOL, OPTINT):
                t = '(decide (%s = %s))' % (lt, rt)
            else:
                raise Unsupported(node, '== on %s and %s' % (ltyp, rtyp))
            return '(!%s)' % t if isinstance(op, ast.NotEq) else t
        sym = {ast.Lt: '<', ast.LtE: '≤', ast.Gt: '>', ast.GtE: '≥'}.get(type(op))
        if sym is None:
            raise Unsupported(node, 'comparison %s' % type(op).__name__)
        if (ltyp == VAL and rtyp == VAL) or ltyp not in (INT, VAL, OPTINT) or rtyp not in (INT, VAL, OPTINT):
            # an ordering needs one side that is statically an int or None (then the coercions raise exactly when Python
            # does: None against anything modelled, and a list / sentinel against an int, are TypeErrors)
            raise Unsupported(node, 'ordering of %s and %s' % (ltyp, rtyp))
        li = self.as_int(b, lt, ltyp, node)
        ri = self.as_int(b, rt, rtyp, node)
        return '(decide (%s %s %s))' % (li, sym, ri)

    # ---- calls
    def method(self, pyname, prop=False):
        for sp in self.cls.get('methods', []):
            if sp['py'] == pyname and bool(sp.get('property')) == prop and sp['lean_name'] in self.emitted:
                return sp
        return None

    def _args(self, b: Binds, m, node, args, keywords):
        if keywords:
            raise Unsupported(node, 'keyword arguments')
        info = self.emitted[m['lean_name']]
        params = list(m['params'].items())
        if len(args) > len(params):
            raise Unsupported(node, 'too many arguments')
        out = []
        for i, (p, t) in enumerate(params):
            if i < len(args):
                a = self.expr(args[i])
                if a.typ == OPTINT and t == INT:
                    # the callee is specified for ints only: `None` as this argument is NOT MODELLED (`Other`), never guessed
                    out.append(b.use(E('(optIntArg? %s)' % b.use(a), INT, False)))
                    continue
                out.append(self.store_as(b.use(a), a.typ, t, node))
            elif p in info['defaults']:
                d = info['defaults'][p]
                de = E('()', UNIT) if d is None else E('(%d : Int)' % d, INT) if type(d) is int else \
                    E('true' if d else 'false', BOOL)
                out.append(self.store_as(de.term, de.typ, t, node))
            else:
                raise Unsupported(node, 'missing argument %s' % p)
        return out, info

    def call_pure(self, m, args, node, keywords=()):
        b = Binds(self)
        argt, info = self._args(b, m, node, args, keywords)
        if info['mutates']:
            raise Unsupported(node, 'a call of the state-changing method %s inside an expression' % m['py'])
        if info['fuel']:
            self.uses_fuel = True
        t = '(%s %s%s)' % (m['lean_name'], 'lfuel s.self' if info['fuel'] else 's.self', ''.join(' ' + a for a in argt))
        return E(b.wrap(t), m['result'], False)

    def call_expr(self, node: ast.Call) -> E:
        f = node.func
        if isinstance(f, ast.Name):
            if f.id == 'len' and len(node.args) == 1 and not node.keywords:
                a = node.args[0]
                if isinstance(a, ast.Name) and a.id == self.self_name:
                    m = self.method('__len__')
                    if m is None:
                        raise Unsupported(node, 'len(self): __len__ is not translated')
                    return self.call_pure(m, [], node)
                b = Binds(self)
                e = self.expr(a)
                t = b.use(e)
                if e.typ not in (LVAL, DICT):
                    raise Unsupported(node, 'len of a %s' % e.typ)
                return b.done('((%s).length : Int)' % t, INT)
            if f.id == 'max' and len(node.args) == 2 and not node.keywords:
                b = Binds(self)
                x, y = self.expr(node.args[0]), self.expr(node.args[1])
                xt, yt = b.use(x), b.use(y)
                if x.typ != INT or y.typ != INT:
                    raise Unsupported(node, 'max of non-ints')
                return b.done('(max %s %s)' % (xt, yt), INT)
            ops = self.cls.get('ops', {})
            if f.id in ops and not node.keywords:
                mod, lean, nargs = ops[f.id]
                if not module_import_ok(self.tree, mod, f.id):
                    raise Unsupported(node, '%s is not `from %s import %s` bound once' % (f.id, mod, f.id))
                if len(node.args) != nargs:
                    raise Unsupported(node, '%s with %d arguments' % (f.id, len(node.args)))
                b = Binds(self)
                a, x = self.expr(node.args[0]), self.expr(node.args[1])
                at, xt = b.use(a), b.use(x)
                if a.typ != LVAL:
                    raise Unsupported(node, '%s on a %s' % (f.id, a.typ))
                if 'O1:spec-declared-operation %s' % f.id not in self.rules:
                    self.rules.append('O1:spec-declared-operation %s' % f.id)
                return E(b.wrap('(%s s.self.heap %s %s)' % (lean, at, self.box(xt, x.typ, node))), INT, False)
            raise Unsupported(node, 'call of %s' % f.id)
        if isinstance(f, ast.Attribute) and isinstance(f.value, ast.Name) and f.value.id == self.self_name:
            m = self.method(f.attr)
            if m is None:
                raise Unsupported(node, 'self.%s is not a translated method (translated before its caller)' % f.attr)
            return self.call_pure(m, node.args, node, node.keywords)
        if ast.unparse(f) == 'operator.index' and len(node.args) == 1 and not node.keywords \
                and _module_import_plain(self.tree, 'operator'):
            # `operator.index(x)` of a statically-Int `x` is `x` (rule K1's companion)
            a = self.expr(node.args[0])
            if a.typ != INT:
                raise Unsupported(node, 'operator.index of a %s' % a.typ)
            return a
        raise Unsupported(node, 'call %s' % ast.unparse(f))

    # ---- statements
    def block(self, stmts) -> str:
        terms = [t for t in (self.stmt(st) for st in stmts) if t is not None]
        if not terms:
            return 'skip'
        acc = terms[-1]
        for t in reversed(terms[:-1]):
            acc = '(seq %s\n%s)' % (t, acc)
        return acc

    def assign_term(self, b: Binds, new_state: str) -> str:
        return '(assign (fun s => %s))' % b.wrap('(.ok %s)' % new_state)

    def stmt(self, st):
        if getattr(st, '_c11_alias', False):
            return None
        if isinstance(st, ast.Pass):
            return None
        if isinstance(st, ast.Expr):
            if isinstance(st.value, ast.Constant) and isinstance(st.value.value, str):
                return None
            if isinstance(st.value, ast.Call):
                return self.call_stmt(st.value, None, st)
            raise Unsupported(st, 'expression statement')
        if isinstance(st, ast.Return):
            if st.value is None or (isinstance(st.value, ast.Constant) and st.value.value is None):
                if self.spec['result'] != UNIT:
                    raise Unsupported(st, 'return None in a method of result type %s' % self.spec['result'])
                return '(ret (fun _ => .ok ()))'
            if isinstance(st.value, ast.Call) and self._mut_call(st.value):
                return self.call_stmt(st.value, 'return', st)
            e = self.expr(st.value)
            b = Binds(self)
            t = self.store_as(b.use(e), e.typ, self.spec['result'], st)
            return '(ret (fun s => %s))' % b.wrap('(.ok %s)' % t)
        if isinstance(st, ast.Raise):
            return '(raise PyExc.%s)' % self.exc_class(st)
        if isinstance(st, ast.If):
            c = self.cond(st.test)
            return '(cond (fun s => %s)\n%s\n%s)' % (lift(c), self.block(st.body), self.block(st.orelse))
        if isinstance(st, ast.While):
            if st.orelse:
                raise Unsupported(st, 'while/else')
            for n in ast.walk(st):
                if isinstance(n, (ast.While, ast.For)) and n is not st:
                    raise Unsupported(n, 'nested loop')
            self.uses_fuel = True
            c = self.cond(st.test)
            return '(whileLoop (fun s => %s)\n%s lfuel)' % (lift(c), self.block(st.body))
        if isinstance(st, ast.For):
            return self.for_stmt(st)
        if isinstance(st, ast.Break):
            return 'brk'
        if isinstance(st, ast.Continue):
            return 'cont'
        if isinstance(st, ast.Try):
            return self.try_stmt(st)
        if isinstance(st, ast.AugAssign):
            if not isinstance(st.op, (ast.Add, ast.Sub)):
                raise Unsupported(st, 'augmented assignment %s' % type(st.op).__name__)
            tgt = st.target
            if not (isinstance(tgt, ast.Name) or _self_attr(tgt, self.self_name)):
                raise Unsupported(st, 'augmented assignment to %s' % ast.unparse(tgt))
            load = ast.copy_location(ast.Name(tgt.id, ast.Load()), tgt) if isinstance(tgt, ast.Name) else \
                ast.copy_location(ast.Attribute(tgt.value, tgt.attr, ast.Load()), tgt)
            new = ast.copy_location(ast.Assign([tgt], ast.copy_location(ast.BinOp(load, st.op, st.value), st)), st)
            return self.stmt(new)
        if isinstance(st, ast.Assign):
            if len(st.targets) != 1:
                raise Unsupported(st, 'chained assignment')
            if self._message_only(st):
                return None
            return self.assign(st.targets[0], st.value, st)
        if isinstance(st, ast.Delete):
            if len(st.targets) != 1:
                raise Unsupported(st, 'del of several targets')
            return self.delete(st.targets[0], st)
        raise Unsupported(st, 'statement %s' % type(st).__name__)

    def _iter_of_self(self):
        """rule L1: the class's `__iter__` is exactly `return (v for v in self.<A> if v is not <sentinel>)`, `<A>` a
        declared list attribute no method rebinds -> (attribute, Lean predicate `keep`)"""
        it = [n for n in self.cdef.body if isinstance(n, ast.FunctionDef) and n.name == '__iter__']
        if len(it) != 1 or it[0].decorator_list or len(it[0].args.args) != 1:
            return None
        body = [x for x in it[0].body if not (isinstance(x, ast.Expr) and isinstance(x.value, ast.Constant))]
        sn = it[0].args.args[0].arg
        if len(body) != 1 or not isinstance(body[0], ast.Return) or not isinstance(body[0].value, ast.GeneratorExp):
            return None
        g = body[0].value
        if len(g.generators) != 1:
            return None
        c = g.generators[0]
        if c.is_async or not isinstance(c.target, ast.Name) or not isinstance(g.elt, ast.Name) or g.elt.id != c.target.id \
                or not _self_attr(c.iter, sn) or len(c.ifs) != 1:
            return None
        attr = c.iter.attr
        if self.state.get(attr) != LVAL or attr in self.rebound:
            return None
        t = c.ifs[0]
        if not (isinstance(t, ast.Compare) and len(t.ops) == 1 and isinstance(t.ops[0], ast.IsNot)
                and isinstance(t.left, ast.Name) and t.left.id == c.target.id
                and isinstance(t.comparators[0], ast.Name) and t.comparators[0].id in self.cls.get('sentinels', ())):
            return None
        return attr, '(fun v => !Val.isSentinel v)'

    def for_stmt(self, st: ast.For):
        if st.orelse:
            raise Unsupported(st, 'for/else')
        for n in ast.walk(st):
            if isinstance(n, (ast.While, ast.For)) and n is not st:
                raise Unsupported(n, 'nested loop')
        it = st.iter
        enum = False
        if isinstance(it, ast.Call) and isinstance(it.func, ast.Name) and it.func.id == 'enumerate' \
                and len(it.args) == 1 and not it.keywords:
            enum, it = True, it.args[0]
        if not enum and _self_attr(it, self.self_name) and self.state.get(it.attr) == LVAL \
                and it.attr not in self.rebound:
            return self.for_cells(st, it.attr)
        if not (isinstance(it, ast.Name) and it.id == self.self_name):
            raise Unsupported(st, 'for over %s (only `self` / `enumerate(self)`)' % ast.unparse(st.iter))
        src = self._iter_of_self()
        if src is None:
            raise Unsupported(st, '__iter__ is not `(v for v in self.<list> if v is not <sentinel>)`')
        attr, keep = src
        if enum:
            if not (isinstance(st.target, ast.Tuple) and len(st.target.elts) == 2
                    and all(isinstance(t, ast.Name) for t in st.target.elts)):
                raise Unsupported(st, 'target of enumerate')
            fi, ti = self.bind_local(st.target.elts[0].id, INT, st)
            fx, tx = self.bind_local(st.target.elts[1].id, VAL, st)
            if ti != INT or tx != VAL or fi == fx:
                raise Unsupported(st, 'loop variable types')
            bind = '(fun i x s => { s with %s := i, %s := x })' % (fi, fx)
        else:
            if not isinstance(st.target, ast.Name):
                raise Unsupported(st, 'loop target')
            fx, tx = self.bind_local(st.target.id, VAL, st)
            if tx != VAL:
                raise Unsupported(st, 'loop variable type')
            bind = '(fun _ x s => { s with %s := x })' % fx
        # the loop variables may not be assigned in the body (the counter is the iterator's)
        names = {t.id for t in (st.target.elts if enum else [st.target])}
        for n in ast.walk(ast.Module(st.body, [])):
            if isinstance(n, ast.Name) and n.id in names and isinstance(n.ctx, (ast.Store, ast.Del)):
                raise Unsupported(n, 'assignment to a loop variable')
        self.uses_fuel = True
        if 'L1:lazy-iteration-over-self' not in self.rules:
            self.rules.append('L1:lazy-iteration-over-self')
        return '(forLazy (fun s => %s) %s %s\n%s lfuel 0 0)' % (self.sget(attr), keep, bind, self.block(st.body))

    def for_cells(self, st: ast.For, attr):
        """rule L2: `for a, b in self.<A>:` (`<A>` a declared list attribute no method rebinds; a tuple of names as
        the target): CPython's list iterator over the live list (`forLazy`, every element kept); each element goes to a
        hidden local and the targets are bound by the ordinary unpacking statement `a, b = <element>` (a cell of the
        store: `Heap.unpack?`, so an element that is not a 2-slot list raises what Python raises)"""
        tg = st.target
        if not (isinstance(tg, ast.Tuple) and len(tg.elts) >= 2 and all(isinstance(x, ast.Name) for x in tg.elts)):
            raise Unsupported(st, 'for over self.%s: the target must be a tuple of names' % attr)
        names = {x.id for x in tg.elts}
        for n in ast.walk(ast.Module(st.body, [])):
            if isinstance(n, ast.Name) and n.id in names and isinstance(n.ctx, (ast.Store, ast.Del)):
                raise Unsupported(n, 'assignment to a loop variable')
        self.n_cell_loops = getattr(self, 'n_cell_loops', 0) + 1
        hidden = '%%for_element_%d' % self.n_cell_loops     # not a Python identifier: cannot clash
        fx, tx = self.bind_local(hidden, VAL, st)
        unpack = ast.copy_location(ast.Assign([ast.Tuple([ast.Name(x.id, ast.Store()) for x in tg.elts], ast.Store())],
                                              ast.copy_location(ast.Name(hidden, ast.Load()), st)), st)
        ast.fix_missing_locations(unpack)
        self.uses_fuel = True
        if 'L2:iteration-over-cells' not in self.rules:
            self.rules.append('L2:iteration-over-cells')
        body = self.block([unpack] + list(st.body))
        return '(forLazy (fun s => %s) (fun _ => true) (fun _ x s => { s with %s := x })\n%s lfuel 0 0)' % (
            self.sget(attr), fx, body)

    def exc_class(self, st: ast.Raise) -> str:
        if st.cause is not None or st.exc is None:
            raise Unsupported(st, 'raise from / bare raise')
        exc = st.exc
        if isinstance(exc, ast.Call):
            for a in exc.args:
                self._harmless(a)
            if exc.keywords:
                raise Unsupported(st, 'raise with keywords')
            exc = exc.func
        if not isinstance(exc, ast.Name) or exc.id not in EXC_NAMES:
            raise Unsupported(st, 'exception class outside %s' % (EXC_NAMES,))
        return exc.id

    def _message_only(self, st: ast.Assign) -> bool:
        """rule M1: `x = self.__class__.__name__` (cannot raise, no effect) where `x` is bound nowhere else in the
        function and read only inside the arguments of `raise X(...)` is no statement: exception messages are not
        modelled"""
        tgt = st.targets[0]
        if not (isinstance(tgt, ast.Name) and isinstance(st.value, ast.Attribute)
                and ast.unparse(st.value) == '%s.__class__.__name__' % self.self_name):
            return False
        name = tgt.id
        if name == self.self_name or name in self.vars or name in self.aliases \
                or name in [a.arg for a in self.fdef.args.args]:
            return False
        in_raise = set()
        for n in ast.walk(self.fdef):
            if isinstance(n, ast.Raise) and isinstance(n.exc, ast.Call):
                for a in n.exc.args:
                    in_raise.update(id(m) for m in ast.walk(a))
        for n in ast.walk(self.fdef):
            if isinstance(n, ast.Name) and n.id == name and n is not tgt:
                if not isinstance(n.ctx, ast.Load) or id(n) not in in_raise:
                    return False
        self.msg_names = getattr(self, 'msg_names', set()) | {name}
        if 'M1:message-only-local' not in self.rules:
            self.rules.append('M1:message-only-local')
        return True

    def _harmless(self, a):
        """an argument of an exception constructor: evaluating it cannot raise (constants, variables, f-strings /
        `%r` formats of those, the class name)"""
        if isinstance(a, ast.Constant):
            return
        if isinstance(a, ast.Name) and (a.id in self.vars or a.id in self.aliases or a.id in getattr(self, 'msg_names', ())):
            return
        if isinstance(a, ast.JoinedStr):
            for v in a.values:
                if isinstance(v, ast.FormattedValue):
                    if v.format_spec is not None:
                        raise Unsupported(a, 'format spec in an exception message')
                    self._harmless(v.value)
            return
        if isinstance(a, ast.Attribute) and ast.unparse(a) == '%s.__class__.__name__' % self.self_name:
            return
        raise Unsupported(a, 'exception argument %s' % ast.unparse(a))

    def _int_kind_dispatch(self, st: ast.Try):
        """rule K1 (kind dispatch decided by the declared parameter type): `try: a, b, c = x.start, x.stop, x.step` /
        `except AttributeError: H` / `else: E` with `x` a variable of static type Int IS `H`: an int has none of the
        attributes `start` / `stop` / `step`, the first attribute read raises `AttributeError` before anything is bound,
        `E` does not run.  The slice kind of the argument is outside the tie (the spec declares the parameter `Int`)."""
        if st.finalbody or len(st.handlers) != 1 or len(st.body) != 1 or not isinstance(st.body[0], ast.Assign):
            return None
        h = st.handlers[0]
        if h.name is not None or not isinstance(h.type, ast.Name) or h.type.id != 'AttributeError':
            return None
        v = st.body[0].value
        reads = v.elts if isinstance(v, ast.Tuple) else [v]
        if not reads:
            return None
        for r in reads:
            if not (isinstance(r, ast.Attribute) and isinstance(r.value, ast.Name) and r.attr in ('start', 'stop', 'step')
                    and r.value.id in self.vars and self.vars[r.value.id][1] == INT):
                return None
        if 'K1:int-kind-dispatch' not in self.rules:
            self.rules.append('K1:int-kind-dispatch')
        return self.block(h.body)

    def try_stmt(self, st: ast.Try):
        k1 = self._int_kind_dispatch(st)
        if k1 is not None:
            return k1
        if st.finalbody or st.orelse or len(st.handlers) != 1:
            raise Unsupported(st, 'try with finally / else / several handlers')
        h = st.handlers[0]
        if h.name is not None or not isinstance(h.type, ast.Name) or h.type.id not in EXC_NAMES:
            raise Unsupported(st, 'handler %s' % (ast.unparse(h.type) if h.type else 'bare'))
        for n in ast.walk(h):
            if isinstance(n, ast.Raise) and n.exc is None:
                raise Unsupported(n, 'bare raise')
        # a local first bound in the body is bound before the handler is translated (field numbering by first binding)
        body = self.block(st.body)
        handler = self.block(h.body)
        return '(tryExcept %s PyExc.%s\n%s)' % (body, h.type.id, handler)

    def _mut_call(self, call: ast.Call) -> bool:
        f = call.func
        if isinstance(f, ast.Attribute) and isinstance(f.value, ast.Name) and f.value.id == self.self_name:
            m = self.method(f.attr)
            return m is not None and self.emitted[m['lean_name']]['mutates']
        return False

    def call_stmt(self, call: ast.Call, tgt, st):
        """a call as a whole statement (`tgt` None), `x = call` (`tgt` a Name) or `return call` (`tgt` 'return')"""
        f = call.func
        if isinstance(f, ast.Attribute) and self.attr_of(f.value) is not None:
            return self.container_call(self.attr_of(f.value), f.attr, call, tgt, st)
        if isinstance(f, ast.Attribute) and isinstance(f.value, ast.Name) and f.value.id == self.self_name:
            m = self.method(f.attr)
            if m is None:
                raise Unsupported(st, 'self.%s is not a translated method (translated before its caller)' % f.attr)
            info = self.emitted[m['lean_name']]
            if not info['mutates']:
                e = self.call_pure(m, call.args, call, call.keywords)
                return self.finish_value(e, tgt, st)
            b = Binds(self)
            argt, _ = self._args(b, m, call, call.args, call.keywords)
            if info['fuel']:
                self.uses_fuel = True
            self.mutates = True
            callee = '(%s %s%s)' % (m['lean_name'], 'lfuel s.self' if info['fuel'] else 's.self',
                                    ''.join(' ' + a for a in argt))
            # the arguments are evaluated first (they may raise: the callee then does not run)
            run = '(fun s => match (%s : Except PyExc (Except PyExc %s × IndexedSet.St κ)) with\n' \
                  '    | .error e => (.error e, s)\n    | .ok r => (r.1, { s with self := r.2 }))' % (
                      b.wrap('(.ok %s)' % callee), lean_type(m['result'], False))
            v = self.fresh()
            return '(call %s (fun %s => %s))' % (run, v, self.deliver(v, m['result'], tgt, st))
        e = self.expr(call)
        return self.finish_value(e, tgt, st)

    def deliver(self, v, typ, tgt, st) -> str:
        """what happens to the value `v` of a state-changing call"""
        if tgt is None:
            return 'skip'
        if tgt == 'return':
            return '(ret (fun _ => .ok %s))' % self.store_as(v, typ, self.spec['result'], st)
        f, t = self.bind_local(tgt.id, typ, st)
        return '(assign (fun s => .ok { s with %s := %s }))' % (f, self.store_as(v, typ, t, st))

    def finish_value(self, e: E, tgt, st) -> str:
        b = Binds(self)
        t = b.use(e)
        if tgt is None:
            return '(assign (fun s => %s))' % b.wrap('(.ok s)')
        if tgt == 'return':
            return '(ret (fun s => %s))' % b.wrap('(.ok %s)' % self.store_as(t, e.typ, self.spec['result'], st))
        f, ft = self.bind_local(tgt.id, e.typ, st)
        return self.assign_term(b, '{ s with %s := %s }' % (f, self.store_as(t, e.typ, ft, st)))

    def container_call(self, attr, meth, call, tgt, st):
        typ = self.state[attr]
        cur = self.sget(attr)
        args = call.args
        if call.keywords:
            raise Unsupported(st, 'keyword arguments')
        b = Binds(self)
        if typ == LVAL and meth == 'append' and len(args) == 1 and tgt is None:
            x = self.expr(args[0])
            xt = self.box(b.use(x), x.typ, st)
            return self.assign_term(b, self.sset({attr: '(%s ++ [%s])' % (cur, xt)}))
        if typ == LVAL and meth == 'insert' and len(args) == 2 and tgt is None:
            i, x = self.expr(args[0]), self.expr(args[1])
            it, xt0 = b.use(i), b.use(x)
            if i.typ != INT:
                raise Unsupported(st, 'insert at a %s' % i.typ)
            return self.assign_term(b, self.sset({attr: '(PyRtC11.insert %s %s %s)' % (cur, it, self.box(xt0, x.typ, st))}))
        if typ == LVAL and meth == 'pop' and len(args) == 0:
            v = self.fresh()
            self.mutates = True
            if tgt is None:
                return '(assign (fun s => (bx (PyRt.popLast? %s) (fun %s => .ok %s))))' % (
                    cur, v, self.sset({attr: '%s.2' % v}))
            if tgt == 'return':
                raise Unsupported(st, 'return of a pop')
            f, ft = self.bind_local(tgt.id, VAL, st)
            return '(assign (fun s => (bx (PyRt.popLast? %s) (fun %s => .ok %s))))' % (
                cur, v, self.sset({attr: '%s.2' % v}, {f: self.store_as('%s.1' % v, VAL, ft, st)}))
        if typ == DICT and meth == 'pop' and len(args) == 1 and tgt is not None and tgt != 'return':
            k = self.expr(args[0])
            kt = self.as_key(b, b.use(k), k.typ, st)
            v = self.fresh()
            f, ft = self.bind_local(tgt.id, INT, st)
            self.mutates = True
            return '(assign (fun s => %s))' % b.wrap('(bx (PyRt.Dict.pop? %s %s) (fun %s => .ok %s))' % (
                cur, kt, v, self.sset({attr: '%s.2' % v}, {f: self.store_as('%s.1' % v, INT, ft, st)})))
        raise Unsupported(st, '%s.%s(…) on a %s' % (attr, meth, typ))

    def assign(self, tgt, value, st):
        # a call that changes the object / a container method with a value
        if isinstance(tgt, ast.Name) and isinstance(value, ast.Call):
            f = value.func
            if self._mut_call(value) or (isinstance(f, ast.Attribute) and self.attr_of(f.value) is not None):
                return self.call_stmt(value, tgt, st)
        # allocation of a cell
        if isinstance(value, ast.List):
            if not isinstance(tgt, ast.Name):
                raise Unsupported(st, 'a list display stored anywhere but in a local')
            b = Binds(self)
            items = []
            for el in value.elts:
                if isinstance(el, (ast.List, ast.Tuple, ast.Dict, ast.Set)):
                    raise Unsupported(st, 'nested display')
                e = self.expr(el)
                items.append(self.box(b.use(e), e.typ, st))
            f, ft = self.bind_local(tgt.id, VAL, st)
            if ft != VAL:
                raise Unsupported(st, 'a list stored in a %s' % ft)
            self.mutates = True
            if 'H0:cell-allocation' not in self.rules:
                self.rules.append('H0:cell-allocation')
            return self.assign_term(b, '{ s with %s := Heap.next s.self.heap, self := { s.self with heap := '
                                       'Heap.alloc s.self.heap [%s] } }' % (f, ', '.join(items)))
        if isinstance(tgt, ast.Tuple):
            if not all(isinstance(t, ast.Name) for t in tgt.elts):
                raise Unsupported(st, 'unpacking into places')
            names = [t.id for t in tgt.elts]
            if len(set(names)) != len(names):
                raise Unsupported(st, 'repeated target')
            if isinstance(value, ast.Tuple):
                if len(value.elts) != len(names):
                    raise Unsupported(st, 'tuple sizes differ')
                b = Binds(self)
                es = [self.expr(v) for v in value.elts]
                ts = [b.use(e) for e in es]
                upd = {}
                for nme, e, t in zip(names, es, ts):
                    f, ft = self.bind_local(nme, e.typ, st)
                    upd[f] = self.store_as(t, e.typ, ft, st)
                return self.assign_term(b, self.sset({}, upd))
            e = self.expr(value)
            if e.typ != VAL:
                raise Unsupported(st, 'unpacking a %s' % e.typ)
            b = Binds(self)
            vt = b.use(e)
            cell = b.use(E('(Heap.unpack? s.self.heap %s %d)' % (vt, len(names)), None, False))
            upd = {}
            for i, nme in enumerate(names):
                f, ft = self.bind_local(nme, VAL, st)
                if ft != VAL:
                    raise Unsupported(st, 'a cell item stored in a %s' % ft)
                upd[f] = '(PyHeap.nth %s %d)' % (cell, i)
            return self.assign_term(b, self.sset({}, upd))
        if isinstance(tgt, ast.Name):
            e = self.expr(value)
            b = Binds(self)
            t = b.use(e)
            f, ft = self.bind_local(tgt.id, e.typ, st)
            return self.assign_term(b, self.sset({}, {f: self.store_as(t, e.typ, ft, st)}))
        if _self_attr(tgt, self.self_name):
            if tgt.attr not in self.state or self.state[tgt.attr] != INT:
                raise Unsupported(st, 'assignment to self.%s (only declared int attributes may be rebound)' % tgt.attr)
            e = self.expr(value)
            b = Binds(self)
            t = b.use(e)
            if e.typ != INT:
                raise Unsupported(st, 'a %s stored into self.%s' % (e.typ, tgt.attr))
            return self.assign_term(b, self.sset({tgt.attr: t}))
        if isinstance(tgt, ast.Subscript) and not isinstance(tgt.slice, ast.Slice):
            # Python: right-hand side, then the container, then the index
            b = Binds(self)
            e = self.expr(value)
            vt = b.use(e)
            attr = self.attr_of(tgt.value)
            if attr is not None:
                cur = self.sget(attr)
                idx = self.expr(tgt.slice)
                it = b.use(idx)
                if self.state[attr] == LVAL:
                    if idx.typ != INT:
                        raise Unsupported(st, 'index of type %s' % idx.typ)
                    nv = b.use(E('(setIdx? %s %s %s)' % (cur, it, self.box(vt, e.typ, st)), LVAL, False))
                    return self.assign_term(b, self.sset({attr: nv}))
                if self.state[attr] == DICT:
                    if idx.typ == VAL:
                        it = b.use(E('(asKeyStore? %s)' % it, KEY, False))
                    elif idx.typ != KEY:
                        raise Unsupported(st, 'storing under a key of type %s' % idx.typ)
                    if e.typ != INT:
                        raise Unsupported(st, 'a %s stored as a dict value' % e.typ)
                    return self.assign_term(b, self.sset({attr: '(PyRt.Dict.set %s %s %s)' % (cur, it, vt)}))
            base = self.expr(tgt.value)
            if base.typ != VAL:
                raise Unsupported(st, 'item assignment on a %s' % base.typ)
            bt = b.use(base)
            idx = self.expr(tgt.slice)
            it = b.use(idx)
            if idx.typ != INT:
                raise Unsupported(st, 'index of type %s' % idx.typ)
            nh = b.use(E('(Heap.set? s.self.heap %s %s %s)' % (bt, it, self.box(vt, e.typ, st)), HEAP, False))
            self.mutates = True
            return self.assign_term(b, '{ s with self := { s.self with heap := %s } }' % nh)
        raise Unsupported(st, 'assignment target %s' % ast.unparse(tgt))

    def delete(self, tgt, st):
        if not isinstance(tgt, ast.Subscript):
            raise Unsupported(st, 'del %s' % ast.unparse(tgt))
        attr = self.attr_of(tgt.value)
        if attr is None:
            raise Unsupported(st, 'del of an item of %s' % ast.unparse(tgt.value))
        cur = self.sget(attr)
        b = Binds(self)
        if isinstance(tgt.slice, ast.Slice):
            if self.state[attr] != LVAL or tgt.slice.step is not None:
                raise Unsupported(st, 'slice deletion')
            bounds = []
            for bd in (tgt.slice.lower, tgt.slice.upper):
                if bd is None:
                    bounds.append('none')
                else:
                    e = self.expr(bd)
                    if e.typ != INT:
                        raise Unsupported(st, 'slice bound of type %s' % e.typ)
                    bounds.append('(some %s)' % b.use(e))
            return self.assign_term(b, self.sset({attr: '(delSlice %s %s %s)' % (cur, bounds[0], bounds[1])}))
        idx = self.expr(tgt.slice)
        it = b.use(idx)
        if self.state[attr] == LVAL:
            if idx.typ != INT:
                raise Unsupported(st, 'index of type %s' % idx.typ)
            nv = b.use(E('(delIdx? %s %s)' % (cur, it), LVAL, False))
            return self.assign_term(b, self.sset({attr: nv}))
        if self.state[attr] == DICT:
            k = self.as_key(b, it, idx.typ, st)
            nv = b.use(E('(PyRt.Dict.del? %s %s)' % (cur, k), DICT, False))
            return self.assign_term(b, self.sset({attr: nv}))
        raise Unsupported(st, 'del on a %s' % self.state[attr])

    # ---- emission
    def emit(self):
        body = self.block(self.fdef.body)
        name = self.spec['lean_name']
        res = self.spec['result']
        if res != UNIT and not _always_leaves(self.fdef.body):
            raise Unsupported(self.fdef, 'the body can fall off its end (result type %s)' % res)
        fields = ['  self : IndexedSet.St κ']
        init = ['self := self']
        for py in self.order:
            f, t = self.vars[py]
            fields.append('  %s : %s%s' % (f, lean_type(t), '' if f == py else '    -- ' + py))
            init.append('%s := %s' % (f, f if py in self.spec['params'] else _DEFAULT[t]))
        tb = '{κ : Type} [DecidableEq κ] [Inhabited κ]'
        fuel = '(lfuel : Nat) ' if self.uses_fuel else ''
        params = ''.join(' (%s : %s)' % (self.vars[p][0], lean_type(self.vars[p][1])) for p in self.spec['params'])
        out = ['/-- variables of `%s` (parameters by name, locals in order of first binding) -/' % self.spec['qualname'],
               'structure %s.L (κ : Type) where' % name] + fields + ['']
        out.append('def %s.body %s %s: Stmt (%s.L κ) %s :=\n%s\n' % (name, tb, fuel, name, lean_type(res, False), body))
        fall = '(some ())' if res == UNIT else 'none'
        run = '(finish (·.self) %s (%s.body %s{ %s }))' % (fall, name, 'lfuel ' if self.uses_fuel else '', ', '.join(init))
        if self.mutates:
            out.append('/-- `%s`%s -/' % (self.spec['qualname'], ''))
            out.append('def %s %s %s(self : IndexedSet.St κ)%s : Except PyExc %s × IndexedSet.St κ :=\n  %s\n' % (
                name, tb, fuel, params, lean_type(res, False), run))
        else:
            out.append('/-- `%s` (does not change the object) -/' % self.spec['qualname'])
            out.append('def %s %s %s(self : IndexedSet.St κ)%s : Except PyExc %s :=\n  %s.1\n' % (
                name, tb, fuel, params, lean_type(res, False), run))
        return '\n'.join(out)


_RESERVED = {'self', 'end', 'from', 'fun', 'at', 'have', 'show', 'then', 'open', 'def', 'match', 'with', 'do', 'let',
             's', 'lfuel', 'by', 'in', 'if', 'else', 'where', 'instance', 'structure', 'theorem', 'namespace'}


def _always_leaves(stmts) -> bool:
    if not stmts:
        return False
    last = stmts[-1]
    if isinstance(last, (ast.Return, ast.Raise)):
        return True
    if isinstance(last, ast.If):
        return _always_leaves(last.body) and _always_leaves(last.orelse)
    if isinstance(last, ast.Try):
        return _always_leaves(last.body) and all(_always_leaves(h.body) for h in last.handlers)
    return False


# ------------------------------------------------------------------------------------------------ module level
def class_state_text(cls) -> str:
    out = ['/-- object state of `%s` (the attributes declared in the spec; `heap` = the object store holding the\n'
           '    `[start, stop]` interval cells) -/' % cls['name'],
           'structure %s.St (κ : Type) where' % cls['lean_name']]
    for a, t in cls['state'].items():
        f = field_of(a)
        out.append('  %s : %s%s' % (f, lean_type(t), '' if f == a else '    -- ' + a))
    return '\n'.join(out) + '\n'


def _find_class_method(tree: ast.Module, qualname: str):
    cname, mname = qualname.split('.')
    cdef = None
    for n in tree.body:
        if isinstance(n, ast.ClassDef) and n.name == cname:
            cdef = n                                   # the last definition wins, as in Python
    if cdef is None:
        raise Unsupported('module', 'no class %s' % cname)
    fdef = None
    for n in cdef.body:
        if isinstance(n, ast.FunctionDef) and n.name == mname:
            fdef = n
    if fdef is None:
        raise Unsupported('module', 'no definition of %s' % qualname)
    return cdef, fdef


def translate_source(src: str, specs: list, module_name: str, rel: str):
    tree = ast.parse(src)
    short = module_name.split('.')[-1]
    parts, infos, head = [], [], []
    emitted = {}
    classes = []
    for spec in specs:
        info = {'function': '%s.%s' % (module_name, spec['qualname']), 'source_file': rel, 'lines': None,
                'lean_def': 'Src.%s.%s' % (short, spec['lean_name']), 'lean_pre': None,
                'tie_theorem': spec['tie_theorem']}
        infos.append(info)
        try:
            cdef, fdef = _find_class_method(tree, spec['qualname'])
            info['lines'] = '%d-%d' % (fdef.lineno, fdef.end_lineno)
            tr = MethodTr(fdef, spec, tree, cdef, emitted)
            text = tr.emit()
            emitted[spec['lean_name']] = {'mutates': tr.mutates, 'fuel': tr.uses_fuel, 'defaults': tr.defaults,
                                          'vars': [(tr.vars[p][0], tr.vars[p][1]) for p in spec['params']]}
            if tr.rules:
                info['prepass'] = ['c11:' + r for r in tr.rules]
            info['changes_state'] = tr.mutates
            info['loop_fuel'] = tr.uses_fuel
            if spec['cls']['lean_name'] not in classes:
                classes.append(spec['cls']['lean_name'])
                text = class_state_text(spec['cls']) + '\n' + text
        except (Unsupported, RecursionError) as e:
            info['error'] = str(e) or type(e).__name__
            parts.append('-- NOT TRANSLATED: %s: %s\n' % (spec['qualname'], info['error'].replace('\n', ' ')))
            head.append('  %s -> NOT TRANSLATED' % spec['qualname'])
            continue
        parts.append(text)
        head.append('  %s (lines %s) -> Src.%s.%s' % (spec['qualname'], info['lines'], short, spec['lean_name']))
    out = ('/- GENERATED by harness/py2lean_c11.py (heap mode, compositional) from %s - do not edit.\n'
           '   Translation of the current source text (rules: notes/SRCTIE.md, section 2d):\n%s\n-/\n'
           'import BoltonsVerif.PyRtC11\n\nset_option linter.unusedVariables false\n\nnamespace Src.%s\nopen PyHeap PyRtC11\n\n%s\nend Src.%s\n' % (
               rel, '\n'.join(head), short, '\n'.join(parts), short))
    translate_source.last = emitted
    return out, infos


def translate_module(module_name, specs, repo):
    mod = importlib.import_module(module_name)
    path = os.path.abspath(inspect.getsourcefile(mod))
    if not path.startswith(os.path.abspath(repo) + os.sep):
        raise RuntimeError('%s imported from %s, not from %s' % (module_name, path, repo))
    with open(path) as fh:
        src = fh.read()
    return translate_source(src, specs, module_name, os.path.relpath(path, os.path.abspath(repo)))


# ------------------------------------------------------------------------------------------------ self-test
# CPython (the REAL IndexedSet methods on real objects built from abstract states) vs the generated definitions, on
# reachable and corrupted states: result / exception class AND the whole object state after the call (the dict, the two
# lists, the interval cells reachable from `dead_indices`), up to renaming of addresses; garbage cells are ignored.
_EXC = ['KeyError', 'ValueError', 'TypeError', 'IndexError', 'ZeroDivisionError', 'StopIteration', 'RecursionError',
        'Other', 'OutOfFuel']          # constructor order of PyExc

_DRIVER = r'''
namespace C11SelfTest
open PyHeap PyRtC11 Src.setutils

abbrev P := StateT (List Int) Option
def pInt : P Int := fun l => match l with | x :: xs => some (x, xs) | [] => none
def pRep {α : Type} (p : P α) : Nat → P (List α)
  | 0 => pure []
  | n + 1 => do let x ← p; let xs ← pRep p n; pure (x :: xs)
def pList {α : Type} (p : P α) : P (List α) := do let n ← pInt; pRep p n.toNat
def pVal : P (Val Int Unit) := do
  let t ← pInt; let x ← pInt
  match t with
  | 0 => pure .none | 1 => pure .sentinel | 2 => pure (.ref x.toNat) | 3 => pure (.key x) | 5 => pure (.int x)
  | _ => failure
def pOpt : P (Option Int) := do let f ← pInt; let x ← pInt; pure (if f = 0 then none else some x)
def pState : P (IndexedSet.St Int) := do
  let cells ← pList (pList pVal)
  let d ← pList (do let k ← pInt; let v ← pInt; pure (k, v))
  let il ← pList pVal
  let dl ← pList pVal
  let c ← pInt; let m ← pInt
  pure ⟨⟨cells⟩, d, il, dl, c, m⟩

def eVal : Val Int Unit → List Int
  | .none => [0, 0] | .sentinel => [1, 0] | .ref a => [2, a] | .key k => [3, k] | .val _ => [4, 0] | .int i => [5, i]
def eList {α : Type} (e : α → List Int) (l : List α) : List Int := (l.length : Int) :: l.flatMap e
def eState (st : IndexedSet.St Int) : List Int :=
  eList (eList eVal) st.heap.cells ++ eList (fun (p : Int × Int) => [p.1, p.2]) st.item_index_map ++
  eList eVal st.item_list ++ eList eVal st.dead_indices ++ [st.compactions, st.c_max_size]
def eExc (e : PyExc) : Int := match e with
  | .KeyError => 0 | .ValueError => 1 | .TypeError => 2 | .IndexError => 3 | .ZeroDivisionError => 4
  | .StopIteration => 5 | .RecursionError => 6 | .Other => 7 | .OutOfFuel => 8
def eRes {α : Type} (e : α → List Int) (r : Except PyExc α) : List Int := match r with
  | .ok v => 1 :: e v
  | .error x => [0, eExc x]

def runLine (toks : List Int) : Option (List Int) :=
  (do
    let m ← pInt
    let st ← pState
    (%DISPATCH% : P (List Int))
    : P (List Int)).run toks |>.map (·.1)

partial def loop (h : IO.FS.Stream) : IO Unit := do
  let ln ← h.getLine
  if ln.isEmpty then return
  let toks := (ln.splitOn " ").filterMap (fun t => (t.replace "\n" "").toInt?)
  match runLine toks with
  | some out => IO.println ("R " ++ " ".intercalate (out.map toString))
  | none => IO.println "R bad"
  loop h
end C11SelfTest

def main : IO Unit := do C11SelfTest.loop (← IO.getStdin)
'''

_P_ARG = {INT: 'pInt', OPTINT: 'pOpt', BOOL: '(do let b ← pInt; pure (decide (b ≠ 0)))', KEY: 'pInt', VAL: 'pVal'}
_E_RES = {UNIT: '(fun _ => [])', INT: '(fun (i : Int) => [i])', VAL: 'eVal', BOOL: '(fun (b : Bool) => [if b then 1 else 0])'}


def build_driver(specs, repo, fuel=10000):
    import srctie_specs
    text, infos = translate_module(specs[0]['module'], [sp for sp in srctie_specs.SPECS['C11'] if sp.get('translator') == 'py2lean_c11'], repo)
    bad = [i for i in infos if i.get('error')]
    emitted = translate_source.last
    body = text.split('import BoltonsVerif.PyRtC11', 1)[1]
    disp = []
    for n, sp in enumerate(specs):
        if sp['lean_name'] not in emitted:
            continue
        info = emitted[sp['lean_name']]
        binds = ''.join('let a%d ← %s; ' % (i, _P_ARG[t]) for i, (f, t) in enumerate(info['vars']))
        args = ''.join(' a%d' % i for i in range(len(info['vars'])))
        call = '%s %s st%s' % (sp['lean_name'], ('%d' % fuel) if info['fuel'] else '', args)
        if info['mutates']:
            out = 'let r := %s; pure (eRes %s r.1 ++ eState r.2)' % (call, _E_RES[sp['result']])
        else:
            out = 'let r := %s; pure (eRes %s r ++ eState st)' % (call, _E_RES[sp['result']])
        disp.append('if m = %d then (do %s%s) else' % (n, binds, out))
    src = 'import BoltonsVerif.PyRtC11\n' + body + _DRIVER.replace('%DISPATCH%', '\n    '.join(disp) + ' failure')
    return src, [sp for sp in specs if sp['lean_name'] in emitted], bad


# ---- abstract states: {'cells': [[val]], 'dict': [(k, v)], 'items': [val], 'dead': [val], 'comp': int, 'cmax': int}
# val = ('none',) | ('sent',) | ('ref', a) | ('key', k) | ('int', i)
_TAG = {'none': 0, 'sent': 1, 'ref': 2, 'key': 3, 'int': 5}


def _enc_val(v, toks):
    toks += [_TAG[v[0]], v[1] if len(v) > 1 else 0]


def _enc_state(st, toks):
    toks.append(len(st['cells']))
    for c in st['cells']:
        toks.append(len(c))
        for v in c:
            _enc_val(v, toks)
    toks.append(len(st['dict']))
    for k, v in st['dict']:
        toks += [k, v]
    for key in ('items', 'dead'):
        toks.append(len(st[key]))
        for v in st[key]:
            _enc_val(v, toks)
    toks += [st['comp'], st['cmax']]


def _dec_state(toks):
    it = iter(toks)

    def val():
        t, x = next(it), next(it)
        return {0: ('none',), 1: ('sent',), 2: ('ref', x), 3: ('key', x), 5: ('int', x)}[t]

    def lst(f):
        return [f() for _ in range(next(it))]
    cells = lst(lambda: lst(val))
    d = lst(lambda: (next(it), next(it)))
    items = lst(val)
    dead = lst(val)
    return {'cells': cells, 'dict': d, 'items': items, 'dead': dead, 'comp': next(it), 'cmax': next(it)}, list(it)


def canon(st, extra=()):
    """renumber the cells by a traversal from the roots (`dead_indices`, then `item_list`, then `extra`); drop garbage"""
    num, order = {}, []

    def visit(v):
        if v[0] == 'ref' and v[1] not in num:
            num[v[1]] = len(order)
            order.append(v[1])
            for w in (st['cells'][v[1]] if v[1] < len(st['cells']) else []):
                visit(w)
    for v in list(st['dead']) + list(st['items']) + list(extra):
        visit(v)

    def ren(v):
        return ('ref', num[v[1]]) if v[0] == 'ref' else v
    return {'cells': [[ren(w) for w in st['cells'][a]] for a in order], 'dict': list(st['dict']),
            'items': [ren(v) for v in st['items']], 'dead': [ren(v) for v in st['dead']], 'comp': st['comp'],
            'cmax': st['cmax']}


def build_object(mod, st):
    """a REAL IndexedSet whose attributes are the abstract state (shared cells are shared list objects)"""
    cells = [[] for _ in st['cells']]

    def pv(v, in_cell):
        if v[0] == 'none':
            return None
        if v[0] == 'sent':
            return mod._MISSING
        if v[0] == 'ref':
            return cells[v[1]]
        return v[1]
    for c, src in zip(cells, st['cells']):
        c.extend(pv(v, True) for v in src)
    obj = mod.IndexedSet()
    obj.item_index_map = dict(st['dict'])
    obj.item_list = [pv(v, False) for v in st['items']]
    obj.dead_indices = [pv(v, False) for v in st['dead']]
    obj._compactions = st['comp']
    obj._c_max_size = st['cmax']
    return obj


def read_object(mod, obj):
    ids, cells = {}, []

    def av(x, in_cell):
        if x is None:
            return ('none',)
        if x is mod._MISSING:
            return ('sent',)
        if isinstance(x, list):
            if id(x) not in ids:
                ids[id(x)] = len(cells)
                cells.append(None)
                cells[ids[id(x)]] = [av(y, True) for y in x]
            return ('ref', ids[id(x)])
        if type(x) is int:
            return ('int', x) if in_cell else ('key', x)
        raise ValueError('unencodable %r' % (x,))
    dead = [av(x, True) if not isinstance(x, list) else av(x, True) for x in obj.dead_indices]
    items = [av(x, False) for x in obj.item_list]
    return {'cells': cells, 'dict': [(k, v) for k, v in obj.item_index_map.items()], 'items': items, 'dead': dead,
            'comp': obj._compactions, 'cmax': obj._c_max_size}


def _reachable_state(mod, rng, big=False):
    s = mod.IndexedSet(range(rng.randrange(20, 60) if big else rng.randrange(0, 14)))
    for _ in range(rng.randrange(0, 30 if big else 12)):
        try:                                # the class under test may be a broken variant: whatever state it is in
            if len(s) and rng.random() < 0.75:      # when a call raises is a state to start from, too
                s.remove(rng.choice(list(s)))
            else:
                s.add(rng.randrange(0, 40))
        except Exception:  # noqa: BLE001
            break
    try:
        return read_object(mod, s)
    except Exception:  # noqa: BLE001
        return _random_table(rng)


def _random_table(rng):
    """an arbitrary object state around a random interval table (sorted or not, overlapping or not, sometimes corrupted)"""
    n = rng.randrange(0, 7)
    cells, dead = [], []
    pos = 0
    for _ in range(n):
        if rng.random() < 0.8:
            pos += rng.randrange(0, 4)
            a = pos
            b = a + rng.randrange(1, 4)
            pos = b
        else:
            a = rng.randrange(-2, 12)
            b = rng.randrange(-2, 12)
        cells.append([('int', a), ('int', b)])
        dead.append(('ref', len(cells) - 1))
    r = rng.random()
    if n and r < 0.06:                      # the same cell twice
        dead.append(dead[rng.randrange(n)])
    elif n and r < 0.10:                    # a cell of another length
        cells[rng.randrange(n)] = [('int', rng.randrange(0, 9))] * rng.choice([0, 1, 3])
    elif r < 0.14:                          # something that is no list
        dead.insert(rng.randrange(0, len(dead) + 1), rng.choice([('none',), ('int', 3), ('sent',)]))
    elif n and r < 0.17:
        rng.shuffle(dead)
    elif n and r < 0.19:                    # None inside a cell
        cells[rng.randrange(n)][rng.randrange(2)] = ('none',)
    size = max([0] + [v[1] for c in cells for v in c if v[0] == 'int']) + rng.randrange(0, 3)
    items, d = [], []
    for i in range(size):
        if any(len(c) == 2 and c[0][0] == 'int' and c[1][0] == 'int' and c[0][1] <= i < c[1][1] for c in cells):
            items.append(('sent',))
        else:
            items.append(('key', 100 + i))
            d.append((100 + i, i))
    return {'cells': cells, 'dict': d, 'items': items, 'dead': dead, 'comp': rng.randrange(0, 3), 'cmax': rng.randrange(0, 20)}


def cases_for(sp, mod, rng, quick):
    n = (700 if sp['py'] == '_add_dead' else 300) if quick else 5000
    out = []
    if sp['py'] == '_add_dead':
        for i in range(n):
            st = _reachable_state(mod, rng) if i % 3 == 0 else _random_table(rng)
            top = len(st['items']) + 2
            start = rng.randrange(-1, top + 1)
            r = rng.random()
            stop = None if r < 0.7 else start + 1 if r < 0.8 else rng.randrange(-1, top + 2)
            out.append({'self': st, 'args': [('Int', start), ('Option Int', stop)]})
        return out
    for i in range(n):
        r = rng.random()
        st = _reachable_state(mod, rng, big=(i % 5 == 0)) if r < 0.6 else _random_table(rng)
        if r >= 0.9:                       # dict and list out of step
            if st['dict'] and rng.random() < 0.5:
                st['dict'].pop(rng.randrange(len(st['dict'])))
            elif st['items']:
                st['items'][rng.randrange(len(st['items']))] = ('sent',)
        args = []
        for p, t in sp['params'].items():
            if t == 'Key':
                keys = [k for k, _ in st['dict']] + [v[1] for v in st['items'] if v[0] == 'key']
                args.append((t, rng.choice(keys) if keys and rng.random() < 0.8 else rng.randrange(0, 200)))
            elif t == 'Int':
                args.append((t, rng.randrange(-len(st['items']) - 2, len(st['items']) + 3)))
            elif t == 'Option Int':
                args.append((t, None if rng.random() < 0.3 else rng.randrange(-len(st['items']) - 2, len(st['items']) + 3)))
            else:
                raise ValueError(t)
        out.append({'self': st, 'args': args})
    return out


def call_real(sp, mod, case):
    obj = build_object(mod, case['self'])
    args = [v for _, v in case['args']]
    try:
        res = ('ok', getattr(obj, sp['py']) if sp.get('property') else getattr(obj, sp['py'])(*args))
    except Exception as e:  # noqa: BLE001
        res = ('exc', type(e).__name__)
    return res, read_object(mod, obj)


def _enc_arg(t, v, toks):
    if t == 'Option Int':
        toks += [0, 0] if v is None else [1, v]
    elif t == 'Bool':
        toks.append(1 if v else 0)
    elif t == 'Val':
        _enc_val(v, toks)
    else:
        toks.append(v)


# snippets just outside the subset: every one must be refused (`Unsupported`), never translated
_REJECT_HEAD = '''
from bisect import bisect_left
_MISSING = object()
_COMPACTION_FACTOR = 8
class IndexedSet:
    def reset(self):
        self.scratch = []
    def _add_dead(self, start, stop=None):
'''
REJECTS = [
    ('alias of an attribute that another method rebinds', 'dints = self.scratch\n        dints.append(start)', {'scratch': 'List Val'}),
    ('alias bound twice', 'dints = self.dead_indices\n        dints = self.dead_indices\n        dints.append(start)', {}),
    ('list display as an argument', 'self.dead_indices.append([start, start])', {}),
    ('nested display', 'x = [[start], start]', {}),
    ('sum of two dynamic values (list concatenation)', 'a = self.dead_indices[0]\n        b = self.dead_indices[1]\n        x = a + b', {}),
    ('for over a list attribute with a single name as the target', 'for d in self.dead_indices:\n            start = start + 1', {}),
    ('for over a list attribute that another method rebinds', 'for a, b in self.scratch:\n            start = start + 1', {'scratch': 'List Val'}),
    ('assignment to a variable of a cell loop', 'for a, b in self.dead_indices:\n            a = start', {}),
    ('kind dispatch on a variable that is not statically an int', 'try:\n            a = stop.start\n        except AttributeError:\n            a = 1', {}),
    ('kind dispatch on an attribute that ints have', 'try:\n            a = start.real\n        except AttributeError:\n            a = 1', {}),
    ('operator.index of a value that is not statically an int', 'a = operator.index(stop)', {}),
    ('two dynamic values ordered', 'a = self.dead_indices[0]\n        b = self.dead_indices[1]\n        if a < b:\n            return', {}),
    ('equality of a dynamic value and an int', 'a = self.dead_indices[0]\n        if a == start:\n            return', {}),
    ('true division outside the declared comparison', 'x = start / _COMPACTION_FACTOR', {}),
    ('undeclared attribute', 'self.other = start', {}),
    ('rebinding a list attribute', 'self.dead_indices = []', {}),
    ('dynamic value as an index', 'a = self.dead_indices[0]\n        b = self.dead_indices[a]', {}),
    ('for loop', 'for x in self.dead_indices:\n            pass', {}),
    ('nested function', 'def f():\n            return 1\n        return', {}),
    ('bisect_left rebound', 'bisect_left = None\n        i = bisect_left(self.dead_indices, start)', {}),
    ('and/or returning an operand', 'x = start or 3', {}),
    ('conditional expression', 'x = start if start else 3', {}),
    ('keyword argument', 'self.dead_indices.insert(0, x=start)', {}),
    ('bare raise', 'try:\n            x = self.item_index_map.pop(start)\n        except KeyError:\n            raise', {}),
    ('while/else', 'while start:\n            break\n        else:\n            pass', {}),
]


def reject_tests():
    """-> list of snippets that were NOT refused"""
    import srctie_specs
    bad = []
    for why, body, extra in REJECTS:
        cls = dict(srctie_specs.INDEXED_SET, methods=[], state=dict(srctie_specs.INDEXED_SET['state'], **extra))
        sp = {'py': '_add_dead', 'params': {'start': 'Int', 'stop': 'Option Int'}, 'result': 'None', 'cls': cls,
              'qualname': 'IndexedSet._add_dead', 'lean_name': 'IndexedSet.add_dead', 'tie_theorem': '-', 'module': 'snippet'}
        text, infos = translate_source(_REJECT_HEAD + '        ' + body + '\n', [sp], 'snippet', 'snippet.py')
        if not infos[0].get('error'):
            bad.append(why)
    return bad


def selftest(pids, quick=False, seed=0, verbose=True, repo=None):
    """-> (number of mismatches, report dict) in the format of py2lean_selftest.run"""
    import random
    import shutil
    import subprocess
    import tempfile
    import time
    import srctie_specs
    import py2lean_selftest
    from bv import common
    common.ensure_repo_on_path()
    t0 = time.time()
    # the specs of these properties that the BASE translator handles are validated by the base self-test
    n_all, rep_all = 0, {'_mismatches': []}
    saved = {}
    try:
        for pid in pids:
            saved[pid] = srctie_specs.SPECS[pid]
            srctie_specs.SPECS[pid] = [sp for sp in saved[pid] if not sp.get('translator')]
        base = [pid for pid in pids if srctie_specs.SPECS[pid]]
        if base:
            n_all, rep_all = py2lean_selftest.run(base, quick=quick, seed=seed, verbose=verbose)
    finally:
        for pid, v in saved.items():
            srctie_specs.SPECS[pid] = v
    specs = [sp for pid in pids for sp in srctie_specs.SPECS.get(pid, []) if sp.get('translator') == 'py2lean_c11']
    mod = importlib.import_module(specs[0]['module'])
    src, live, bad = build_driver(specs, repo or common.REPO)
    rng = random.Random('py2lean-c11-selftest-%d' % seed)
    lines, meta = [], []
    for n, sp in enumerate(specs):
        if sp not in live:
            continue
        for case in cases_for(sp, mod, rng, quick):
            toks = [n]
            _enc_state(case['self'], toks)
            for t, v in case['args']:
                _enc_arg(t, v, toks)
            lines.append(' '.join(map(str, toks)))
            meta.append((sp, case))
    tmp = tempfile.mkdtemp(prefix='py2lean-c11-selftest-')
    try:
        drv = os.path.join(tmp, 'SrcSelfTestC11.lean')
        with open(drv, 'w') as fh:
            fh.write(src)
        with common.BuildLock():
            rc, out = common._run(['lake', 'build', 'BoltonsVerif.PyRtC11'])
        if rc != 0:
            raise common.InfraError('cannot build BoltonsVerif.PyRtC11: ' + out[-500:])
        t1 = time.time()
        p = subprocess.run(['lake', 'env', 'lean', '--run', drv], cwd=common.LEAN, input='\n'.join(lines) + '\n',
                           stdout=subprocess.PIPE, stderr=subprocess.STDOUT, text=True, timeout=1800)
        t_lean = time.time() - t1
    finally:
        shutil.rmtree(tmp, ignore_errors=True)
    outs = [ln[2:] for ln in p.stdout.split('\n') if ln.startswith('R ')]
    if p.returncode != 0 or len(outs) != len(lines):
        raise common.InfraError('scratch driver failed (rc %s, %d lines for %d inputs): %s' % (
            p.returncode, len(outs), len(lines), p.stdout[-1500:]))
    report, mismatches = {}, []
    for (sp, case), got in zip(meta, outs):
        r = report.setdefault(sp['lean_name'], {'cases': 0, 'compared': 0, 'python_raises': 0, 'unspecified': 0,
                                                'mismatches': 0})
        r['cases'] += 1
        if got.startswith('bad'):
            raise common.InfraError('driver rejected a line: %s for %r' % (got, case))
        val = [int(x) for x in got.split()]
        (kind, res), after = call_real(sp, mod, case)
        if val[:2] == [0, 7]:
            r['unspecified'] += 1           # `Other`: outside what the runtime specifies (non-int objects inside a cell …)
            continue
        r['compared'] += 1
        if kind == 'exc':
            r['python_raises'] += 1
            want_res = [0, _EXC.index(res) if res in _EXC else 7]
        elif sp['result'] == 'None':
            want_res = [1] if res is None else ['not None: %r' % (res,)]
        elif sp['result'] == 'Int':
            want_res = [1, res]
        elif sp['result'] == 'Bool':
            want_res = [1, 1 if res else 0]
        else:
            want_res = None
        nres = 2 if val[0] == 0 else 1 + {'None': 0, 'Int': 1, 'Bool': 1, 'Val': 2}[sp['result']]
        got_res, rest = val[:nres], val[nres:]
        got_state, tail = _dec_state(rest)
        ok = not tail
        if sp['result'] == 'Val' and kind == 'ok':
            # a returned item: a key (or the sentinel)
            want_res = [1, 1, 0] if res is mod._MISSING else [1, 3, res] if type(res) is int else ['unencodable']
        if want_res != got_res or canon(got_state) != canon(after):
            ok = False
        if not ok:
            r['mismatches'] += 1
            mismatches.append({'function': sp['lean_name'], 'case': repr(case)[:600], 'python': [want_res, canon(after)],
                               'lean': [got_res, canon(got_state)]})
    for sp in specs:
        if sp not in live:
            report.setdefault(sp['lean_name'], {'cases': 0, 'not_translated': True})
    not_refused = reject_tests()
    report['c11_reject_snippets'] = {'cases': len(REJECTS), 'refused': len(REJECTS) - len(not_refused), 'mismatches': len(not_refused)}
    for why in not_refused:
        mismatches.append({'function': 'reject snippet', 'case': why, 'python': 'must be refused', 'lean': 'translated'})
    if verbose:
        for k, v in report.items():
            print('  %-40s %s' % (k, v))
        print('  py2lean_c11 self-test: %d cases, %d mismatches, %.1f s (lean %.1f s)' % (
            len(lines), len(mismatches), time.time() - t0, t_lean))
        for m in mismatches[:5]:
            print('  MISMATCH', m)
    rep_all.update(report)
    rep_all['_mismatches'] = rep_all.get('_mismatches', []) + mismatches
    return n_all + len(mismatches), rep_all


if __name__ == '__main__':
    import sys
    sys.path.insert(0, os.path.dirname(os.path.abspath(__file__)))
    from bv import common as _c
    _c.ensure_repo_on_path()
    n, rep = selftest(['C11'], quick='--quick' in sys.argv, seed=0)
    sys.exit(1 if n else 0)
