"""py2lean_c13 - extension module of the SrcTie source translator for property C13
(`boltons.funcutils`: `FunctionBuilder`, `update_wrapper`, `_parse_wraps_expected`).

Plugged into harness/py2lean.py through the spec key `ext: 'py2lean_c13'` (three small hooks there):

  * `prepass(fdef, tree, spec, notes)` - a desugaring pre-pass run on the `ast.FunctionDef` before the base
    translator (and before py2lean_prepass) sees it.  It rewrites constructs the base subset does not have INTO
    the subset plus calls of *spec-declared operations* (names starting with `%c13.`, which no Python source can
    spell).  Every rewrite is syntactic, exact on the domain the spec declares, and SKIPPED (or refused with
    `Unsupported`) when a side condition cannot be checked on the AST; the construct then reaches the base
    translator unchanged and is refused there.
  * `translate_op(ex, node, expected)` - the Lean term of a call of such an operation (types by matching the
    operation's declared signature against the argument types; a raising operation is hoisted like every partial
    operation of the raising mode).  The operations are defined in lean/BoltonsVerif/PyRtC13.lean (`RT_IMPORT`).
  * `call_method`, `FAMILIES`, `SNIPPETS` - the translator self-test of this module (py2lean_selftest.py).

Specification of every rewrite: notes/SRCTIE.md section 1f.  Trusted together with py2lean.py.
"""
from __future__ import annotations

import ast
import copy

import py2lean
from py2lean import Unsupported

RT_IMPORT = 'PyRtC13'
OP = '%c13.'
TAG_ATTR = 'exc_sub'          # state field holding the tag of a user-defined exception in flight

# operation -> (parameter types, result type, Lean function, raises, needs decidable equality on γ)
# γ, δ are the operation's own type variables
OPS = {
    'reversed': (['List γ'], 'List γ', 'PyRtC13.reversed', False, False),
    'zip': (['List γ', 'List δ'], 'List (γ × δ)', 'PyRtC13.zip', False, False),
    'or_empty': (['Option (List γ)'], 'List γ', 'PyRtC13.orEmpty', False, False),
    'dict_of': (['List (γ × δ)'], 'Dict γ δ', 'PyRt.Dict.ofPairs', False, True),
    'dict_update': (['Dict γ δ', 'Dict γ δ'], 'Dict γ δ', 'PyRt.Dict.update', False, True),
    'dict_discard': (['Dict γ δ', 'γ'], 'Dict γ δ', 'PyRtC13.dictDiscard', False, True),
    'dict_select': (['Dict γ δ', 'List γ'], 'List δ', 'PyRtC13.dictSelect', False, True),
    'list_remove': (['List γ', 'γ'], 'List γ', 'PyRtC13.listRemove?', True, True),
    'list_insert': (['List γ', 'Int', 'γ'], 'List γ', 'PyRtC13.listInsert', False, False),
}
ONE_SHOT = ('reversed', 'zip')                   # builtins returning one-shot iterators
CONSUMERS = ('list', 'tuple', 'dict', 'zip', 'reversed')
IGNORABLE_EXC = ('AttributeError',)              # no translated operation raises it (declared attributes exist)


def _op(name, args, at):
    n = ast.Call(func=ast.Name(id=OP + name, ctx=ast.Load()), args=list(args), keywords=[])
    return ast.copy_location(n, at)


def _is_self_attr(node, self_name, state):
    return isinstance(node, ast.Attribute) and isinstance(node.value, ast.Name) and node.value.id == self_name \
        and node.attr in state


def _stores(fdef, name):
    n = 0
    for x in ast.walk(fdef):
        if isinstance(x, ast.Name) and x.id == name and isinstance(x.ctx, (ast.Store, ast.Del)):
            n += 1
        if isinstance(x, ast.arg) and x.arg == name:
            n += 1
        if isinstance(x, ast.ExceptHandler) and x.name == name:
            n += 1
    return n


def _load(node):
    n = copy.deepcopy(node)
    for x in ast.walk(n):
        if hasattr(x, 'ctx'):
            x.ctx = ast.Load()
    return n


def _store(node):
    n = copy.deepcopy(node)
    n.ctx = ast.Store()
    return n


# ---------------------------------------------------------------------------------------------- the pre-pass

class _Pre:
    def __init__(self, fdef, tree, spec, notes):
        self.f = fdef
        self.tree = tree
        self.spec = spec
        self.notes = notes
        self.cls = spec.get('cls')
        self.state = dict((self.cls or {}).get('state', {}))
        self.user_exc = dict((self.cls or spec).get('user_exc', {}))
        self.self_name = fdef.args.args[0].arg if (spec.get('method') and fdef.args.args) else None
        self._exc_vars = set()

    def note(self, what):
        self.notes.add('c13:' + what)

    # -- module facts ---------------------------------------------------------------------------------
    def _module_rebinds(self, name):
        for n in self.tree.body if self.tree is not None else []:
            if isinstance(n, (ast.FunctionDef, ast.ClassDef)) and n.name == name:
                return True
            if isinstance(n, ast.Assign) and any(isinstance(t, ast.Name) and t.id == name for t in n.targets):
                return True
            if isinstance(n, (ast.Import, ast.ImportFrom)) and any((a.asname or a.name) in (name, '*') for a in n.names):
                return True
        return False

    def _builtin(self, name):
        """`name` means the builtin: not rebound in the function, nor at module level"""
        return _stores(self.f, name) == 0 and not self._module_rebinds(name)

    def _check_user_exc(self):
        for name, d in self.user_exc.items():
            defs = [n for n in ast.walk(self.tree) if isinstance(n, ast.ClassDef) and n.name == name]
            if len(defs) != 1 or defs[0] not in self.tree.body:
                raise Unsupported(self.f, 'exception class %s is not defined exactly once at module level' % name)
            c = defs[0]
            ok = len(c.bases) == 1 and isinstance(c.bases[0], ast.Name) and c.bases[0].id == d['base'] \
                and not c.keywords and not c.decorator_list and all(
                    isinstance(b, ast.Pass) or (isinstance(b, ast.Expr) and isinstance(b.value, ast.Constant))
                    or (isinstance(b, ast.Assign) and isinstance(b.value, ast.Constant) and all(
                        isinstance(t, ast.Name) and not t.id.startswith('__') for t in b.targets))
                    for b in c.body)          # no methods: constructing / raising it does what the base class does
            if not ok or d['base'] not in py2lean.EXC_NAMES or self._module_rebinds(d['base']):
                raise Unsupported(c, 'exception class %s is not a plain subclass of %s' % (name, d['base']))
            if _stores(self.f, name):
                raise Unsupported(self.f, 'the function rebinds %s' % name)

    # -- P1 getattr(self, 'a', const) ------------------------------------------------------------------
    def p_getattr(self):
        pre = self

        class T(ast.NodeTransformer):
            def visit_Call(self, n):
                self.generic_visit(n)
                if isinstance(n.func, ast.Name) and n.func.id == 'getattr' and len(n.args) == 3 and not n.keywords \
                        and isinstance(n.args[0], ast.Name) and n.args[0].id == pre.self_name \
                        and isinstance(n.args[1], ast.Constant) and n.args[1].value in pre.state \
                        and n.args[1].value not in (pre.cls.get('virtual') or ()) \
                        and n.args[1].value != TAG_ATTR \
                        and (isinstance(n.args[2], ast.Constant)
                             or (isinstance(n.args[2], (ast.Tuple, ast.List)) and not n.args[2].elts)) \
                        and pre._builtin('getattr'):
                    pre.note('getattr')
                    return ast.copy_location(ast.Attribute(value=n.args[0], attr=n.args[1].value, ctx=ast.Load()), n)
                return n
        if self.self_name:
            T().visit(self.f)

    # -- P2 a local that IS an attribute -----------------------------------------------------------------
    def _calls_only_pure_methods(self):
        for n in ast.walk(self.f):
            if isinstance(n, ast.Call) and isinstance(n.func, ast.Attribute) and isinstance(n.func.value, ast.Name) \
                    and n.func.value.id == self.self_name:
                sps = py2lean.method_specs(self.cls, n.func.attr)
                if not sps:
                    return False
                for sp in sps:
                    callee = py2lean._find_function(self.tree, sp['qualname'])
                    if py2lean.method_mutates(self.cls, callee, self.tree):
                        return False
        return True

    def p_alias(self):
        if not self.self_name:
            return
        for st in list(self.f.body):
            if not (isinstance(st, ast.Assign) and len(st.targets) == 1 and isinstance(st.targets[0], ast.Name)
                    and _is_self_attr(st.value, self.self_name, self.state)):
                continue
            v, a = st.targets[0].id, st.value.attr
            if _stores(self.f, v) != 1 or a == TAG_ATTR:
                continue
            rebinds = False
            for n in ast.walk(self.f):
                if isinstance(n, ast.Attribute) and isinstance(n.value, ast.Name) and n.value.id == self.self_name \
                        and n.attr == a and isinstance(n.ctx, (ast.Store, ast.Del)):
                    rebinds = True
                if isinstance(n, ast.Name) and n.id == v and n is not st.targets[0] and (
                        (n.lineno, n.col_offset) <= (st.end_lineno, st.end_col_offset)):
                    rebinds = True                       # an occurrence textually before the binding
                if isinstance(n, (ast.Lambda, ast.FunctionDef)) and n is not self.f:
                    rebinds = True
            if rebinds or not self._calls_only_pure_methods():
                continue
            attr = st.value

            class T(ast.NodeTransformer):
                def visit_Name(self, n):
                    if n.id == v and isinstance(n.ctx, ast.Load):
                        return ast.copy_location(copy.deepcopy(attr), n)
                    return n
            self.f.body.remove(st)
            T().visit(self.f)
            self.note('alias')

    # -- P3 user-defined exception classes ------------------------------------------------------------------
    def _msg_safe(self, e):
        if isinstance(e, (ast.Constant, ast.Name)):
            return True
        if _is_self_attr(e, self.self_name, self.state):
            return True
        if isinstance(e, ast.JoinedStr):
            return all(isinstance(v, ast.Constant) or (isinstance(v, ast.FormattedValue) and v.format_spec is None
                                                       and self._msg_safe(v.value)) for v in e.values)
        if isinstance(e, ast.BinOp) and isinstance(e.op, ast.Mod) and isinstance(e.left, ast.Constant) \
                and isinstance(e.left.value, str):
            fmt = e.left.value
            n = fmt.count('%r') + fmt.count('%s')
            if fmt.replace('%r', '').replace('%s', '').count('%'):
                return False
            parts = e.right.elts if isinstance(e.right, ast.Tuple) else [e.right]
            return len(parts) == n and all(self._msg_safe(p) for p in parts)
        return False

    def _set_tag(self, tag, at):
        tgt = ast.Attribute(value=ast.Name(id=self.self_name, ctx=ast.Load()), attr=TAG_ATTR, ctx=ast.Store())
        return ast.copy_location(ast.Assign(targets=[tgt], value=ast.Constant(value=tag)), at)

    def _raise_base(self, base, at):
        return ast.copy_location(ast.Raise(exc=ast.Name(id=base, ctx=ast.Load()), cause=None), at)

    def _user_raise(self, st):
        """`raise U(msg)` / `raise U` of a user-defined class -> (U, message args) or None"""
        if not isinstance(st, ast.Raise) or st.exc is None or st.cause is not None:
            return None
        e = st.exc
        args = []
        if isinstance(e, ast.Call) and not e.keywords:
            e, args = e.func, e.args
        if isinstance(e, ast.Name) and e.id in self.user_exc:
            return e.id, args
        return None

    def p_exc_objects(self):
        """`exc = U(msg)`; `exc.attr = name`; `raise exc`  ->  `raise U(msg)` (only the class is modelled)"""
        for n in list(ast.walk(self.f)):
            for fld in ('body', 'orelse', 'finalbody'):
                body = getattr(n, fld, None)
                if not isinstance(body, list):
                    continue
                for st in list(body):
                    if not (isinstance(st, ast.Assign) and len(st.targets) == 1 and isinstance(st.targets[0], ast.Name)
                            and isinstance(st.value, ast.Call) and isinstance(st.value.func, ast.Name)
                            and st.value.func.id in self.user_exc and not st.value.keywords):
                        continue
                    v = st.targets[0].id
                    if st not in body:
                        continue
                    i = body.index(st)
                    j = i + 1
                    while j < len(body) and isinstance(body[j], ast.Assign) and len(body[j].targets) == 1 \
                            and isinstance(body[j].targets[0], ast.Attribute) \
                            and isinstance(body[j].targets[0].value, ast.Name) and body[j].targets[0].value.id == v \
                            and isinstance(body[j].value, (ast.Name, ast.Constant)):
                        j += 1
                    if j < len(body) and isinstance(body[j], ast.Raise) and isinstance(body[j].exc, ast.Name) \
                            and body[j].exc.id == v and body[j].cause is None:
                        # the object is created, given attributes and raised on the spot: no other statement of the
                        # function can see it (checked below: no occurrence of the name is left)
                        body[i:j + 1] = [ast.copy_location(ast.Raise(exc=st.value, cause=None), body[j])]
                        self.note('exc-object')
                        self._exc_vars.add(v)
        for x in ast.walk(self.f):
            if isinstance(x, ast.Name) and x.id in self._exc_vars:
                raise Unsupported(x, 'an exception object that is used besides being raised')

    def _rewrite_raises(self, stmts, handler_tag=None, handler_base=None):
        """user-defined `raise U(...)` -> tag assignment + `raise Base`; a bare `raise` inside the handler of a
        user-defined class re-raises it (tag restored).  Nested `try` handlers have their own bare raises."""
        out = []
        for st in stmts:
            ur = self._user_raise(st)
            if ur is not None:
                name, args = ur
                if self.self_name is None:
                    raise Unsupported(st, 'a user-defined exception class outside a class with object state')
                if not all(self._msg_safe(a) for a in args):
                    raise Unsupported(st, 'exception message that could itself raise')
                d = self.user_exc[name]
                out += [self._set_tag(d['tag'], st), self._raise_base(d['base'], st)]
                self.note('user-exc')
                continue
            if isinstance(st, ast.Raise) and st.exc is None and st.cause is None and handler_base is not None:
                if handler_tag is None:
                    raise Unsupported(st, 'bare raise in a handler that may have caught a user-defined exception')
                out += [self._set_tag(handler_tag, st), self._raise_base(handler_base, st)]
                continue
            if isinstance(st, ast.If):
                st.body = self._rewrite_raises(st.body, handler_tag, handler_base)
                st.orelse = self._rewrite_raises(st.orelse, handler_tag, handler_base)
            elif isinstance(st, (ast.For, ast.While)):
                st.body = self._rewrite_raises(st.body, handler_tag, handler_base)
                st.orelse = self._rewrite_raises(st.orelse, handler_tag, handler_base)
            elif isinstance(st, ast.With):
                st.body = self._rewrite_raises(st.body, handler_tag, handler_base)
            elif isinstance(st, ast.Try):
                st.body = self._rewrite_raises(st.body, handler_tag, handler_base)
                st.orelse = self._rewrite_raises(st.orelse, handler_tag, handler_base)
                st.finalbody = self._rewrite_raises(st.finalbody, handler_tag, handler_base)
                self._rewrite_handlers(st)
            out.append(st)
        return out

    def _rewrite_handlers(self, tr):
        bases_of_user = {d['base'] for d in self.user_exc.values()}
        seen = set()
        for hd in tr.handlers:
            types = hd.type.elts if isinstance(hd.type, ast.Tuple) else [hd.type]
            names = []
            for t in types:
                if not isinstance(t, ast.Name):
                    raise Unsupported(hd, 'handler class expression')
                names.append(t.id)
            kept = [n for n in names if n not in IGNORABLE_EXC or self._module_rebinds(n)]
            if kept != names and kept:
                self.note('handler-unraisable-class')
            else:
                kept = names
            kept = list(dict.fromkeys(kept))
            if len(kept) != 1:
                raise Unsupported(hd, 'handler for several exception classes')
            name = kept[0]
            if name in self.user_exc:
                d = self.user_exc[name]
                body = self._rewrite_raises(hd.body, d['tag'], d['base'])
                test = ast.Compare(left=ast.Attribute(value=ast.Name(id=self.self_name, ctx=ast.Load()), attr=TAG_ATTR,
                                                      ctx=ast.Load()), ops=[ast.Eq()],
                                   comparators=[ast.Constant(value=d['tag'])])
                hd.body = [ast.copy_location(ast.If(test=test, body=[self._set_tag(0, hd)] + body,
                                                    orelse=[self._raise_base(d['base'], hd)]), hd)]
                hd.type = ast.copy_location(ast.Name(id=d['base'], ctx=ast.Load()), hd)
                base = d['base']
                self.note('user-exc-handler')
            elif name in bases_of_user and self.self_name is not None:
                # catches the builtin class AND its user-defined subclasses: the tag is reset
                hd.body = [self._set_tag(0, hd)] + self._rewrite_raises(hd.body, None, name)
                hd.type = ast.copy_location(ast.Name(id=name, ctx=ast.Load()), hd)
                base = name
            else:
                hd.body = self._rewrite_raises(hd.body, None, None)
                hd.type = ast.copy_location(ast.Name(id=name, ctx=ast.Load()), hd)
                base = name
            if base in seen:
                raise Unsupported(hd, 'two handlers of one try for the same builtin class')
            seen.add(base)

    def p_exceptions(self):
        if not self.user_exc or not any(isinstance(n, ast.Name) and n.id in self.user_exc for n in ast.walk(self.f)):
            return
        self._check_user_exc()
        self.p_exc_objects()
        self.f.body = self._rewrite_raises(self.f.body)

    # -- P4 in-place container methods as statements ---------------------------------------------------
    def _fresh_local(self, v, depth=0):
        """every binding of local `v` creates a NEW container (no second reference to it can exist)"""
        if v == self.self_name or any(a.arg == v for a in self.f.args.args):
            return False
        found = False
        for n in ast.walk(self.f):
            tg = []
            if isinstance(n, ast.Assign):
                tg = [(t, n.value) for t in n.targets]
            elif isinstance(n, (ast.AugAssign, ast.For, ast.comprehension)):
                tg = [(n.target, None)]
            for t, val in tg:
                for e in ast.walk(t):
                    if isinstance(e, ast.Name) and e.id == v:
                        if e is not t or not self._fresh_value(val, depth):
                            return False
                        found = True
        return found

    def _fresh_value(self, val, depth=0):
        if isinstance(val, (ast.List, ast.Dict, ast.ListComp, ast.DictComp)):
            return True
        if isinstance(val, ast.Call) and isinstance(val.func, ast.Name):
            if val.func.id in ('list', 'dict', 'sorted') and self._builtin(val.func.id):
                return True
            if val.func.id.startswith(OP) and val.func.id[len(OP):] in (
                    'dict_of', 'dict_update', 'dict_discard', 'list_remove', 'list_insert', 'dict_select'):
                return True
        if isinstance(val, ast.Call) and isinstance(val.func, ast.Attribute) and isinstance(val.func.value, ast.Name) \
                and val.func.value.id == self.self_name and depth < 2 and self.cls is not None:
            sps = py2lean.method_specs(self.cls, val.func.attr)
            if not sps:
                return False
            for sp in sps:
                callee = copy.deepcopy(py2lean._find_function(self.tree, sp['qualname']))
                sub = _Pre(callee, self.tree, sp, set())
                rets = [r for r in ast.walk(callee) if isinstance(r, ast.Return)]
                if not rets:
                    return False
                for r in rets:
                    if not (isinstance(r.value, ast.Name) and sub._fresh_local(r.value.id, depth + 1)):
                        return False
            return True
        return False

    def _place_ok(self, p, want=None):
        """a state attribute (of the wanted kind) or a fresh local"""
        if self.self_name and _is_self_attr(p, self.self_name, self.state) and p.attr != TAG_ATTR:
            return want is None or self.state[p.attr].startswith(want)
        return isinstance(p, ast.Name) and self._fresh_local(p.id)

    def p_container_stmts(self):
        for n in ast.walk(self.f):
            for fld in ('body', 'orelse', 'finalbody'):
                body = getattr(n, fld, None)
                if not isinstance(body, list):
                    continue
                for i, st in enumerate(body):
                    if not (isinstance(st, ast.Expr) and isinstance(st.value, ast.Call)
                            and isinstance(st.value.func, ast.Attribute) and not st.value.keywords):
                        continue
                    p, m, a = st.value.func.value, st.value.func.attr, st.value.args
                    new = None
                    is_attr = self.self_name and _is_self_attr(p, self.self_name, self.state)
                    if m == 'append' and len(a) == 1 and is_attr and self._place_ok(p, 'List'):
                        new = ast.BinOp(left=_load(p), op=ast.Add(), right=ast.List(elts=[a[0]], ctx=ast.Load()))
                    elif m == 'insert' and len(a) == 2 and self._place_ok(p, 'List'):
                        new = _op('list_insert', [_load(p), a[0], a[1]], st)
                    elif m == 'remove' and len(a) == 1 and self._place_ok(p, 'List'):
                        new = _op('list_remove', [_load(p), a[0]], st)
                    elif m == 'pop' and len(a) == 2 and isinstance(a[1], ast.Constant) and a[1].value is None \
                            and self._place_ok(p, 'Dict'):
                        new = _op('dict_discard', [_load(p), a[0]], st)
                    elif m == 'update' and len(a) == 1 and isinstance(p, ast.Name) and self._place_ok(p):
                        new = _op('dict_update', [_load(p), a[0]], st)
                    if new is not None:
                        body[i] = ast.copy_location(ast.Assign(targets=[_store(p)], value=ast.copy_location(new, st)), st)
                        self.note('container-stmt')

    # -- P5 expressions -------------------------------------------------------------------------------------
    def p_exprs(self):
        pre = self
        parents = {}
        for n in ast.walk(self.f):
            for c in ast.iter_child_nodes(n):
                parents[c] = n

        def consumed(n):
            p = parents.get(n)
            if isinstance(p, ast.Call) and isinstance(p.func, ast.Name) and p.func.id in CONSUMERS \
                    and pre._builtin(p.func.id) and n in p.args and not p.keywords:
                if p.func.id == 'reversed':
                    return False                 # reversed() of an iterator is a TypeError
                return True
            if isinstance(p, (ast.For, ast.comprehension)) and p.iter is n:
                return True
            return False

        class T(ast.NodeTransformer):
            def visit_BoolOp(self, n):
                self.generic_visit(n)
                if isinstance(n.op, ast.Or) and len(n.values) == 2 and isinstance(n.values[1], (ast.List, ast.Tuple)) \
                        and not n.values[1].elts:
                    pre.note('or-empty')
                    return _op('or_empty', [n.values[0]], n)
                return n

            def visit_Call(self, n):
                ok_shot = consumed(n)
                self.generic_visit(n)
                if isinstance(n.func, ast.Name) and not n.keywords and pre._builtin(n.func.id):
                    f = n.func.id
                    if f == 'reversed' and len(n.args) == 1 and ok_shot:
                        pre.note('reversed')
                        return _op('reversed', n.args, n)
                    if f == 'zip' and len(n.args) == 2 and ok_shot:
                        pre.note('zip')
                        return _op('zip', n.args, n)
                    if f == 'dict' and len(n.args) == 1:
                        pre.note('dict-of')
                        return _op('dict_of', n.args, n)
                return n

            def visit_Tuple(self, n):
                self.generic_visit(n)
                if isinstance(n.ctx, ast.Load) and len(n.elts) <= 1 and not any(isinstance(e, ast.Starred) for e in n.elts):
                    p = parents.get(n)
                    if isinstance(p, ast.ExceptHandler) or (isinstance(p, ast.BinOp) and isinstance(p.op, ast.Mod)):
                        return n
                    pre.note('short-tuple')
                    return ast.copy_location(ast.List(elts=n.elts, ctx=ast.Load()), n)
                return n

            def visit_ListComp(self, n):
                self.generic_visit(n)
                # [D[a] for a in L if a in D]
                if len(n.generators) == 1 and not n.generators[0].is_async:
                    g = n.generators[0]
                    if isinstance(g.target, ast.Name) and len(g.ifs) == 1 and isinstance(n.elt, ast.Subscript) \
                            and isinstance(n.elt.value, ast.Name) and isinstance(n.elt.slice, ast.Name) \
                            and n.elt.slice.id == g.target.id and n.elt.value.id != g.target.id:
                        c = g.ifs[0]
                        if isinstance(c, ast.Compare) and len(c.ops) == 1 and isinstance(c.ops[0], ast.In) \
                                and isinstance(c.left, ast.Name) and c.left.id == g.target.id \
                                and isinstance(c.comparators[0], ast.Name) and c.comparators[0].id == n.elt.value.id \
                                and not any(isinstance(x, ast.Name) and x.id == g.target.id for x in ast.walk(g.iter)):
                            pre.note('dict-select')
                            return _op('dict_select', [n.elt.value, g.iter], n)
                return n
        T().visit(self.f)

    # -- P6 names built from string literals; membership in `L + (e1, ..., en)` ---------------------------------
    def p_names(self):
        names = set(self.spec.get('names', ()))
        if not names:
            return
        pre = self

        class T(ast.NodeTransformer):
            def visit_Assign(self, n):
                self.generic_visit(n)
                if len(n.targets) == 1 and isinstance(n.targets[0], ast.Name) and n.targets[0].id in names:
                    v = n.value
                    if isinstance(v, ast.Constant) and isinstance(v.value, str):
                        n.value = _op('name_lit', [v], v)
                        pre.note('name-literal')
                    elif isinstance(v, ast.BinOp) and isinstance(v.op, ast.Add) and isinstance(v.left, ast.Constant) \
                            and isinstance(v.left.value, str) and isinstance(v.right, ast.Name) and v.right.id in names:
                        n.value = _op('name_cat', [v.left, v.right], v)
                        pre.note('name-prefix')
                return n

            def visit_Compare(self, n):
                self.generic_visit(n)
                # x in L + (e1, ..., en)   ->   x in L or x == e1 or ... (an item that is None equals no name)
                if len(n.ops) == 1 and isinstance(n.ops[0], (ast.In, ast.NotIn)) and isinstance(n.left, ast.Name) \
                        and isinstance(n.comparators[0], ast.BinOp) and isinstance(n.comparators[0].op, ast.Add) \
                        and isinstance(n.comparators[0].right, ast.Tuple) and n.comparators[0].right.elts \
                        and all(isinstance(e, (ast.Name, ast.Attribute, ast.Constant))
                                for e in n.comparators[0].right.elts):
                    b = n.comparators[0]
                    parts = [ast.copy_location(ast.Compare(left=n.left, ops=[ast.In()], comparators=[b.left]), n)]
                    parts += [_op('name_is', [n.left, e], n) for e in b.right.elts]
                    r = ast.copy_location(ast.BoolOp(op=ast.Or(), values=parts), n)
                    pre.note('in-concat')
                    if isinstance(n.ops[0], ast.NotIn):
                        r = ast.copy_location(ast.UnaryOp(op=ast.Not(), operand=r), n)
                    return r
                return n
        T().visit(self.f)

    def run(self):
        for n in ast.walk(self.f):
            if isinstance(n, ast.Attribute) and n.attr == TAG_ATTR:
                raise Unsupported(n, 'the source uses the attribute name %s (reserved for the exception tag)' % TAG_ATTR)
            if isinstance(n, ast.Name) and n.id.startswith(OP):
                raise Unsupported(n, 'reserved name')
        if self.spec.get('region'):
            self.f = region(self)
            self.self_name = self.f.args.args[0].arg
        self.p_getattr()
        self.p_alias()
        self.p_exceptions()
        self.p_names()
        self.p_exprs()
        self.p_container_stmts()
        ast.fix_missing_locations(self.f)
        return self.f


def prepass(fdef, tree, spec, notes):
    mt = getattr(fdef, '_module_tree', None)
    f = copy.deepcopy(fdef)
    f._module_tree = mt
    out = _Pre(f, tree if tree is not None else mt, spec, notes).run()
    out._module_tree = mt
    return out


def region_of(fdef, spec):
    """The REGION of a module-level function that works on one object of a translated class (spec `region`:
    `object` = the local holding it, `result` = the local whose value the region computes): the statements after
    the (only) binding `object = ...` at the top level of the body, up to the first statement that uses anything
    but the region's declared parameters, locals bound inside the region, the object's declared attributes / translated
    methods, and the user-defined exception classes.  -> `def f(object, *params): <region>; return result`."""
    rg = spec['region']
    obj, result = rg['object'], rg['result']
    cls = spec['cls']
    params = list(spec['params'])
    body = list(fdef.body)
    if body and isinstance(body[0], ast.Expr) and isinstance(body[0].value, ast.Constant):
        body = body[1:]
    starts = [i for i, st in enumerate(body) if isinstance(st, ast.Assign) and len(st.targets) == 1
              and isinstance(st.targets[0], ast.Name) and st.targets[0].id == obj]
    if len(starts) != 1 or _stores(fdef, obj) != 1:
        raise Unsupported(fdef, 'the region object %s is not bound exactly once at the top level' % obj)
    allowed = set(params) | {obj} | set(cls.get('user_exc', {}))
    methods = {sp['py'] for sp in cls.get('methods', [])}
    attrs = set(cls['state']) - {TAG_ATTR}

    def inside(st, bound):
        for n in ast.walk(st):
            if isinstance(n, ast.Name) and isinstance(n.ctx, ast.Load) and n.id not in allowed | bound:
                return False
            if isinstance(n, ast.Attribute):
                if not (isinstance(n.value, ast.Name) and n.value.id == obj and n.attr in attrs | methods):
                    return False
            if isinstance(n, (ast.Lambda, ast.FunctionDef, ast.ClassDef, ast.Global, ast.Nonlocal, ast.Return,
                              ast.Yield, ast.YieldFrom, ast.Await)):
                return False
        return True
    out, bound = [], set()
    for st in body[starts[0] + 1:]:
        now = bound | {n.id for n in ast.walk(st) if isinstance(n, ast.Name) and isinstance(n.ctx, ast.Store)}
        if not inside(st, now):
            break
        out.append(st)
        bound = now
    if result not in bound:
        raise Unsupported(fdef, 'the region does not bind its result %s' % result)
    if bound & (set(params) | {obj}):
        raise Unsupported(fdef, 'the region rebinds one of its parameters')
    used = {n.id for st in out for n in ast.walk(st) if isinstance(n, ast.Name)}
    if not set(params) <= used:
        raise Unsupported(fdef, 'a declared parameter of the region is not used in it')
    ret = ast.Return(value=ast.Name(id=result, ctx=ast.Load()))
    ast.copy_location(ret, out[-1])
    ret.lineno = ret.end_lineno = out[-1].end_lineno + 1
    new = ast.FunctionDef(name=fdef.name, args=ast.arguments(
        posonlyargs=[], args=[ast.arg(arg=a) for a in [obj] + params], vararg=None, kwonlyargs=[], kw_defaults=[],
        kwarg=None, defaults=[]), body=copy.deepcopy(out) + [ret], decorator_list=[], returns=None, type_comment=None)
    if hasattr(ast, 'TypeVar'):
        new.type_params = []
    ast.copy_location(new, fdef)
    ast.fix_missing_locations(new)
    return new


def region(pre):
    pre.note('region')
    return region_of(pre.f, pre.spec)


# ---------------------------------------------------------------------------------------------- operations

def _match(pat, t, env, node):
    """match the operation's parameter type `pat` (variables γ δ) against the argument type `t`"""
    if t is None:
        raise py2lean._Unknown()
    if pat[0] == 'Var' and pat[1] in ('γ', 'δ'):
        if pat[1] in env:
            env[pat[1]] = py2lean.unify(env[pat[1]], t, node)
        else:
            env[pat[1]] = t
        return
    if pat[0] != t[0]:
        raise Unsupported(node, 'operation argument: expected %s, found %s' % (pat, t))
    if pat[0] in ('List', 'Option', 'Set'):
        _match(pat[1], t[1], env, node)
    elif pat[0] == 'Dict':
        _match(pat[1], t[1], env, node)
        _match(pat[2], t[2], env, node)
    elif pat[0] == 'Prod':
        if len(pat[1]) != len(t[1]):
            raise Unsupported(node, 'operation argument: tuple length')
        for p, x in zip(pat[1], t[1]):
            _match(p, x, env, node)


def _subst(pat, env):
    if pat[0] == 'Var' and pat[1] in ('γ', 'δ'):
        return env.get(pat[1])
    if pat[0] in ('List', 'Option', 'Set'):
        return (pat[0], _subst(pat[1], env))
    if pat[0] == 'Dict':
        return ('Dict', _subst(pat[1], env), _subst(pat[2], env))
    if pat[0] == 'Prod':
        return ('Prod', tuple(_subst(p, env) for p in pat[1]))
    return pat


def translate_op(ex, node, expected):
    name = node.func.id[len(OP):]
    fn = ex.fn
    if name in ('name_lit', 'name_cat', 'name_is'):
        return _name_op(ex, name, node)
    if name not in OPS or node.keywords:
        raise Unsupported(node, 'unknown operation %s' % name)
    ptypes, rtype, lean, raises, deceq = OPS[name]
    if len(node.args) != len(ptypes):
        raise Unsupported(node, 'operation arity')
    if raises and not fn.raises:
        raise Unsupported(node, 'a raising operation outside the raising mode')
    env = {}
    terms = []
    for a, pt in zip(node.args, ptypes):
        pat = py2lean.parse_type(pt)
        want = _subst(pat, env)
        e, t = ex.expr(a, want if (want is not None and py2lean.known(want)) else None)
        if name == 'or_empty' and t is not None and t[0] == 'List':
            return e, t                          # `x or []` of a value that is never None: x or an empty list = x
        if t is not None and t[0] == 'Option' and t[1] is None and pat[0] == 'Option':
            raise py2lean._Unknown()
        _match(pat, t, env, node)
        terms.append(py2lean.FnTranslator._atom(e))
    res = _subst(py2lean.parse_type(rtype), env)
    if not py2lean.known(res):
        raise py2lean._Unknown()
    if deceq and not py2lean.has_deceq(env['γ'], fn.deceq):
        raise Unsupported(node, 'keys without decidable equality')
    app = '%s %s' % (lean, ' '.join(terms))
    if raises:
        return ex.partial(app, node), res
    return '(%s)' % app, res


def _name_op(ex, name, node):
    kt = ('Var', ex.fn.spec.get('name_type', 'κ'))
    if name == 'name_lit':
        return '(PyRtC13.Names.lit %s : %s)' % (py2lean.str_lit(node.args[0].value), kt[1]), kt
    if name == 'name_is':
        # `x == e` as an item test of `x in (..., e, ...)`: e is a name, or None (equal to no name)
        x, xt = ex.expr(node.args[0])
        saved, ex.nn = ex.nn, frozenset()
        try:
            e, et = ex.expr(node.args[1])
        finally:
            ex.nn = saved
        if et == xt and py2lean.has_deceq(xt, ex.fn.deceq):
            return 'decide (%s = %s)' % (x, e), py2lean.BOOL
        if et == ('Option', xt) and py2lean.has_deceq(xt, ex.fn.deceq):
            return 'decide (%s = some %s)' % (e, x), py2lean.BOOL
        raise Unsupported(node, 'membership item of type %s for a value of type %s' % (et, xt))
    e, _ = ex.expr(node.args[1], kt)
    return '(PyRtC13.Names.cat %s %s)' % (py2lean.str_lit(node.args[0].value), py2lean.FnTranslator._atom(e)), kt


FRESH_OPS = ('reversed', 'zip', 'or_empty', 'dict_of', 'dict_update', 'dict_discard', 'dict_select', 'list_remove',
             'list_insert')


def _flat(t):
    """a container whose items are scalars (immutable values): sharing ITEMS with another container is harmless"""
    if t is None:
        return False
    if t[0] in ('List', 'Set', 'Option'):
        return _flat(t[1]) or py2lean.FnTranslator._scalar(t[1])
    if t[0] == 'Dict':
        return all(_flat(x) or py2lean.FnTranslator._scalar(x) for x in t[1:])
    if t[0] == 'Prod':
        return all(_flat(x) or py2lean.FnTranslator._scalar(x) for x in t[1])
    return py2lean.FnTranslator._scalar(t)


def alias_nodes(fn, value):
    """the nodes of `value` through which a mutable container of the object state could become shared: like
    `ast.walk`, but without the arguments of `len(...)` (an int) and of an operation that returns a NEW container
    of scalars (every operation of PyRtC13 builds its result afresh; `x or []` is excluded: it may return x)"""
    todo = [value]
    while todo:
        n = todo.pop()
        if isinstance(n, ast.Call) and isinstance(n.func, ast.Name):
            if n.func.id == 'len' and len(n.args) == 1 and not n.keywords:
                continue
            if n.func.id.startswith(OP) and n.func.id[len(OP):] in FRESH_OPS and n.func.id[len(OP):] != 'or_empty' \
                    and _flat(fn._type_of(n)):
                continue
        yield n
        todo.extend(ast.iter_child_nodes(n))


# ---------------------------------------------------------------------------------------------- self-test side
# (harness/py2lean_selftest.py: CPython vs the generated definitions; this module brings the families of argument
# tuples / object states for its classes and how to call the real methods)

FB_NAMES = ['a', 'b', 'c', 'd', 'kw', 'args', '_call', '__call', '___call', '']


def call_method(spec, fn, case, to_py):
    """build a FunctionBuilder with the attributes of `case['self']` (no __init__: the state is arbitrary), call the
    real method, read the attributes back.  A user-defined exception class is reported as its builtin base class and
    its tag in `exc_sub`, which is how the generated definitions model it."""
    from bv import common
    cls = spec['cls']
    pycls = fn.__globals__[cls['name']]
    obj = pycls.__new__(pycls)
    for a, tt in cls['state'].items():
        if a == TAG_ATTR:
            continue
        v = to_py(py2lean.parse_type(tt), case['self'][a])
        if a == 'defaults' and v is not None:
            v = tuple(v)
        setattr(obj, a, v)
    kw = {}
    sentinel = fn.__globals__[cls['sentinels'][0]]

    def mark(t, v):
        """`none` of an `Option ν` is the "argument omitted" marker object of the module"""
        if t[0] == 'Option':
            return sentinel if v is None else mark(t[1], v)
        if t[0] == 'List':
            return [mark(t[1], x) for x in v]
        if t[0] == 'Prod':
            return tuple(mark(tt, x) for tt, x in zip(t[1], v))
        return v
    for p, tt in spec['params'].items():
        t = py2lean.parse_type(tt)
        kw[p] = mark(t, to_py(t, case[py2lean.mangle(p)]))
    if spec.get('region'):
        fn = _region_callable(spec, fn)
    tag = case['self'].get(TAG_ATTR, 0)
    try:
        with common.time_limit(5):
            r = fn(obj, **kw)
            if isinstance(r, tuple):
                r = list(r)
        res = ('ok', r)
    except common.CaseTimeout:
        res = ('exc', 'CaseTimeout')
    except Exception as e:  # noqa: BLE001
        name = type(e).__name__
        ue = cls.get('user_exc', {})
        if name in ue:
            res, tag = ('exc', ue[name]['base']), ue[name]['tag']
        else:
            res = ('exc', name)
    after = {a: (tag if a == TAG_ATTR else getattr(obj, a)) for a in cls['state']}
    return res, after


_REGION_FN = {}


def _region_callable(spec, fn):
    """the region of the real function (cut out exactly as the pre-pass does, nothing else rewritten), compiled in
    the namespace of its module: what the generated definition of a `region` spec is compared with"""
    import inspect
    key = (spec['lean_name'], fn)
    if key not in _REGION_FN:
        tree = ast.parse(inspect.getsource(inspect.getmodule(fn)))
        fdef = py2lean._find_function(tree, spec['qualname'])
        new = region_of(fdef, spec)
        mod = ast.Module(body=[new], type_ignores=[])
        ast.fix_missing_locations(mod)
        ns = {}
        exec(compile(mod, '<region of %s>' % spec['qualname'], 'exec'), fn.__globals__, ns)
        _REGION_FN[key] = ns[fdef.name]
    return _REGION_FN[key]


def _fb_states(rng, quick):
    """states of a FunctionBuilder: reachable ones (`from_func` of generated functions followed by random histories of
    `add_arg` / `remove_arg` on the real class) and arbitrary ones (duplicates, more defaults than arguments,
    `defaults` None / empty, defaults for names that are not keyword-only arguments)"""
    import importlib
    mod = importlib.import_module('boltons.funcutils')

    def snap(fb):
        return {'name': fb.name, 'args': list(fb.args), 'defaults': None if fb.defaults is None else list(fb.defaults),
                'kwonlyargs': list(fb.kwonlyargs), 'kwonlydefaults': dict(fb.kwonlydefaults or {}),
                'varargs': fb.varargs, 'varkw': fb.varkw, TAG_ATTR: 0}
    for _ in range(40 if quick else 300):
        names = rng.sample(FB_NAMES[:9], rng.randint(0, 5))
        npos = rng.randint(0, len(names))
        pos, kwo = names[:npos], names[npos:]
        nd = rng.randint(0, len(pos))
        parts = [p for p in pos[:len(pos) - nd]] + ['%s=%d' % (p, i) for i, p in enumerate(pos[len(pos) - nd:])]
        va = rng.choice([None, None, 'va'])
        vk = rng.choice([None, 'vk'])
        if va:
            parts.append('*' + va)
        elif kwo:
            parts.append('*')
        parts += [k if rng.random() < 0.5 else '%s=%d' % (k, 10 + i) for i, k in enumerate(kwo)]
        if vk:
            parts.append('**' + vk)
        ns = {}
        exec('def f(%s): pass' % ', '.join(parts), ns)
        fb = mod.FunctionBuilder.from_func(ns['f'])
        yield snap(fb)
        for _ in range(rng.randint(0, 6)):
            try:
                if rng.random() < 0.5:
                    fb.remove_arg(rng.choice(FB_NAMES))
                else:
                    fb.add_arg(rng.choice(FB_NAMES), *([rng.randint(0, 9)] if rng.random() < 0.5 else []),
                               kwonly=rng.random() < 0.3)
            except ValueError:
                pass
            yield snap(fb)
    for _ in range(100 if quick else 800):
        args = [rng.choice(FB_NAMES) for _ in range(rng.randint(0, 4))]
        kwo = [rng.choice(FB_NAMES) for _ in range(rng.randint(0, 3))]
        yield {'name': rng.choice(FB_NAMES), 'args': args,
               'defaults': rng.choice([None, [], [rng.randint(0, 9) for _ in range(rng.randint(0, 5))]]),
               'kwonlyargs': kwo,
               'kwonlydefaults': {k: rng.randint(0, 9) for k in rng.sample(FB_NAMES, rng.randint(0, 3))},
               'varargs': rng.choice([None, 'va', 'a']), 'varkw': rng.choice([None, 'vk', 'b']), TAG_ATTR: 0}


def fam_fb(method):
    def fam(rng, quick):
        for st in _fb_states(rng, quick):
            for _ in range(2):
                case = {'self': st}
                known = st['args'] + st['kwonlyargs']
                name = rng.choice(known) if known and rng.random() < 0.5 else rng.choice(FB_NAMES)
                if method == 'get_arg_names':
                    case['only_required'] = rng.random() < 0.5
                elif method == 'add_arg':
                    case.update(arg_name=name, default=rng.choice([None, None, 0, 7]), kwonly=rng.random() < 0.4)
                elif method == 'remove_arg':
                    case.update(arg_name=name)
                elif method == 'update_wrapper_core':
                    pool = known + FB_NAMES
                    case.update(injected=[rng.choice(pool) for _ in range(rng.randint(0, 3))],
                                expected_items=[(rng.choice(pool), rng.choice([None, None, 3]))
                                                for _ in range(rng.randint(0, 3))],
                                inject_to_varkw=rng.random() < 0.6)
                yield case
    return fam


FAMILIES = {
    'FunctionBuilder.get_defaults_dict': fam_fb('get_defaults_dict'),
    'FunctionBuilder.get_arg_names': fam_fb('get_arg_names'),
    'FunctionBuilder.add_arg': fam_fb('add_arg'),
    'FunctionBuilder.remove_arg': fam_fb('remove_arg'),
    'FunctionBuilder.update_wrapper_core': fam_fb('update_wrapper_core'),
}


# ---------------------------------------------------------------------------------------------- subset boundary
# Each snippet violates ONE side condition of a rewrite of this module (or uses a neighbouring construct that has no
# rewrite): the translator must refuse it (`Unsupported`), never emit Lean for it.

_RCLS = {'name': 'B', 'lean_name': 'B', 'tparams': ['κ', 'ν'], 'deceq': ['κ'], 'inhabited': ['ν'],
         'state': {'xs': 'List κ', 'ys': 'List κ', 'd': 'Dict κ ν', 'dfl': 'Option (List ν)', 'exc_sub': 'Int'},
         'ext': 'py2lean_c13', 'user_exc': {'Miss': {'base': 'ValueError', 'tag': 1}}}
_RHEAD = 'class Miss(ValueError):\n    pass\n\nclass B:\n'
_RHEAD_INIT = 'class Miss(ValueError):\n    def __init__(self, m):\n        super().__init__(m.upper())\n\nclass B:\n'
_RHEAD_KEY = 'class Miss(KeyError):\n    pass\n\nclass B:\n'

REJECT = [
    # (name, head, method source, params, result)
    ('alias of an attribute that is rebound', _RHEAD,
     '    def f(self, k):\n        a = self.xs\n        self.xs = []\n        a.remove(k)\n', {'k': 'κ'}, 'None'),
    ('alias bound twice', _RHEAD,
     '    def f(self, k):\n        a = self.xs\n        a = self.ys\n        a.remove(k)\n', {'k': 'κ'}, 'None'),
    ('in-place method on a parameter', _RHEAD,
     '    def f(self, k, other):\n        other.pop(k, None)\n        return len(other)\n',
     {'k': 'κ', 'other': 'Dict κ ν'}, 'Int'),
    ('in-place method on a local that may alias the state', _RHEAD,
     '    def f(self, k):\n        a = self.d if k in self.xs else {}\n        a.pop(k, None)\n        return len(a)\n',
     {'k': 'κ'}, 'Int'),
    ('one-shot iterator stored in a variable', _RHEAD,
     '    def f(self, k):\n        r = reversed(self.xs)\n        return list(r)\n', {'k': 'κ'}, 'List κ'),
    ('reversed() of a zip object (TypeError in Python)', _RHEAD,
     '    def f(self, k):\n        return list(reversed(zip(self.xs, self.ys)))\n', {'k': 'κ'}, 'List (κ × κ)'),
    ('exception class with an __init__', _RHEAD_INIT,
     '    def f(self, k):\n        raise Miss("x")\n', {'k': 'κ'}, 'None'),
    ('exception class with another base than the spec says', _RHEAD_KEY,
     '    def f(self, k):\n        raise Miss("x")\n', {'k': 'κ'}, 'None'),
    ('exception message that can raise', _RHEAD,
     '    def f(self, k):\n        raise Miss("%d" % k)\n', {'k': 'κ'}, 'None'),
    ('exception message that calls something', _RHEAD,
     '    def f(self, k):\n        raise Miss(", ".join(self.xs))\n', {'k': 'κ'}, 'None'),
    ('handler for two builtin classes', _RHEAD,
     '    def f(self, k):\n        try:\n            self.xs.remove(k)\n        except (KeyError, ValueError):\n'
     '            return\n', {'k': 'κ'}, 'None'),
    ('bare raise in a handler that may have caught a user-defined exception', _RHEAD,
     '    def f(self, k):\n        try:\n            self.xs.remove(k)\n        except ValueError:\n            raise\n',
     {'k': 'κ'}, 'None'),
    ('two handlers of one try for the same builtin class', _RHEAD,
     '    def f(self, k):\n        try:\n            self.xs.remove(k)\n        except Miss:\n            return\n'
     '        except ValueError:\n            return\n', {'k': 'κ'}, 'None'),
    ('the reserved attribute name', _RHEAD,
     '    def f(self, k):\n        self.exc_sub = 5\n', {'k': 'κ'}, 'None'),
    ('exception object used besides being raised', _RHEAD,
     '    def f(self, k):\n        e = Miss("x")\n        if k in self.xs:\n            raise e\n        return e\n',
     {'k': 'κ'}, 'None'),
    ('`or` with a non-empty display', _RHEAD,
     '    def f(self, k):\n        return len(self.dfl or [k])\n', {'k': 'ν'}, 'Int'),
    ('guarded lookup in another dict than the guard tests', _RHEAD,
     '    def f(self, k, o):\n        return [o[a] for a in self.xs if a in self.d]\n', {'k': 'κ', 'o': 'Dict κ ν'},
     'List ν'),
    ('getattr of an undeclared attribute', _RHEAD,
     '    def f(self, k):\n        return len(getattr(self, "zs", ()))\n', {'k': 'κ'}, 'Int'),
    ('dict(...) with keyword arguments', _RHEAD,
     '    def f(self, k):\n        return dict(self.d, a=k)\n', {'k': 'ν'}, 'Dict κ ν'),
    ('insert on a tuple-valued (Option) attribute', _RHEAD,
     '    def f(self, k):\n        self.dfl.insert(0, k)\n', {'k': 'ν'}, 'None'),
]


def reject_tests(verbose=True):
    bad = []
    for name, head, msrc, params, result in REJECT:
        cls = dict(_RCLS)
        spec = {'module': 'x', 'qualname': 'B.f', 'lean_name': 'B.f', 'params': params, 'kind': 'function',
                'result': result, 'tie_theorem': '-', 'cls': cls, 'method': True, 'raises': True, 'py': 'f'}
        cls['methods'] = [spec]
        tree = ast.parse(head + msrc)
        try:
            fdef = py2lean._find_function(tree, 'B.f')
            text = py2lean.FnTranslator(fdef, spec, {}, tree).emit()
            bad.append((name, text))
        except (py2lean.Unsupported, py2lean._Unknown):
            pass
    # a region whose object is bound twice / whose result is not bound inside it
    for name, src in [('region object bound twice',
                       'def g(a):\n    fb = a\n    fb = a\n    r = fb.xs\n    return r\n'),
                      ('region result not bound', 'def g(a):\n    fb = a\n    q = fb.xs\n    return q\n')]:
        spec = {'module': 'x', 'qualname': 'g', 'lean_name': 'B.g', 'params': {}, 'kind': 'function', 'result': 'List κ',
                'tie_theorem': '-', 'cls': dict(_RCLS, methods=[]), 'method': True, 'raises': True, 'py': 'g',
                'region': {'object': 'fb', 'result': 'r'}}
        tree = ast.parse(_RHEAD + '    pass\n\n' + src)
        try:
            text = py2lean.FnTranslator(py2lean._find_function(tree, 'g'), spec, {}, tree).emit()
            bad.append((name, text))
        except (py2lean.Unsupported, py2lean._Unknown):
            pass
    if verbose:
        print('py2lean_c13 subset boundary: %d/%d snippets refused' % (len(REJECT) + 2 - len(bad), len(REJECT) + 2))
        for name, text in bad:
            print('ACCEPTED (should be refused): %s\n%s' % (name, text))
    return len(bad)
