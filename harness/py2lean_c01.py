"""py2lean_c01 - extension module (spec key `ext`) of the SrcTie translator for the heap-mode tie of
`boltons.dictutils.OrderedMultiDict` (C01, round 3e).  Trusted together with py2lean.py / py2lean_heap.py; specified in
notes/SRCTIE.md section "1g continued".  Runtime: lean/BoltonsVerif/PyRtC01.lean.

What it adds to heap mode (everything else is the unmodified translator):

 K1 CHECKED UNBOXING of a key read back out of the store.  A local / parameter listed under the method spec's
    `key_locals` has the static key type (`κ` / `Option κ`); an assignment `x = E` to it whose right-hand side is a chain
    of constant subscripts rooted at a declared `Val` attribute or at a local (`self.root[PREV][KEY]`, after H4;
    `root = self.root; root[PREV][KEY]`) becomes
    `x = %c01.unbox_key(E)`, translated to the partial operation `PyRtC01.unboxKey? E`: a `Val.key k` is `k`; any other
    object (None, a sentinel, a cell, a value object, an int) is outside the static typing of the translation and yields
    `PyExc.Other` - the outcome no handler catches (like `Val.is?` on two unmodelled identities); the tie theorems show
    that it does not occur in the states the class can reach (`root[PREV]` is a cell whenever the dict is not empty).
    Anything else assigned to such a local reaches the translator unchanged (and is refused there if it is a `Val`).

 K3 `return a, ..., self.m(args)` (every item before the call a plain local name, the call last) -> `_c1 = self.m(args);
    return a, ..., _c1`: reading a local has no effect and the callee cannot rebind it.

 K4 `return dict.__getitem__(self, k)[i]` (what H2 leaves of `return super().__getitem__(k)[-1]` / `[:]`) ->
    `_g1 = dict.__getitem__(self, k); return _g1[i]`: the lookup (and its KeyError) first, then the item, as in Python.

 K5 `a = x.add` of a local `x = set()` (both bound once, `a` only ever called, textually later) -> the binding removed,
    `a(e)` -> `x.add(e)`.   K6 (`yield_unbox` generators) `yield E`, E a chain of constant subscripts -> `_y1 = E` under K1,
    `yield _y1`.   K7 a local `x = set()` (bound once, declared in the spec's `locals`) used only as `e in x` / `e not in x`
    / `x.add(e)` -> the list of the items added (`x = []`, `x.append(e)`).   (K5-K7 prepare the iterators; no spec uses
    them yet: the base translator still refuses a list display in a heap-mode generator.)

 K2 `raise KeyError(<string literal> % <pure expression>)` -> `raise KeyError`: the message is not part of a `PyExc`
    (exceptions are compared by class); the argument expression is dropped only when it is a `%`-format of a constant
    string with `type(self)` / `self.__class__` / their `.__name__` (reads that cannot raise and have no effect).
"""
from __future__ import annotations

import ast

import py2lean
from py2lean import Unsupported

RT_IMPORT = 'PyRtC01'
OP = '%c01.'
py2lean.NONNULL_CALLS.add(OP + 'unbox_key')      # its result is a key, never None (flow typing of `Option κ` locals)


def _const_chain_root(node):
    """`A[i][j]...` with constant int subscripts -> A, else None"""
    n = 0
    while isinstance(node, ast.Subscript) and isinstance(node.slice, ast.Constant) and type(node.slice.value) is int:
        node = node.value
        n += 1
    return node if n else None


def _pure_name_expr(node, self_name):
    """`type(self)` / `self.__class__.__name__` / `self.__class__`"""
    if isinstance(node, ast.Call) and isinstance(node.func, ast.Name) and node.func.id == 'type' and len(node.args) == 1 \
            and not node.keywords and isinstance(node.args[0], ast.Name) and node.args[0].id == self_name:
        return True
    if isinstance(node, ast.Attribute) and node.attr == '__name__':
        node = node.value
        if _pure_name_expr(node, self_name):
            return True
    return isinstance(node, ast.Attribute) and node.attr == '__class__' and isinstance(node.value, ast.Name) \
        and node.value.id == self_name


def prepass(fdef, tree, spec, notes):
    import py2lean_heap
    cls = spec.get('cls') or {}
    keys = set(spec.get('key_locals') or ())
    new = py2lean_heap._copy_fdef(fdef)
    self_name = new.args.args[0].arg if new.args.args else None
    state = cls.get('state', {})
    scope = py2lean_heap._stores(new)

    for st in ast.walk(new):
        # K1
        if keys and isinstance(st, ast.Assign) and len(st.targets) == 1 and isinstance(st.targets[0], ast.Name) \
                and st.targets[0].id in keys:
            root = _const_chain_root(st.value)
            # (the root is `self.root` or a local holding it: the operation itself insists on a `Val` argument)
            if root is not None and ((py2lean_heap._is_self_attr(root, self_name, state)
                                      and str(state[root.attr]) == 'Val')
                                     or (isinstance(root, ast.Name) and root.id != self_name and root.id not in keys)):
                st.value = ast.copy_location(ast.Call(func=ast.Name(id=OP + 'unbox_key', ctx=ast.Load()),
                                                      args=[st.value], keywords=[]), st.value)
                notes.add('K1 checked unboxing of %s' % st.targets[0].id)
        # K2
        if isinstance(st, ast.Raise) and st.cause is None and isinstance(st.exc, ast.Call) \
                and isinstance(st.exc.func, ast.Name) and st.exc.func.id == 'KeyError' and 'KeyError' not in scope \
                and len(st.exc.args) == 1 and not st.exc.keywords:
            a = st.exc.args[0]
            if isinstance(a, ast.BinOp) and isinstance(a.op, ast.Mod) and isinstance(a.left, ast.Constant) \
                    and isinstance(a.left.value, str) and _pure_name_expr(a.right, self_name) and 'type' not in scope:
                st.exc = ast.copy_location(ast.Name(id='KeyError', ctx=ast.Load()), st.exc)
                notes.add('K2 message of KeyError dropped')

    # K5: `a = x.add` of a local set `x = set()` (both bound once), `a` only ever called -> `x.add(...)`
    stores = py2lean_heap._stores(new)
    for bind in [n for n in ast.walk(new) if isinstance(n, ast.Assign)]:
        if not (len(bind.targets) == 1 and isinstance(bind.targets[0], ast.Name) and isinstance(bind.value, ast.Attribute)
                and bind.value.attr == 'add' and isinstance(bind.value.value, ast.Name)):
            continue
        a, x = bind.targets[0].id, bind.value.value.id
        xb = [n for n in ast.walk(new) if isinstance(n, ast.Assign) and len(n.targets) == 1
              and isinstance(n.targets[0], ast.Name) and n.targets[0].id == x]
        if stores.get(a) != 1 or stores.get(x) != 1 or len(xb) != 1 or not (
                isinstance(xb[0].value, ast.Call) and isinstance(xb[0].value.func, ast.Name)
                and xb[0].value.func.id == 'set' and not xb[0].value.args and not xb[0].value.keywords) or 'set' in stores:
            continue
        uses = [n for n in ast.walk(new) if isinstance(n, ast.Name) and n.id == a and isinstance(n.ctx, ast.Load)]
        calls = [n for n in ast.walk(new) if isinstance(n, ast.Call) and isinstance(n.func, ast.Name) and n.func.id == a]
        if len(uses) != len(calls) or any((n.lineno, n.col_offset) <= (bind.lineno, bind.col_offset) for n in uses):
            continue
        for c in calls:
            c.func = ast.copy_location(ast.Attribute(value=ast.copy_location(ast.Name(id=x, ctx=ast.Load()), c.func),
                                                     attr='add', ctx=ast.Load()), c.func)

        def drop(stmts, bind=bind):
            return [st for st in stmts if st is not bind] or [ast.copy_location(ast.Pass(), bind)]
        new.body = py2lean_heap._map_blocks(new.body, drop)
        notes.add('K5 bound method %s = %s.add' % (a, x))

    # K7: a local `x = set()` (bound once) used ONLY as `e in x` / `e not in x` / `x.add(e)` -> the list of the items added
    # (`x = []`, `x.append(e)`): membership is the same question, nothing else can see the difference
    stores = py2lean_heap._stores(new)
    for xb in [n for n in ast.walk(new) if isinstance(n, ast.Assign)]:
        if not (len(xb.targets) == 1 and isinstance(xb.targets[0], ast.Name) and isinstance(xb.value, ast.Call)
                and isinstance(xb.value.func, ast.Name) and xb.value.func.id == 'set' and not xb.value.args
                and not xb.value.keywords and 'set' not in stores and stores.get(xb.targets[0].id) == 1):
            continue
        x = xb.targets[0].id
        uses = [n for n in ast.walk(new) if isinstance(n, ast.Name) and n.id == x and isinstance(n.ctx, ast.Load)]
        adds = [n for n in ast.walk(new) if isinstance(n, ast.Expr) and isinstance(n.value, ast.Call)
                and isinstance(n.value.func, ast.Attribute) and n.value.func.attr == 'add'
                and isinstance(n.value.func.value, ast.Name) and n.value.func.value.id == x
                and len(n.value.args) == 1 and not n.value.keywords]
        tests = [n for n in ast.walk(new) if isinstance(n, ast.Compare) and len(n.ops) == 1
                 and isinstance(n.ops[0], (ast.In, ast.NotIn)) and isinstance(n.comparators[0], ast.Name)
                 and n.comparators[0].id == x]
        if len(uses) != len(adds) + len(tests) or spec.get('locals', {}).get(x) is None:
            continue
        for a in adds:               # `x.add(e)` -> `x = %c01.keys_add(x, e)`   (an ast.Expr becomes an ast.Assign in place)
            call = ast.copy_location(ast.Call(func=ast.Name(id=OP + 'keys_add', ctx=ast.Load()),
                                              args=[ast.copy_location(ast.Name(id=x, ctx=ast.Load()), a), a.value.args[0]],
                                              keywords=[]), a)
            a.__class__ = ast.Assign
            a.targets = [ast.copy_location(ast.Name(id=x, ctx=ast.Store()), a)]
            a.value = call
            a.type_comment = None
        xb.value = ast.copy_location(ast.Call(func=ast.Name(id=OP + 'keys_empty', ctx=ast.Load()), args=[], keywords=[]),
                                     xb.value)
        notes.add('K7 local set %s as the list of its items' % x)

    # K6: `yield E` in a generator of keys, E a chain of constant subscripts -> `_y1 = E` (K1: checked unboxing); `yield _y1`
    if spec.get('kind') == 'generator' and spec.get('yield_unbox') and '_y1' not in scope:
        def unyield(stmts):
            out = []
            for st in stmts:
                yv = st.value.value if isinstance(st, ast.Expr) and isinstance(st.value, ast.Yield) else None
                kinds = spec.get('yield_unbox')
                if isinstance(yv, ast.Tuple) and isinstance(kinds, (list, tuple)) and len(kinds) == len(yv.elts) \
                        and all(_const_chain_root(e) is not None for e in yv.elts) and '_y2' not in scope:
                    # `yield curr[KEY], curr[VALUE]`: one checked unboxing per item, left to right
                    for i, (e, kind) in enumerate(zip(list(yv.elts), kinds)):
                        call = ast.copy_location(ast.Call(func=ast.Name(id=OP + 'unbox_' + kind, ctx=ast.Load()),
                                                          args=[e], keywords=[]), st)
                        out.append(ast.copy_location(ast.Assign(
                            targets=[ast.copy_location(ast.Name(id='_y%d' % (i + 1), ctx=ast.Store()), st)], value=call), st))
                        yv.elts[i] = ast.copy_location(ast.Name(id='_y%d' % (i + 1), ctx=ast.Load()), e)
                    notes.add('K6 checked unboxing of a yielded pair')
                    out.append(st)
                    continue
                if isinstance(st, ast.Expr) and isinstance(st.value, ast.Yield) and st.value.value is not None \
                        and _const_chain_root(st.value.value) is not None:
                    call = ast.copy_location(ast.Call(func=ast.Name(id=OP + 'unbox_key', ctx=ast.Load()),
                                                      args=[st.value.value], keywords=[]), st)
                    out.append(ast.copy_location(ast.Assign(
                        targets=[ast.copy_location(ast.Name(id='_y1', ctx=ast.Store()), st)], value=call), st))
                    st.value.value = ast.copy_location(ast.Name(id='_y1', ctx=ast.Load()), st)
                    notes.add('K6 checked unboxing of a yielded key')
                out.append(st)
            return out
        new.body = py2lean_heap._map_blocks(new.body, unyield)

    # K4: `return dict.__getitem__(self, k)[i]` (after H2) -> `_g1 = dict.__getitem__(self, k); return _g1[i]`
    def split_get(stmts):
        out = []
        for st in stmts:
            v = st.value if isinstance(st, ast.Return) else None
            if isinstance(v, ast.Subscript) and isinstance(v.value, ast.Call) and isinstance(v.value.func, ast.Attribute) \
                    and v.value.func.attr == '__getitem__' and isinstance(v.value.func.value, ast.Name) \
                    and v.value.func.value.id == 'dict' and len(v.value.args) == 2 and not v.value.keywords \
                    and isinstance(v.value.args[0], ast.Name) and v.value.args[0].id == self_name \
                    and isinstance(v.value.args[1], ast.Name) and '_g1' not in scope and 'dict' not in scope:
                out.append(ast.copy_location(ast.Assign(
                    targets=[ast.copy_location(ast.Name(id='_g1', ctx=ast.Store()), st)], value=v.value), st))
                v.value = ast.copy_location(ast.Name(id='_g1', ctx=ast.Load()), v.value)     # (textually after the binding)
                notes.add('K4 item of dict.__getitem__(self, k) bound first')
            out.append(st)
        return out
    new.body = py2lean_heap._map_blocks(new.body, split_get)

    # K3
    def hoist(stmts):
        out = []
        for st in stmts:
            v = st.value if isinstance(st, ast.Return) else None
            if isinstance(v, ast.Tuple) and len(v.elts) >= 2 and all(
                    isinstance(e, ast.Name) and e.id != self_name for e in v.elts[:-1]) \
                    and isinstance(v.elts[-1], ast.Call) and isinstance(v.elts[-1].func, ast.Attribute) \
                    and isinstance(v.elts[-1].func.value, ast.Name) and v.elts[-1].func.value.id == self_name \
                    and '_c1' not in scope:
                tmp = ast.copy_location(ast.Name(id='_c1', ctx=ast.Store()), st)
                out.append(ast.copy_location(ast.Assign(targets=[tmp], value=v.elts[-1]), st))
                v.elts[-1] = ast.copy_location(ast.Name(id='_c1', ctx=ast.Load()), st)
                notes.add('K3 method call of a returned tuple first')
            out.append(st)
        return out
    new.body = py2lean_heap._map_blocks(new.body, hoist)
    ast.fix_missing_locations(new)
    return new


def alias_nodes(fn, value):
    return ast.walk(value)


def translate_op(ex, node, expected):
    name = node.func.id[len(OP):]
    fn = ex.fn
    K = ('Var', py2lean.HEAP_TP[0])
    if name == 'keys_empty' and not node.args and not node.keywords:        # K7: the items added to a local set so far
        return '([] : List %s)' % py2lean.HEAP_TP[0], ('List', K)
    if name == 'keys_add' and len(node.args) == 2 and not node.keywords:
        l, lt = ex.expr(node.args[0], ('List', K))
        e, et = ex.expr(node.args[1], K)
        if lt != ('List', K) or et != K:
            raise Unsupported(node, 'a local set of something else than keys')
        return '(%s ++ [%s])' % (l, e), ('List', K)
    if name == 'unbox_val' and len(node.args) == 1 and not node.keywords and fn.raises and fn.heap:
        e, t = ex.expr(node.args[0], py2lean.VAL)
        if t != py2lean.VAL:
            raise Unsupported(node, 'checked unboxing of a statically typed value')
        return ex.partial('PyRtC01.unboxVal? %s' % py2lean.FnTranslator._atom(e), node), ('Var', py2lean.HEAP_TP[1])
    if name != 'unbox_key' or node.keywords or len(node.args) != 1:
        raise Unsupported(node, 'unknown operation %s' % name)
    if not fn.raises or not fn.heap:
        raise Unsupported(node, 'checked unboxing outside the raising heap mode')
    e, t = ex.expr(node.args[0], py2lean.VAL)
    if t != py2lean.VAL:
        raise Unsupported(node, 'checked unboxing of a statically typed value')
    return ex.partial('PyRtC01.unboxKey? %s' % py2lean.FnTranslator._atom(e), node), ('Var', py2lean.HEAP_TP[0])


# ---------------------------------------------------------------------------------------------- self-test side
# (harness/py2lean_selftest.py: CPython vs the generated definitions on object graphs; this module brings the families
# of object states / arguments for the methods it adds)

def _states(rng, quick):
    """the OrderedMultiDict snapshots of py2lean_selftest (reachable + corrupted ones) and, in addition, states whose
    dict is NOT empty although the linked list is (`_clear_ll()` behind the dict's back): there `root[PREV][KEY]` is None,
    the checked unboxing fails, and the self-test counts the case as `unmodelled` instead of comparing it"""
    import importlib
    import py2lean_selftest as T
    import srctie_specs
    mod = importlib.import_module('boltons.dictutils')
    for st in T._omd_states(rng, quick):
        yield st
        if st['d'] and rng.random() < 0.1:
            c = T.heap_build(srctie_specs.OMD, mod.OrderedMultiDict, st, mod._MISSING)
            try:
                c._clear_ll()
            except Exception:  # noqa: BLE001
                continue
            yield T.heap_snapshot(srctie_specs.OMD, c, mod._MISSING)[0]


def _fam(method):
    def fam(rng, quick):
        import py2lean_selftest as T
        for st in _states(rng, quick):
            for _ in range(2):
                case = {'self': st}
                key = rng.choice(list(st['d']) or T.OMD_KEYS) if rng.random() < 0.6 else rng.choice(T.OMD_KEYS)
                if method == 'poplast':
                    case.update(k=key if rng.random() < 0.5 else None, default=rng.choice([None, None, -1, 5]))
                elif method == 'pop':
                    case.update(k=key, default=rng.choice([None, None, -1, 5]))
                elif method == 'getitem':
                    case.update(k=key)
                elif method in ('iterkeys', 'iteritems'):
                    case.update(multi=rng.random() < 0.5)
                elif method == 'getlist':
                    case.update(k=key, default=rng.choice([None, None, [7], []]))
                yield case
    return fam


FAMILIES = {'OMD.poplast': _fam('poplast'), 'OMD.pop': _fam('pop'), 'OMD.popitem': _fam('popitem'),
            'OMD.getitem': _fam('getitem'), 'OMD.getlist': _fam('getlist'), 'OMD.iterkeys': _fam('iterkeys'),
            'OMD.iteritems': _fam('iteritems')}
