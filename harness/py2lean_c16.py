"""py2lean_c16 - source translator module of property C16 (boltons/tbutils.py: the text-building methods).

Spec key `translator: 'py2lean_c16'` (harness/srctie_specs.py, block C16).  A small translator of its own for STRAIGHT-LINE
TEXT BUILDERS: functions / methods that build a str or a list of str in local variables with `=`, `+=`, `.append`,
`if`/`else`, `for x in <list>`, an early `return` in an `if`, and return at the end.  Rules: notes/SRCTIE.md section "C16".

  * a function becomes ONE Lean definition in direct style: every assignment is a `let` that shadows the variable; an
    `if` whose branches assign variables becomes `let (vars) := if c then (...) else (...)`; `for x in xs:` becomes
    `List.foldl (fun (vars) x => ...) (vars) xs` over the variables the body assigns (no break / continue / return inside);
  * types (spec `params`, `self_attrs`, `locals`; everything else inferred): Str | Int | Nat | Bool | List T | Option T |
    T x U | the declared record types FrameD (a frame dict), Callpoint (object with attributes), DLine (_DeferredLine);
  * `'...{}...'.format(a, b)` and f-strings with plain `{}` / `{name}` fields become concatenations; a field of type Str is
    the string itself, Int / Nat / Option Str go through PyRtC16.fmtInt / fmtNat / fmtOS; anything with a conversion or a
    format spec is refused;
  * spec-declared operations (lean/BoltonsVerif/PyRtC16.lean): `sep.join(list)`, `d['k']` / `d.get('k')` on a FrameD,
    attribute reads of a Callpoint, `str(<DLine>)`, truth value of Str / List / Option Str / DLine, `s.strip()`;
  * calls of other translated functions of the module (`_repeated_line_note(count)`, `f.tb_frame_str()`).
Everything else raises Unsupported: the function is then NOT TRANSLATED and its tie theorem stops checking.
"""
import ast
import importlib
import inspect
import os
import string as _string

HERE = os.path.dirname(os.path.abspath(__file__))
RT_IMPORT = 'PyRtC16'

LEAN_KEYWORDS = {'from', 'end', 'at', 'fun', 'let', 'have', 'show', 'do', 'then', 'else', 'if', 'match', 'with', 'in',
                 'def', 'theorem', 'where', 'open', 'section', 'namespace', 'structure', 'class', 'instance', 'by',
                 'this', 'Type', 'Prop', 'Sort', 'set', 'open', 'local', 'private', 'mut', 'for', 'return', 'try',
                 'catch', 'finally', 'macro', 'syntax', 'export', 'import', 'universe', 'variable', 'deriving',
                 'extends', 'infix', 'notation', 'prefix', 'postfix', 'using', 'calc', 'exists', 'forall', 'λ', 'Π', 'Σ'}

# declared record / object types: python attribute or key -> (lean field, type)
FRAME_KEYS = {'filepath': ('filepath', 'Str'), 'lineno': ('lineno', 'Str'), 'funcname': ('funcname', 'Str')}
FRAME_GET = {'source_line': ('source_line', 'Option Str')}
OBJ_ATTRS = {'Callpoint': {'module_path': ('path', 'Str'), 'lineno': ('lineno', 'Nat'), 'func_name': ('func', 'Str'),
                           'line': ('dline', 'DLine')},
             'ExcType': {'__qualname__': ('qualname', 'Str'), '__module__': ('modname', 'Option Str')}}


class Unsupported(Exception):
    def __init__(self, where, what):
        Exception.__init__(self, '%s: %s' % (where, what))


def mangle(name):
    return name + '_' if name in LEAN_KEYWORDS else name


def lean_str(s):
    out = []
    for ch in s:
        if ch == '"':
            out.append('\\"')
        elif ch == '\\':
            out.append('\\\\')
        elif ch == '\n':
            out.append('\\n')
        elif ch == '\t':
            out.append('\\t')
        elif 32 <= ord(ch) < 127:
            out.append(ch)
        else:
            out.append('\\u{%x}' % ord(ch))
    return '"%s".toList' % ''.join(out)


def parse_type(t):
    """'List (Str × Nat)' -> nested tuples: ('List', X) | ('Option', X) | ('Prod', [..]) | ('Str',) ..."""
    toks = t.replace('(', ' ( ').replace(')', ' ) ').replace('×', ' × ').split()
    pos = [0]

    def atom():
        tk = toks[pos[0]]
        pos[0] += 1
        if tk == '(':
            r = prod()
            if toks[pos[0]] != ')':
                raise ValueError(t)
            pos[0] += 1
            return r
        if tk in ('List', 'Option'):
            return (tk, atom())
        if tk in ('Str', 'Int', 'Nat', 'Bool', 'FrameD', 'Callpoint', 'DLine', 'ExcType', 'StrObj'):
            return (tk,)
        raise ValueError('unknown type %r in %r' % (tk, t))

    def prod():
        items = [atom()]
        while pos[0] < len(toks) and toks[pos[0]] == '×':
            pos[0] += 1
            items.append(atom())
        return items[0] if len(items) == 1 else ('Prod', items)

    r = prod()
    if pos[0] != len(toks):
        raise ValueError(t)
    return r


def show_type(t):
    if t[0] in ('List', 'Option'):
        return '%s %s' % (t[0], show_type_a(t[1]))
    if t[0] == 'Prod':
        return ' × '.join(show_type_a(x) for x in t[1])
    return t[0]


def show_type_a(t):
    s = show_type(t)
    return '(%s)' % s if ' ' in s else s


def ind(code, k=1):
    return '\n'.join(('  ' * k + ln) if ln else ln for ln in code.split('\n'))


def tuple_pat(names):
    return names[0] if len(names) == 1 else '(%s)' % ', '.join(names)


def proj(base, i, n):
    """i-th component of an n-tuple expression (right-nested pairs)"""
    if n == 1:
        return base
    return base + '.2' * i + ('.1' if i < n - 1 else '')


def assigned(stmts):
    out = []

    def add(n):
        if n not in out:
            out.append(n)
    for st in stmts:
        if isinstance(st, ast.Assign):
            for tg in st.targets:
                for el in (tg.elts if isinstance(tg, ast.Tuple) else [tg]):
                    if isinstance(el, ast.Name):
                        add(el.id)
        elif isinstance(st, ast.AugAssign) and isinstance(st.target, ast.Name):
            add(st.target.id)
        elif isinstance(st, ast.Expr) and isinstance(st.value, ast.Call) and isinstance(st.value.func, ast.Attribute) \
                and st.value.func.attr == 'append' and isinstance(st.value.func.value, ast.Name):
            add(st.value.func.value.id)
        elif isinstance(st, ast.If):
            for n in assigned(st.body) + assigned(st.orelse):
                add(n)
        elif isinstance(st, ast.For):
            for n in assigned(st.body) + assigned(st.orelse):
                add(n)
    return out


def always_returns(stmts):
    if not stmts:
        return False
    last = stmts[-1]
    if isinstance(last, ast.Return):
        return True
    if isinstance(last, ast.If):
        return always_returns(last.body) and always_returns(last.orelse)
    return False


def contains_return(stmts):
    return any(isinstance(n, ast.Return) for st in stmts for n in ast.walk(st))


class FnTr:
    def __init__(self, fdef, spec, by_qual, emitted):
        self.f, self.spec, self.by_qual, self.emitted = fdef, spec, by_qual, emitted
        self.name = spec['qualname']
        self.R = parse_type(spec['result'])
        self.decl = {k: parse_type(v) for k, v in spec.get('locals', {}).items()}
        self.tmp = 0

    def bad(self, node, what):
        raise Unsupported('%s line %s' % (self.name, getattr(node, 'lineno', '?')), what)

    # ------------------------------------------------------------------ signature
    def signature(self):
        a = self.f.args
        if a.vararg or a.kwarg or a.kwonlyargs or a.posonlyargs or a.defaults or a.kw_defaults:
            self.bad(self.f, 'only plain positional parameters without defaults')
        decos = [d.id if isinstance(d, ast.Name) else None for d in self.f.decorator_list]
        names = [x.arg for x in a.args]
        if decos == ['classmethod'] and self.spec.get('region') and names and names[0] == 'cls':
            names = names[1:]           # a region of a classmethod that does not mention `cls`
            if any(isinstance(n, ast.Name) and n.id == 'cls' for st in self.region({}) for n in ast.walk(st)):
                self.bad(self.f, 'the region uses cls')
        elif decos:
            self.bad(self.f, 'decorated function')
        env, params = {}, []
        self.self_obj = None
        self.self_attrs = {}
        if self.spec.get('method'):
            if not names or names[0] != 'self':
                self.bad(self.f, 'method without self')
            names = names[1:]
            if self.spec.get('self_obj'):
                self.self_obj = self.spec['self_obj']
                params.append(('self', (self.self_obj,)))
            for attr, t in self.spec.get('self_attrs', {}).items():
                self.self_attrs[attr] = parse_type(t)
                params.append(('self_' + attr.replace('.', '_'), parse_type(t)))
        if self.spec.get('region'):
            names = [n for n in names if n in self.spec['params']]      # the region reads only the declared ones
        if names != list(self.spec['params']):
            self.bad(self.f, 'parameters %r differ from the spec %r' % (names, list(self.spec['params'])))
        for n in names:
            t = parse_type(self.spec['params'][n])
            env[n] = t
            params.append((mangle(n), t))
        return env, params

    # ------------------------------------------------------------------ expressions
    def coerce(self, code, t, want, node):
        if t == want:
            return code
        if want[0] == 'Option' and want[1] == t:
            return '(some %s)' % code
        if t == ('Nat',) and want == ('Int',):
            return '(Int.ofNat %s)' % code
        if t == ('NoneT',) and want[0] == 'Option':
            return '(none : %s)' % show_type(want)
        self.bad(node, 'type %s where %s is expected' % (show_type(t), show_type(want)))

    def fmt_piece(self, node, env):
        code, t = self.expr(node, env)
        if t == ('Str',):
            return code
        if t == ('Int',):
            return '(fmtInt %s)' % code
        if t == ('Nat',):
            return '(fmtNat %s)' % code
        if t == ('Option', ('Str',)):
            return '(fmtOS %s)' % code
        self.bad(node, 'formatting a value of type %s' % show_type(t))

    def concat(self, pieces):
        pieces = [p for p in pieces if p is not None]
        if not pieces:
            return '([] : Str)'
        return '(%s)' % ' ++ '.join(pieces) if len(pieces) > 1 else pieces[0]

    def expr(self, e, env):
        """-> (lean code, type)"""
        if isinstance(e, ast.Constant):
            if isinstance(e.value, bool):
                return ('true' if e.value else 'false'), ('Bool',)
            if isinstance(e.value, str):
                return '(%s)' % lean_str(e.value), ('Str',)
            if isinstance(e.value, int):
                return ('(%d : Int)' % e.value), ('Int',)
            if e.value is None:
                return 'none', ('NoneT',)
            self.bad(e, 'constant %r' % (e.value,))
        if isinstance(e, ast.Name):
            if e.id not in env:
                self.bad(e, 'name %s is not a parameter or a local assigned on every path' % e.id)
            return mangle(e.id), env[e.id]
        if isinstance(e, ast.JoinedStr):
            pieces = []
            for v in e.values:
                if isinstance(v, ast.Constant) and isinstance(v.value, str):
                    if v.value:
                        pieces.append('(%s)' % lean_str(v.value))
                elif isinstance(v, ast.FormattedValue):
                    if v.conversion != -1 or v.format_spec is not None:
                        self.bad(e, 'f-string field with a conversion or a format spec')
                    pieces.append(self.fmt_piece(v.value, env))
                else:
                    self.bad(e, 'f-string part')
            return self.concat(pieces), ('Str',)
        if isinstance(e, ast.Attribute):
            if isinstance(e.value, ast.Name) and e.value.id == 'self' and 'self' not in env:
                if self.self_obj:
                    return self.obj_attr('self', self.self_obj, e.attr, e)
                if e.attr in self.self_attrs:
                    return 'self_' + e.attr, self.self_attrs[e.attr]
                self.bad(e, 'attribute self.%s is not declared by the spec' % e.attr)
            code, t = self.expr(e.value, env)
            if t[0] in OBJ_ATTRS:
                return self.obj_attr(code, t[0], e.attr, e)
            self.bad(e, 'attribute .%s of a value of type %s' % (e.attr, show_type(t)))
        if isinstance(e, ast.Subscript):
            code, t = self.expr(e.value, env)
            if t == ('FrameD',) and isinstance(e.slice, ast.Constant) and e.slice.value in FRAME_KEYS:
                fld, ft = FRAME_KEYS[e.slice.value]
                return '%s.%s' % (code, fld), parse_type(ft)
            self.bad(e, 'subscript of a value of type %s' % show_type(t))
        if isinstance(e, ast.Tuple):
            parts = [self.expr(x, env) for x in e.elts]
            if len(parts) < 2:
                self.bad(e, 'tuple of fewer than two items')
            return '(%s)' % ', '.join(c for c, _ in parts), ('Prod', [t for _, t in parts])
        if isinstance(e, ast.List):
            parts = [self.expr(x, env) for x in e.elts]
            if not parts:
                self.bad(e, 'empty list literal (element type unknown)')
            t0 = parts[0][1]
            if any(t != t0 for _, t in parts):
                self.bad(e, 'list literal of mixed types')
            return '[%s]' % ', '.join(c for c, _ in parts), ('List', t0)
        if isinstance(e, ast.IfExp):
            c = self.cond(e.test, env)
            a, ta = self.expr(e.body, env)
            b, tb = self.expr(e.orelse, env)
            if ta != tb:
                self.bad(e, 'conditional expression of two types')
            return '(if %s then %s else %s)' % (c, a, b), ta
        if isinstance(e, ast.BinOp):
            a, ta = self.expr(e.left, env)
            b, tb = self.expr(e.right, env)
            if isinstance(e.op, ast.Add) and ta == tb == ('Str',):
                return '(%s ++ %s)' % (a, b), ta
            if isinstance(e.op, (ast.Add, ast.Sub)) and ta == tb == ('Int',):
                return '(%s %s %s)' % (a, '+' if isinstance(e.op, ast.Add) else '-', b), ta
            self.bad(e, 'binary operator on %s, %s' % (show_type(ta), show_type(tb)))
        if isinstance(e, (ast.Compare, ast.BoolOp)) or (isinstance(e, ast.UnaryOp) and isinstance(e.op, ast.Not)):
            return self.cond(e, env), ('Bool',)
        if isinstance(e, ast.Call):
            return self.call(e, env)
        self.bad(e, 'expression %s' % type(e).__name__)

    def self_path(self, node):
        """`self` -> '', `self.a.b` -> 'a.b', anything else -> None"""
        parts = []
        while isinstance(node, ast.Attribute):
            parts.append(node.attr)
            node = node.value
        if isinstance(node, ast.Name) and node.id == 'self':
            return '.'.join(reversed(parts))
        return None

    def obj_attr(self, code, cls, attr, node):
        if attr not in OBJ_ATTRS[cls]:
            self.bad(node, 'attribute .%s of a %s is not declared' % (attr, cls))
        fld, ft = OBJ_ATTRS[cls][attr]
        return '%s.%s' % (code, fld), parse_type(ft)

    def callee(self, qual, node):
        sp = self.by_qual.get(qual)
        if sp is None:
            self.bad(node, 'call of %s, which is not a translated function of the module' % qual)
        if sp['lean_name'] not in self.emitted:
            self.bad(node, 'call of %s, which was not translated' % qual)
        return sp

    def call(self, e, env):
        if e.keywords:
            self.bad(e, 'keyword arguments')
        fn = e.func
        if isinstance(fn, ast.Name):
            if fn.id == 'str' and len(e.args) == 1:
                code, t = self.expr(e.args[0], env)
                if t == ('DLine',):
                    return '(DLine.str %s)' % code, ('Str',)
                if t == ('Str',):
                    return code, t
                if t == ('StrObj',):
                    self.bad(e, 'str() of an arbitrary object may raise: only `try: return str(x)` is translated')
                self.bad(e, 'str() of a value of type %s' % show_type(t))
            if fn.id == 'isinstance' and len(e.args) == 2 and isinstance(e.args[1], ast.Name) and e.args[1].id == 'str':
                code, t = self.expr(e.args[0], env)
                if t == ('Option', ('Str',)):       # a value declared `a str or something else`: none = not a str
                    return '(Option.isSome %s)' % code, ('Bool',)
                self.bad(e, 'isinstance(<%s>, str)' % show_type(t))
            if fn.id in env:
                self.bad(e, 'call of a local')
            sp = self.callee(fn.id, e)
            if sp.get('method') or len(e.args) != len(sp['params']):
                self.bad(e, 'call of %s with %d arguments' % (fn.id, len(e.args)))
            args = []
            for a, (pn, pt) in zip(e.args, sp['params'].items()):
                code, t = self.expr(a, env)
                args.append(self.coerce(code, t, parse_type(pt), a))
            return '(%s %s)' % (sp['lean_name'], ' '.join(args)), parse_type(sp['result'])
        if isinstance(fn, ast.Attribute):
            # '...'.format(...)
            if fn.attr == 'format' and isinstance(fn.value, ast.Constant) and isinstance(fn.value.value, str):
                pieces, k = [], 0
                for lit, field, spec_, conv in _string.Formatter().parse(fn.value.value):
                    if lit:
                        pieces.append('(%s)' % lean_str(lit))
                    if field is None:
                        continue
                    if field != '' or spec_ or conv:
                        self.bad(e, 'format field {%s%s%s}: only plain {} is translated' % (
                            field, '!' + conv if conv else '', ':' + spec_ if spec_ else ''))
                    if k >= len(e.args):
                        self.bad(e, 'more {} than arguments')
                    pieces.append(self.fmt_piece(e.args[k], env))
                    k += 1
                if k != len(e.args):
                    self.bad(e, 'more arguments than {}')
                return self.concat(pieces), ('Str',)
            path = self.self_path(fn.value)
            if path is not None and 'self' not in env and not self.self_obj:
                # self.<m>() / self.<obj>.<m>(): a translated method whose declared attributes are attributes we hold
                cls = self.spec['qualname'].split('.')[0] if path == '' else self.spec.get('self_classes', {}).get(path)
                if cls is not None and '%s.%s' % (cls, fn.attr) in self.by_qual:
                    sp = self.callee('%s.%s' % (cls, fn.attr), e)
                    if e.args or sp['params'] or sp.get('self_obj'):
                        self.bad(e, 'method call .%s(...) with arguments' % fn.attr)
                    args = []
                    for attr, t in sp.get('self_attrs', {}).items():
                        full = (path + '.' if path else '') + attr
                        if self.self_attrs.get(full) != parse_type(t):
                            self.bad(e, 'callee reads self.%s, which the spec of the caller does not declare' % full)
                        args.append('self_' + full.replace('.', '_'))
                    return '(%s %s)' % (sp['lean_name'], ' '.join(args)), parse_type(sp['result'])
            recv, rt = self.expr(fn.value, env)
            if fn.attr == 'join' and rt == ('Str',) and len(e.args) == 1:
                code, t = self.expr(e.args[0], env)
                if t != ('List', ('Str',)):
                    self.bad(e, 'join of a value of type %s' % show_type(t))
                return '(strJoin %s %s)' % (recv, code), ('Str',)
            if fn.attr == 'get' and rt == ('FrameD',) and len(e.args) == 1 and isinstance(e.args[0], ast.Constant) \
                    and e.args[0].value in FRAME_GET:
                fld, ft = FRAME_GET[e.args[0].value]
                return '%s.%s' % (recv, fld), parse_type(ft)
            if fn.attr == 'strip' and rt == ('Str',) and not e.args:
                return '(strStrip %s)' % recv, ('Str',)
            if rt[0] in OBJ_ATTRS:      # a translated method of a declared object type
                sp = self.callee('%s.%s' % (rt[0], fn.attr), e)
                if sp.get('self_obj') != rt[0] or e.args or sp['params']:
                    self.bad(e, 'method call .%s(...)' % fn.attr)
                return '(%s %s)' % (sp['lean_name'], recv), parse_type(sp['result'])
            self.bad(e, 'method .%s of a value of type %s' % (fn.attr, show_type(rt)))
        self.bad(e, 'call')

    def cond(self, e, env):
        """truth value of `e` as a Lean Bool"""
        if isinstance(e, ast.BoolOp):
            parts = [self.cond(v, env) for v in e.values]
            return '(%s)' % (' && ' if isinstance(e.op, ast.And) else ' || ').join(parts)
        if isinstance(e, ast.UnaryOp) and isinstance(e.op, ast.Not):
            return '(!%s)' % self.cond(e.operand, env)
        if isinstance(e, ast.Compare):
            if len(e.ops) != 1:
                self.bad(e, 'chained comparison')
            a, ta = self.expr(e.left, env)
            b, tb = self.expr(e.comparators[0], env)
            op = e.ops[0]
            if isinstance(op, (ast.In, ast.NotIn)) and isinstance(e.comparators[0], ast.Tuple) \
                    and e.comparators[0].elts and tb[0] == 'Prod' and all(t == tb[1][0] for t in tb[1]):
                # membership in a tuple literal of values of one type: `==` against each item, left to right
                items = [self.expr(x, env)[0] for x in e.comparators[0].elts]
                it = tb[1][0]
                if ta != it:
                    if ta[0] == 'Option' and ta[1] == it:
                        items = ['(some %s)' % c for c in items]
                    else:
                        self.bad(e, 'membership of %s in a tuple of %s' % (show_type(ta), show_type(it)))
                code = '(List.elem %s [%s])' % (a, ', '.join(items))
                return code if isinstance(op, ast.In) else '(!%s)' % code
            if isinstance(op, (ast.Eq, ast.NotEq)):
                if ta != tb:
                    if tb[0] == 'Option' and tb[1] == ta:
                        a, ta = '(some %s)' % a, tb
                    elif ta[0] == 'Option' and ta[1] == tb:
                        b, tb = '(some %s)' % b, ta
                    else:
                        self.bad(e, 'comparison of %s with %s' % (show_type(ta), show_type(tb)))
                if ta[0] in ('FrameD', 'Callpoint', 'DLine', 'ExcType', 'StrObj'):
                    self.bad(e, 'comparison of objects')
                return '(%s %s %s)' % (a, '==' if isinstance(op, ast.Eq) else '!=', b)
            if isinstance(op, (ast.Lt, ast.LtE, ast.Gt, ast.GtE)) and ta == tb and ta in (('Int',), ('Nat',)):
                sym = {ast.Lt: '<', ast.LtE: '≤', ast.Gt: '>', ast.GtE: '≥'}[type(op)]
                return '(decide (%s %s %s))' % (a, sym, b)
            self.bad(e, 'comparison %s on %s, %s' % (type(op).__name__, show_type(ta), show_type(tb)))
        code, t = self.expr(e, env)
        if t == ('Bool',):
            return code
        if t == ('Str',) or t[0] == 'List':
            return '(truthy %s)' % code
        if t == ('Option', ('Str',)):
            return '(truthyOS %s)' % code
        if t == ('DLine',):
            return '(DLine.truthy %s)' % code
        self.bad(e, 'truth value of a value of type %s' % show_type(t))

    # ------------------------------------------------------------------ statements
    def bind(self, name, code, t, env, node):
        """`name = <code : t>` -> (let line, new env)"""
        want = self.decl.get(name, env.get(name))
        if want is not None:
            code = self.coerce(code, t, want, node)
            t = want
        elif t == ('NoneT',):
            self.bad(node, 'local %s is assigned None: declare its type in the spec (`locals`)' % name)
        env = dict(env)
        env[name] = t
        return 'let %s := %s' % (mangle(name), code), env

    def block(self, stmts, env, tail):
        """translate `stmts`; `tail(env)` gives the code that follows (None at function level: must return)"""
        if not stmts:
            if tail is None:
                self.bad(self.f, 'a path reaches the end of the function without `return`')
            return tail(env)
        st, rest = stmts[0], stmts[1:]
        if isinstance(st, ast.Expr) and isinstance(st.value, ast.Constant) and isinstance(st.value.value, str):
            return self.block(rest, env, tail)          # docstring
        if isinstance(st, ast.Return):
            if tail is not None:
                self.bad(st, '`return` inside a loop or a branch that is joined again')
            if st.value is None:
                self.bad(st, 'bare return')
            code, t = self.expr(st.value, env)
            return self.coerce(code, t, self.R, st)
        if isinstance(st, ast.Assign):
            if len(st.targets) != 1:
                self.bad(st, 'chained assignment')
            tg = st.targets[0]
            if isinstance(tg, ast.Name):
                code, t = self.expr(st.value, env)
                line, env2 = self.bind(tg.id, code, t, env, st)
                return line + '\n' + self.block(rest, env2, tail)
            if isinstance(tg, ast.Tuple) and isinstance(st.value, ast.Tuple) and len(tg.elts) == len(st.value.elts) \
                    and all(isinstance(x, ast.Name) for x in tg.elts):
                names = [x.id for x in tg.elts]
                if len(set(names)) != len(names):
                    self.bad(st, 'tuple assignment with a repeated target')
                vals = [self.expr(v, env) for v in st.value.elts]       # all right-hand sides in the OLD environment
                used = {n.id for v in st.value.elts for n in ast.walk(v) if isinstance(n, ast.Name)}
                lines, env2 = [], env
                if used & set(names):                                   # simultaneous: go through temporaries
                    tmps = []
                    for (code, t) in vals:
                        self.tmp += 1
                        tmps.append('tmp%d' % self.tmp)
                        lines.append('let %s := %s' % (tmps[-1], code))
                    vals = [(tm, t) for tm, (_, t) in zip(tmps, vals)]
                for n, (code, t) in zip(names, vals):
                    line, env2 = self.bind(n, code, t, env2, st)
                    lines.append(line)
                return '\n'.join(lines) + '\n' + self.block(rest, env2, tail)
            self.bad(st, 'assignment target')
        if isinstance(st, ast.AugAssign):
            if not isinstance(st.target, ast.Name) or not isinstance(st.op, (ast.Add, ast.Sub)):
                self.bad(st, 'augmented assignment')
            fake = ast.BinOp(left=ast.Name(id=st.target.id, ctx=ast.Load()), op=st.op, right=st.value)
            ast.copy_location(fake, st)
            ast.fix_missing_locations(fake)
            code, t = self.expr(fake, env)
            line, env2 = self.bind(st.target.id, code, t, env, st)
            return line + '\n' + self.block(rest, env2, tail)
        if isinstance(st, ast.Expr):
            c = st.value
            if isinstance(c, ast.Call) and isinstance(c.func, ast.Attribute) and c.func.attr == 'append' \
                    and isinstance(c.func.value, ast.Name) and len(c.args) == 1 and not c.keywords:
                lst = c.func.value.id
                if lst not in env or env[lst][0] != 'List':
                    self.bad(st, '.append on %s, which is not a local list' % lst)
                code, t = self.expr(c.args[0], env)
                code = self.coerce(code, t, env[lst][1], st)
                return 'let %s := %s ++ [%s]\n' % (mangle(lst), mangle(lst), code) + self.block(rest, env, tail)
            self.bad(st, 'expression statement')
        if isinstance(st, ast.If) and not st.orelse and len(st.body) == 1 and isinstance(st.body[0], ast.Assign) \
                and isinstance(st.test, ast.UnaryOp) and isinstance(st.test.op, ast.Not) \
                and isinstance(st.test.operand, ast.Call) and isinstance(st.test.operand.func, ast.Name) \
                and st.test.operand.func.id == 'isinstance' and len(st.test.operand.args) == 2 \
                and isinstance(st.test.operand.args[0], ast.Name) and isinstance(st.test.operand.args[1], ast.Name) \
                and st.test.operand.args[1].id == 'str' and len(st.body[0].targets) == 1 \
                and isinstance(st.body[0].targets[0], ast.Name) \
                and st.body[0].targets[0].id == st.test.operand.args[0].id \
                and env.get(st.test.operand.args[0].id) == ('Option', ('Str',)):
            # NARROWING:  if not isinstance(x, str): x = <Str>   (x : a str or something else)  ->  afterwards x : Str
            x = st.test.operand.args[0].id
            code, t = self.expr(st.body[0].value, env)
            if t == ('Str',):
                env2 = dict(env)
                env2[x] = ('Str',)
                return 'let %s := (Option.getD %s %s)\n' % (mangle(x), mangle(x), code) + self.block(rest, env2, tail)
        if isinstance(st, ast.If):
            c = self.cond(st.test, env)
            ra, rb = always_returns(st.body), always_returns(st.orelse)
            if ra or rb or contains_return(st.body) or contains_return(st.orelse):
                if tail is not None:
                    self.bad(st, '`return` inside a loop or a branch that is joined again')
                if ra:
                    a = self.block(st.body, env, None)
                    b = self.block(st.orelse + rest, env, None)
                elif rb:
                    a = self.block(st.body + rest, env, None)
                    b = self.block(st.orelse, env, None)
                else:
                    self.bad(st, '`return` on some paths of a branch only')
                return 'if %s then\n%s\nelse\n%s' % (c, ind(a), ind(b))
            mod = sorted(n for n in assigned(st.body + st.orelse) if n in env)     # canonical (alphabetical) order
            if not mod:
                self.bad(st, '`if` without an effect on the variables defined before it')

            def out(env_b):
                return tuple_pat([self.coerce(mangle(n), env_b[n], env[n], st) for n in mod])
            a = self.block(st.body, env, out)
            b = self.block(st.orelse, env, out)
            return self.join_let(mod, 'if %s then\n%s\nelse\n%s' % (c, ind(a), ind(b))) + self.block(rest, env, tail)
        if isinstance(st, ast.For):
            if st.orelse or not isinstance(st.target, ast.Name):
                self.bad(st, 'for loop with else / with a pattern target')
            for n in ast.walk(st):
                if isinstance(n, (ast.Break, ast.Continue, ast.Return)):
                    self.bad(n, '%s inside a for loop' % type(n).__name__.lower())
            xs, t = self.expr(st.iter, env)
            if t[0] != 'List':
                self.bad(st, 'for over a value of type %s' % show_type(t))
            x = st.target.id
            if x in env:
                self.bad(st, 'loop variable %s shadows a variable' % x)
            mod = sorted(n for n in assigned(st.body) if n in env)        # canonical (alphabetical) order
            if not mod:
                self.bad(st, 'for loop without an effect on the variables defined before it')
            env_in = dict(env)
            env_in[x] = t[1]

            def out(env_b):
                for n in mod:
                    if env_b[n] != env[n]:
                        self.bad(st, 'variable %s changes its type in the loop' % n)
                return tuple_pat([mangle(n) for n in mod])
            body = self.block(st.body, env_in, out)
            self.tmp += 1
            acc = 'acc%d' % self.tmp
            unpack = ''.join('let %s := %s\n' % (mangle(n), proj(acc, i, len(mod))) for i, n in enumerate(mod)) \
                if len(mod) > 1 else ''
            accn = acc if len(mod) > 1 else mangle(mod[0])
            code = 'List.foldl (fun %s %s =>\n%s) %s %s' % (accn, mangle(x), ind(unpack + body, 2),
                                                          tuple_pat([mangle(n) for n in mod]), xs)
            for n in assigned(st.body):
                if n not in env:
                    pass        # a local of the body: not visible after the loop (a later read is refused as unbound)
            return self.join_let(mod, code) + self.block(rest, env, tail)
        if isinstance(st, ast.Try):
            # the ONE raising operation of the subset: `str(x)` of a declared `StrObj` (an arbitrary object: its
            # `__str__` returns a str or raises).  Accepted only as  try: return str(x) / except Exception: <block>
            # (no else / finally): the value when there is one, else the handler followed by the rest.
            ok = (len(st.body) == 1 and isinstance(st.body[0], ast.Return) and not st.orelse and not st.finalbody
                  and len(st.handlers) == 1 and isinstance(st.handlers[0].type, ast.Name)
                  and st.handlers[0].type.id == 'Exception' and st.handlers[0].name is None and tail is None)
            v = st.body[0].value if ok else None
            if not (ok and isinstance(v, ast.Call) and isinstance(v.func, ast.Name) and v.func.id == 'str'
                    and len(v.args) == 1 and not v.keywords and self.R == ('Str',)):
                self.bad(st, 'try statement (only `try: return str(<StrObj>)` / `except Exception:` is translated)')
            code, t = self.expr(v.args[0], env)
            if t != ('StrObj',):
                self.bad(st, 'try around str() of a value of type %s, which cannot raise' % show_type(t))
            hbody = [x for x in st.handlers[0].body if not isinstance(x, ast.Pass)]
            rest_code = self.block(hbody + rest, env, None)
            return 'match StrObj.str? %s with\n| some v => v\n| none =>\n%s' % (code, ind(rest_code))
        self.bad(st, 'statement %s' % type(st).__name__)

    def join_let(self, mod, code):
        names = [mangle(n) for n in mod]
        if len(names) == 1:
            return 'let %s :=\n%s\n' % (names[0], ind(code))
        self.tmp += 1
        st = 'st%d' % self.tmp
        return 'let %s :=\n%s\n' % (st, ind(code)) + ''.join(
            'let %s := %s\n' % (n, proj(st, i, len(names))) for i, n in enumerate(names))

    def region(self, env):
        """spec `region`: {'start': name, 'stop': name, 'result': name}: the statements of the body from the first
        assignment of `start` up to (not including) the first assignment of `stop`, followed by `return <result>`"""
        rg = self.spec['region']

        def assigns(st, name):
            return isinstance(st, ast.Assign) and len(st.targets) == 1 and isinstance(st.targets[0], ast.Name) \
                and st.targets[0].id == name
        body = self.f.body
        def stops(st):
            if 'stop' in rg:
                return assigns(st, rg['stop'])
            return isinstance(st, ast.If) and any(
                isinstance(n, ast.Call) and isinstance(n.func, ast.Name) and n.func.id == rg['stop_test']
                for n in ast.walk(st.test))
        a = [i for i, st in enumerate(body) if assigns(st, rg['start'])]
        b = [i for i, st in enumerate(body) if stops(st) and a and i > a[0]]
        if not a or not b:
            self.bad(self.f, 'region %s .. %s not found' % (rg['start'], rg.get('stop', rg.get('stop_test'))))
        for st in body[:a[0]]:
            if isinstance(st, ast.If) and not st.orelse and ast.unparse(st.test) in rg.get('false_before', []):
                continue        # a guard the spec declares false on the declared parameter types
            if not (isinstance(st, ast.Expr) and isinstance(st.value, ast.Constant)):
                self.bad(st, 'statement before the region')
        ret = ast.Return(value=ast.Name(id=rg['result'], ctx=ast.Load()))
        ast.copy_location(ret, body[b[0]])
        ast.fix_missing_locations(ret)
        return body[a[0]:b[0]] + [ret]

    def emit(self):
        env, params = self.signature()
        stmts = self.region(env) if self.spec.get('region') else self.f.body
        body = self.block(stmts, env, None)
        sig = ' '.join('(%s : %s)' % (n, show_type(t)) for n, t in params)
        return 'def %s %s : %s :=\n%s\n' % (self.spec['lean_name'], sig, show_type(self.R), ind(body))


def find_function(tree, qualname):
    scope = tree.body
    parts = qualname.split('.')
    for p in parts[:-1]:
        hits = [n for n in scope if isinstance(n, ast.ClassDef) and n.name == p]
        if len(hits) != 1:
            raise Unsupported(qualname, 'expected exactly one class %s, found %d' % (p, len(hits)))
        scope = hits[0].body
    hits = [n for n in scope if isinstance(n, ast.FunctionDef) and n.name == parts[-1]]
    if len(hits) != 1:
        raise Unsupported(qualname, 'expected exactly one def, found %d' % len(hits))
    return hits[0]


def translate_source(src, specs, module_name, rel):
    tree = ast.parse(src)
    short = module_name.split('.')[-1]
    by_qual = {sp['qualname']: sp for sp in specs}
    parts, infos, head, emitted = [], [], [], []
    for spec in specs:
        info = {'function': '%s.%s' % (module_name, spec['qualname']), 'source_file': rel, 'lines': None,
                'lean_def': 'Src.%s.%s' % (short, spec['lean_name']), 'lean_pre': None,
                'tie_theorem': spec['tie_theorem']}
        infos.append(info)
        try:
            fdef = find_function(tree, spec['qualname'])
            info['lines'] = '%d-%d' % (fdef.lineno, fdef.end_lineno)
            text = FnTr(fdef, spec, by_qual, emitted).emit()
            emitted.append(spec['lean_name'])
        except (Unsupported, RecursionError) as e:
            info['error'] = str(e) or type(e).__name__
            parts.append('-- NOT TRANSLATED: %s: %s\n' % (spec['qualname'], info['error'].replace('\n', ' ')))
            head.append('  %s -> NOT TRANSLATED' % spec['qualname'])
            continue
        parts.append(text)
        head.append('  %s (lines %s) -> Src.%s.%s' % (spec['qualname'], info['lines'], short, spec['lean_name']))
    out = ('/- GENERATED by harness/py2lean_c16.py (straight-line text builders) from %s - do not edit.\n'
           '   Translation of the current source text (rules: notes/SRCTIE.md, section C16):\n%s\n-/\n'
           'import BoltonsVerif.PyRtC16\n\nnamespace Src.%s\nopen PyRtC16\n\n%s\nend Src.%s\n' % (
               rel, '\n'.join(head), short, '\n'.join(parts), short))
    return out, infos


def translate_module(module_name, specs, repo):
    mod = importlib.import_module(module_name)
    path = os.path.abspath(inspect.getsourcefile(mod))
    if not path.startswith(os.path.abspath(repo) + os.sep):
        raise RuntimeError('%s imported from %s, not from %s' % (module_name, path, repo))
    with open(path) as fh:
        src = fh.read()
    return translate_source(src, specs, module_name, os.path.relpath(path, os.path.abspath(repo)))


def selftest(pids, quick=False, seed=0, verbose=True):
    import py2lean_c16_selftest
    return py2lean_c16_selftest.run(pids, quick=quick, seed=seed, verbose=verbose)
