"""Self-test of the source translator (harness/py2lean.py): CPython vs the generated Lean definitions.

For every function in harness/srctie_specs.py the REAL Python function (from the repo under test,
`BOLTONS_REPO`, default /repo) and the Lean definition generated from its source right now are run on the
same argument tuples - a small exhaustive family plus seeded random ones - and compared:

  * generated `<f>_pre` is false   <=>  the Python call raises at once (a guard call rejected an argument);
  * `<f>_pre` true and Python raises (ZeroDivisionError, range() step 0, unbound local, IndexError ...):
    the call is outside the domain of the translation (partial operations are total in PyRt) - counted,
    not compared;
  * otherwise the values must be equal.

The Lean side is ONE scratch file (the generated modules inlined + a small int-stream codec + a stdin
loop) run with `lake env lean --run`; nothing in the lake workspace is modified (only
BoltonsVerif.PyRt must be built).

usage:  PYTHONPATH=harness /venv/bin/python harness/py2lean_selftest.py [--quick] [--seed N] [C09 C11 ...]
exit 0 = all agree, 1 = a mismatch (printed), 2 = infrastructure problem
"""
from __future__ import annotations

import itertools
import os
import random
import shutil
import subprocess
import sys
import tempfile
import time

HERE = os.path.dirname(os.path.abspath(__file__))
if HERE not in sys.path:
    sys.path.insert(0, HERE)

from bv import common  # noqa: E402
import py2lean  # noqa: E402
import srctie_specs  # noqa: E402

CODEC = r'''
class Codec (α : Type) where
  dec : List Int → Option (α × List Int)
  enc : α → List Int

instance : Codec Int := ⟨fun | x :: r => some (x, r) | [] => none, fun x => [x]⟩
instance : Codec Bool := ⟨fun | x :: r => some (x != 0, r) | [] => none, fun b => [if b then 1 else 0]⟩
instance : Codec Char := ⟨fun | x :: r => some (Char.ofNat x.toNat, r) | [] => none, fun c => [(c.toNat : Int)]⟩
instance {α β : Type} [Codec α] [Codec β] : Codec (α × β) :=
  ⟨fun t => match Codec.dec t with
    | some (a, r) => (match Codec.dec r with | some (b, r') => some ((a, b), r') | none => none)
    | none => none,
   fun p => Codec.enc p.1 ++ Codec.enc p.2⟩
def decN {α : Type} [Codec α] : Nat → List Int → Option (List α × List Int)
  | 0, t => some ([], t)
  | n + 1, t => match Codec.dec t with
    | some (a, r) => (match decN n r with | some (l, r') => some (a :: l, r') | none => none)
    | none => none
instance {α : Type} [Codec α] : Codec (List α) :=
  ⟨fun | n :: r => decN n.toNat r | [] => none,
   fun l => (l.length : Int) :: (l.map Codec.enc).flatten⟩
instance {α : Type} [Codec α] : Codec (Option α) :=
  ⟨fun | 0 :: r => some (none, r)
       | _ :: r => (match Codec.dec r with | some (a, r') => some (some a, r') | none => none)
       | [] => none,
   fun | none => [0] | some a => 1 :: Codec.enc a⟩

instance : Codec Unit := ⟨fun t => some ((), t), fun _ => []⟩
def excCode : PyExc → Int
  | .KeyError => 0 | .ValueError => 1 | .TypeError => 2 | .IndexError => 3 | .ZeroDivisionError => 4
  | .StopIteration => 5 | .RecursionError => 6 | .Other => 7 | .OutOfFuel => 8
def encExcept {α : Type} [Codec α] : Except PyExc α → List Int
  | .ok v => 1 :: Codec.enc v
  | .error e => [0, excCode e]

-- sets are compared as sets: encoded in the lexicographic order of their elements' encodings
def lexLt : List Int → List Int → Bool
  | [], [] => false
  | [], _ :: _ => true
  | _ :: _, [] => false
  | a :: as, b :: bs => if a < b then true else if b < a then false else lexLt as bs
def insLex (x : List Int) : List (List Int) → List (List Int)
  | [] => [x]
  | y :: ys => if lexLt x y then x :: y :: ys else y :: insLex x ys
instance {α : Type} [DecidableEq α] [Codec α] : Codec (PyRt.Set α) :=
  ⟨fun t => match (Codec.dec t : Option (List α × List Int)) with
    | some (l, r) => some (PyRt.Set.ofList l, r)
    | none => none,
   fun s => (((PyRt.Set.toList s).length : Int)) ::
     (((PyRt.Set.toList s).map Codec.enc).foldr insLex []).flatten⟩

def showInts (l : List Int) : String := " ".intercalate (l.map toString)
def parseInts (s : String) : Option (List Int) :=
  ((s.trim.splitOn " ").filter (· ≠ "")).mapM String.toInt?
'''


# heap mode (object store): dynamically typed values, the store, and the `on_miss` callables (chosen from a fixed
# menu by index; a callable is not encoded back)
HEAP_CODEC = r'''
def decVal : List Int → Option (PyHeap.Val (List Char) Int × List Int)
  | 0 :: r => some (.none, r)
  | 1 :: r => some (.sentinel, r)
  | 2 :: a :: r => some (.ref a.toNat, r)
  | 3 :: r => (match (Codec.dec r : Option (List Char × List Int)) with
    | some (k, r') => some (.key k, r')
    | none => none)
  | 4 :: v :: r => some (.val v, r)
  | 5 :: i :: r => some (.int i, r)
  | _ => none
def encVal : PyHeap.Val (List Char) Int → List Int
  | .none => [0]
  | .sentinel => [1]
  | .ref a => [2, (a : Int)]
  | .key k => 3 :: Codec.enc k
  | .val v => [4, v]
  | .int i => [5, i]
instance : Codec (PyHeap.Val (List Char) Int) := ⟨decVal, encVal⟩
instance : Codec (PyHeap.Heap (List Char) Int) :=
  ⟨fun t => match (Codec.dec t : Option (List (List (PyHeap.Val (List Char) Int)) × List Int)) with
    | some (c, r) => some (⟨c⟩, r)
    | none => none,
   fun h => Codec.enc h.cells⟩
def omMenu : Int → Option (List Char → Except PyExc Int)
  | 0 => none
  | 1 => some (fun k => .ok ((k.length : Int) + 100))
  | 2 => some (fun _ => .error PyExc.KeyError)
  | 3 => some (fun _ => .error PyExc.ValueError)
  | _ => some (fun k => if k.length % 2 = 0 then .ok 7 else .error PyExc.KeyError)
instance : Codec (Option (List Char → Except PyExc Int)) :=
  ⟨fun | x :: r => some (omMenu x, r) | [] => none, fun _ => []⟩
def prioMenu : Int → Int → Except PyExc Int
  | 0 => fun p => .ok (-p)
  | 1 => fun p => .ok p
  | 2 => fun _ => .error PyExc.ValueError
  | _ => fun p => .ok (-(p / 2))
instance : Codec (Int → Except PyExc Int) :=
  ⟨fun | x :: r => some (prioMenu x, r) | [] => none, fun _ => []⟩
-- the backend of HeapPriorityQueue: `heapq` (C10/Model.lean's transliteration) on a list of references, entries
-- compared as Python compares the lists `[priority, count, task]` (the counts of a queue's entries differ)
def cellKey (h : PyHeap.Heap (List Char) Int) : PyHeap.Val (List Char) Int → Int × Int
  | .ref a => (match h.cell a with | [.int p, .int c, _] => (p, c) | _ => (0, 0))
  | _ => (0, 0)
def refLt (h : PyHeap.Heap (List Char) Int) (a b : PyHeap.Val (List Char) Int) : Bool :=
  decide ((cellKey h a).1 < (cellKey h b).1) ||
    (decide ((cellKey h a).1 = (cellKey h b).1) && decide ((cellKey h a).2 < (cellKey h b).2))
instance : PyHeap.Backend (List Char) Int (List (PyHeap.Val (List Char) Int)) where
  truthy l := !l.isEmpty
  front l := match l with | x :: _ => .ok x | [] => .error PyExc.IndexError
  push h l v := .ok (C10.heappush (refLt h) v l)
  pop h l := match C10.heappop (refLt h) l with | some (x, l') => .ok (x, l') | none => .error PyExc.IndexError
'''


def _prio_valueerror(p):
    raise ValueError(p)


PRIO_MENU = [lambda p: -p, lambda p: p, _prio_valueerror, lambda p: -(p // 2)]


def _om_keyerror(k):
    raise KeyError(k)


def _om_valueerror(k):
    raise ValueError(k)


def _om_mixed(k):
    if len(k) % 2 == 0:
        return 7
    raise KeyError(k)


OM_MENU = [None, lambda k: len(k) + 100, _om_keyerror, _om_valueerror, _om_mixed]


# ------------------------------------------------------------------ int-stream codec, Python side
VAR_INST = {'κ': ('Str',),     # dict keys are instantiated with strings (keyword names must be strings)
            'β': ('List', ('Val',))}    # heap mode: the abstract backend is tested as a list of references


def enc(t, v, out):
    k = t[0]
    if k == 'Var' and t[1] in VAR_INST:
        return enc(VAR_INST[t[1]], v, out)
    if k == 'Int':
        if isinstance(v, bool) or not isinstance(v, int):
            raise ValueError('not an int: %r' % (v,))
        out.append(int(v))
    elif k == 'Bool':
        if not isinstance(v, bool):
            raise ValueError('not a bool: %r' % (v,))
        out.append(1 if v else 0)
    elif k == 'Var':                      # abstract items: instantiated with Int
        out.append(int(v))
    elif k == 'Unit':
        if v is not None:
            raise ValueError('not None: %r' % (v,))
    elif k == 'Dict':
        out.append(len(v))
        for kk, x in v.items():
            enc(t[1], kk, out)
            enc(t[2], x, out)
    elif k == 'Set':
        if not isinstance(v, (set, frozenset)):
            raise ValueError('not a set: %r' % (v,))
        out.append(len(v))
        for e in sorted(canon(t[1], x) for x in v):
            out.extend(e)
    elif k == 'Str':
        out.append(len(v))
        out.extend(ord(c) for c in v)
    elif k == 'List':
        out.append(len(v))
        for x in v:
            enc(t[1], x, out)
    elif k == 'Prod':
        if len(v) != len(t[1]):
            raise ValueError('tuple length')
        for tt, x in zip(t[1], v):
            enc(tt, x, out)
    elif (k == 'Option' and t[1] is not None and t[1][0] == 'Fun') or k == 'Fun':
        out.append(int(v))                  # a callable: its index in OM_MENU / PRIO_MENU
    elif k == 'Counter':
        out.append(int(v))
    elif k == 'Option':
        if v is None:
            out.append(0)
        else:
            out.append(1)
            enc(t[1], v, out)
    elif k == 'Val':                        # heap mode: ('none',) ('sent',) ('ref', i) ('key', s) ('val', n) ('int', n)
        tag = {'none': 0, 'sent': 1, 'ref': 2, 'key': 3, 'val': 4, 'int': 5}[v[0]]
        out.append(tag)
        if tag == 3:
            enc(('Str',), v[1], out)
        elif tag in (2, 4, 5):
            out.append(int(v[1]))
    elif k == 'Heap':
        out.append(len(v))
        for cell in v:
            out.append(len(cell))
            for x in cell:
                enc(('Val',), x, out)
    else:
        raise ValueError(t)


def dec(t, toks, pos):
    """inverse of `enc` on the types heap-mode methods return / keep in their state -> (value, new position)"""
    k = t[0]
    if k == 'Var' and t[1] in VAR_INST:
        return dec(VAR_INST[t[1]], toks, pos)
    if k in ('Int', 'Var'):
        return toks[pos], pos + 1
    if k == 'Bool':
        return toks[pos] != 0, pos + 1
    if k == 'Unit':
        return None, pos
    if k == 'Str':
        n = toks[pos]
        return ''.join(chr(c) for c in toks[pos + 1:pos + 1 + n]), pos + 1 + n
    if k == 'List':
        n, pos = toks[pos], pos + 1
        out = []
        for _ in range(n):
            x, pos = dec(t[1], toks, pos)
            out.append(x)
        return out, pos
    if k == 'Dict':
        n, pos = toks[pos], pos + 1
        out = {}
        for _ in range(n):
            kk, pos = dec(t[1], toks, pos)
            x, pos = dec(t[2], toks, pos)
            out[kk] = x
        return out, pos
    if k == 'Prod':
        out = []
        for tt in t[1]:
            x, pos = dec(tt, toks, pos)
            out.append(x)
        return tuple(out), pos
    if (k == 'Option' and t[1] is not None and t[1][0] == 'Fun') or k == 'Fun':
        return None, pos                    # callables are not encoded back
    if k == 'Counter':
        return toks[pos], pos + 1
    if k == 'Option':
        if toks[pos] == 0:
            return None, pos + 1
        return dec(t[1], toks, pos + 1)
    if k == 'Val':
        tag = toks[pos]
        if tag == 0:
            return ('none',), pos + 1
        if tag == 1:
            return ('sent',), pos + 1
        if tag == 3:
            x, p2 = dec(('Str',), toks, pos + 1)
            return ('key', x), p2
        return ({2: 'ref', 4: 'val', 5: 'int'}[tag], toks[pos + 1]), pos + 2
    if k == 'Heap':
        return dec(('List', ('List', ('Val',))), toks, pos)
    raise ValueError(t)


def canon(t, v):
    """canonical int stream of a Python value of (Lean) type t"""
    out = []
    enc(t, v, out)
    return out


def lean_type(t):
    """Lean type text with type variables instantiated to Int"""
    k = t[0]
    if k == 'Var' and t[1] in VAR_INST:
        return lean_type(VAR_INST[t[1]])
    if k == 'Var':
        return 'Int'
    if k == 'Unit':
        return 'Unit'
    if k == 'Dict':
        return '(PyRt.Dict %s %s)' % (lean_type(t[1]), lean_type(t[2]))
    if k == 'Set':
        return '(PyRt.Set %s)' % lean_type(t[1])
    if k in ('Int', 'Bool'):
        return k
    if k == 'Str':
        return '(List Char)'
    if k in ('List', 'Option'):
        return '(%s %s)' % (k, lean_type(t[1]))
    if k == 'Prod':
        return '(' + ' × '.join(lean_type(x) for x in t[1]) + ')'
    if k == 'Val':
        return '(PyHeap.Val (List Char) Int)'
    if k == 'Heap':
        return '(PyHeap.Heap (List Char) Int)'
    if k == 'Counter':
        return 'Int'
    if k == 'Fun':
        return '(%s → Except PyExc %s)' % (lean_type(t[1]), lean_type(t[2]))
    raise ValueError(t)


# ------------------------------------------------------------------ how to call the real functions
class _Self:
    """stand-in for `self`: `len(self)` and the attributes the function reads"""

    def __init__(self, n, attrs):
        self._n = n
        self.__dict__.update(attrs)

    def __len__(self):
        if self._n < 0:
            raise ValueError('__len__() should return >= 0')
        return self._n


def to_py(t, v, in_dict=False):
    """the Python object for a value of (Lean) type t: dicts are dicts, a product stored in a dict is the
    mutable fixed-length list the class keeps there"""
    k = t[0]
    if k == 'Dict':
        return {kk: to_py(t[2], x, True) for kk, x in v.items()}
    if k == 'Prod':
        parts = [to_py(tt, x) for tt, x in zip(t[1], v)]
        return parts if in_dict else tuple(parts)
    if k == 'List':
        return [to_py(t[1], x) for x in v]
    if k == 'Set':
        return set(to_py(t[1], x) for x in v)
    if k == 'Option':
        return None if v is None else to_py(t[1], v)
    return v


EXC_CODES = {n: i for i, n in enumerate(py2lean.EXC_NAMES)}


# ------------------------------------------------------------------ heap mode: object graphs
# A state of a heap-mode class is a SNAPSHOT: {attribute: value} in the vocabulary of `enc` (cells are numbered,
# a slot is ('none',) | ('sent',) | ('ref', i) | ('key', str) | ('val', int) | ('int', int)); `heap` is the list of
# cells.  `heap_build` makes a fresh Python object with an isomorphic object graph, `heap_snapshot` reads one back
# (cells numbered in the order of discovery from the roots), `heap_canon` renumbers the cells reachable from the
# roots, so that two graphs are compared UP TO ISOMORPHISM OF ADDRESSES (garbage is ignored).
def _heap_slot(x, ids, sentinel, todo):
    if x is None:
        return ('none',)
    if x is sentinel:
        return ('sent',)
    if isinstance(x, list):
        if id(x) not in ids:
            ids[id(x)] = len(ids)
            todo.append(x)
        return ('ref', ids[id(x)])
    if isinstance(x, str):
        return ('key', x)
    if isinstance(x, bool) or not isinstance(x, int):
        raise ValueError('unencodable object in the store: %r' % (x,))
    return (_INT_TAG[0], x)


_INT_TAG = ['val']      # how a Python int found in the store is tagged: a value object, or (spec `int_slots`) an int


def heap_snapshot(cls, obj, sentinel, extra=()):
    _INT_TAG[0] = 'int' if cls['heap'].get('int_slots') else 'val'
    """-> (snapshot, slots of the `extra` objects); roots: `extra`, then the Val-typed attributes in spec order"""
    ids, todo, cells = {}, [], []
    snap = {}
    extra_slots = [_heap_slot(x, ids, sentinel, todo) for x in extra]
    for a, tt in cls['state'].items():
        t = py2lean.parse_type(tt)
        if a == cls['heap'].get('field', 'heap'):
            continue
        if a == cls.get('dict_base'):
            import copy as _copy
            snap[a] = _copy.deepcopy(dict(dict.items(obj)))
        elif t == ('Val',):
            snap[a] = _heap_slot(getattr(obj, a), ids, sentinel, todo)
        elif t[0] == 'Dict' and t[2] == ('List', ('Val',)):
            snap[a] = {k: [_heap_slot(x, ids, sentinel, todo) for x in v] for k, v in getattr(obj, a).items()}
        elif t[0] == 'Dict' and t[2] == ('Val',):
            snap[a] = {k: _heap_slot(v, ids, sentinel, todo) for k, v in getattr(obj, a).items()}
        elif t[0] == 'Option' and t[1] is not None and t[1][0] == 'Fun':
            snap[a] = OM_MENU.index(getattr(obj, a))
        elif t[0] == 'Fun':
            snap[a] = PRIO_MENU.index(getattr(obj, a))
        elif t == ('Counter',):
            import itertools
            snap[a] = next(getattr(obj, a))             # peek: read the next value and put an equal counter back
            setattr(obj, a, itertools.count(snap[a]))
        elif t[0] == 'Var' and VAR_INST.get(t[1]) == ('List', ('Val',)):
            snap[a] = [_heap_slot(x, ids, sentinel, todo) for x in getattr(obj, a)]
        else:
            snap[a] = getattr(obj, a)
    done = 0
    while done < len(todo):
        cells.append([_heap_slot(x, ids, sentinel, todo) for x in todo[done]])
        done += 1
    snap[cls['heap'].get('field', 'heap')] = cells
    return snap, extra_slots


def heap_build(cls, pycls, snap, sentinel):
    import threading
    hf = cls['heap'].get('field', 'heap')
    objs = [[] for _ in snap[hf]]

    def val(x):
        if x[0] == 'none':
            return None
        if x[0] == 'sent':
            return sentinel
        if x[0] == 'ref':
            return objs[x[1]]
        return x[1]
    for o, cell in zip(objs, snap[hf]):
        o[:] = [val(x) for x in cell]
    obj = pycls.__new__(pycls)
    for a, tt in cls['state'].items():
        t = py2lean.parse_type(tt)
        if a == hf:
            continue
        if a == cls.get('dict_base'):
            import copy as _copy
            dict.update(obj, _copy.deepcopy(snap[a]))
        elif t == ('Val',):
            setattr(obj, a, val(snap[a]))
        elif t[0] == 'Dict' and t[2] == ('List', ('Val',)):
            setattr(obj, a, {k: [val(x) for x in v] for k, v in snap[a].items()})
        elif t[0] == 'Dict' and t[2] == ('Val',):
            setattr(obj, a, {k: val(v) for k, v in snap[a].items()})
        elif t[0] == 'Option' and t[1] is not None and t[1][0] == 'Fun':
            setattr(obj, a, OM_MENU[snap[a]])
        elif t[0] == 'Fun':
            setattr(obj, a, PRIO_MENU[snap[a]])
        elif t == ('Counter',):
            import itertools
            setattr(obj, a, itertools.count(snap[a]))
        elif t[0] == 'Var' and VAR_INST.get(t[1]) == ('List', ('Val',)):
            setattr(obj, a, [val(x) for x in snap[a]])
        else:
            setattr(obj, a, snap[a])
    for a in cls.get('ignore_with', ()):
        setattr(obj, a, threading.RLock())
    return obj


def heap_canon(cls, snap, result):
    """(result, state) with the cells reachable from the roots renumbered in order of discovery"""
    hf = cls['heap'].get('field', 'heap')
    cells = snap[hf]
    ids, order = {}, []

    def slot(x):
        if x[0] == 'int':
            return ('val', x[1])        # a Python int is a Python int: the two tags are not distinguished
        if x[0] != 'ref':
            return x
        if x[1] not in ids:
            ids[x[1]] = len(ids)
            order.append(x[1])
        return ('ref', ids[x[1]])

    def walk(v):
        if isinstance(v, tuple) and v and isinstance(v[0], str) and v[0] in ('none', 'sent', 'ref', 'key', 'val', 'int'):
            return slot(v)
        if isinstance(v, dict):
            return [(k, walk(x)) for k, x in v.items()]
        if isinstance(v, (list, tuple)):
            return [walk(x) for x in v]
        return v
    out = [walk(result)]
    for a in cls['state']:
        if a != hf:
            out.append((a, walk(snap[a])))
    done = 0
    graph = []
    while done < len(order):
        c = cells[order[done]] if order[done] < len(cells) else []
        graph.append([slot(x) for x in c])
        done += 1
    out.append(graph)
    return out


def call_heap_method(spec, fn, case):
    """a method of a heap-mode class on a fresh object isomorphic to the snapshot `case['self']`
    -> canonical (result | exception, state after)"""
    cls = spec['cls']
    pycls = fn.__globals__[cls.get('test_class', cls['name'])]
    sentinel = fn.__globals__[cls['sentinels'][0]] if cls.get('sentinels') else object()
    obj = heap_build(cls, pycls, case['self'], sentinel)
    pos = []
    kw = {}
    omitted = False
    for p, tt in spec['params'].items():
        v = to_py(py2lean.parse_type(tt), case[py2lean.mangle(p)])
        if v is None and cls.get('sentinels') and py2lean.parse_type(tt)[0] == 'Option':
            omitted = True  # `none` of a parameter whose Python default is an "omitted" marker: omit the argument
            continue
        if omitted:         # round 3e: a later argument that IS given (`poplast(default=5)`) goes by keyword
            if spec.get('key_locals') is None:
                break       # (the behaviour before round 3e for every other spec)
            kw[p] = v
        else:
            pos.append(v)
    for kn, kt in spec.get('kwargs', {}).items():
        kw.update(to_py(py2lean.parse_type(kt), case[kn]))
    try:
        with common.time_limit(5):
            r = fn(obj, *pos, **kw)
            if spec.get('kind') == 'generator' and spec.get('key_locals') is not None:
                r = list(r)     # round 3e: a generator is the list of what it yields, or the exception that ends it
        res = ('ok', r)
    except common.CaseTimeout:
        res = ('exc', 'CaseTimeout')
    except Exception as e:  # noqa: BLE001
        res = ('exc', type(e).__name__)
    rt = py2lean.parse_type(spec['result'])
    if spec.get('kind') == 'generator' and spec.get('key_locals') is not None:
        rt = ('List', rt)
    if res[0] == 'ok' and rt == ('Val',):
        snap, (rs,) = heap_snapshot(cls, obj, sentinel, [res[1]])
        return heap_canon(cls, snap, ('ok', rs))
    snap, _ = heap_snapshot(cls, obj, sentinel)
    if res[0] == 'ok':
        return heap_canon(cls, snap, ('ok', list(res[1]) if isinstance(res[1], tuple) else res[1]))
    return heap_canon(cls, snap, ('exc', EXC_CODES.get(res[1], 7)))


def heap_lean_result(spec, rtype, val):
    """decode the Lean output stream of a heap-mode method -> canonical (result | exception, state after)"""
    cls = spec['cls']
    pos = 0
    if val[0] == 0:
        result, pos = ('exc', val[1]), 2
    else:
        r, pos = dec(rtype, val, 1)
        result = ('ok', list(r) if rtype[0] == 'Prod' else r)
    snap = {}
    for a, tt in cls['state'].items():
        snap[a], pos = dec(py2lean.parse_type(tt), val, pos)
    if pos != len(val):
        raise ValueError('trailing tokens in the Lean output')
    for a, tt in cls['state'].items():
        t = py2lean.parse_type(tt)
        if (t[0] == 'Option' and t[1] is not None and t[1][0] == 'Fun') or t[0] == 'Fun':
            snap[a] = None
    return heap_canon(cls, snap, result)


def call_method(spec, fn, case):
    """a method of a class with object state: build the object from the state in `case['self']`, call, read the
    state back.  -> (('ok', value) | ('exc', class name), state after as {attr: value})"""
    cls = spec['cls']
    if cls.get('ext'):                      # a class of an extension module of the translator: its own convention
        import importlib
        return importlib.import_module(cls['ext']).call_method(spec, fn, case, to_py)
    pycls = fn.__globals__[cls['name']]
    obj = pycls.__new__(pycls)
    if cls.get('dict_base'):
        # a dict subclass whose `.<peer>` is the same class seen from the other side (OneToOne): the object IS
        # the dict of the `dict_base` field, the peer IS the dict of the other field, and they point at each other
        peer = pycls.__new__(pycls)
        base, pa = cls['dict_base'], cls['peer']['attr']
        other = cls['peer']['swap'][base]
        dict.update(obj, to_py(py2lean.parse_type(cls['state'][base]), case['self'][base]))
        dict.update(peer, to_py(py2lean.parse_type(cls['state'][other]), case['self'][other]))
        setattr(obj, pa, peer)
        setattr(peer, pa, obj)
    elif cls.get('paths'):
        # state fields reached through a path of attributes (`self.inv.data`): built by the class's own __init__
        obj = pycls()
        inv_paths = {f: p for p, f in cls['paths'].items()}
        for a, tt in cls['state'].items():
            tgt, parts = obj, (inv_paths[a] if a in inv_paths else a).split('.')
            for part in parts[:-1]:
                tgt = getattr(tgt, part)
            setattr(tgt, parts[-1], to_py(py2lean.parse_type(tt), case['self'][a]))
    else:
        actual = cls.get('_actual') or {}       # round 3b: role -> attribute of the class under test
        for a, tt in cls['state'].items():
            setattr(obj, actual.get(a, a), to_py(py2lean.parse_type(tt), case['self'][a]))
    pos, named = [], {}
    for p, tt in spec['params'].items():
        v = to_py(py2lean.parse_type(tt), case[py2lean.mangle(p)])
        if v is None and cls.get('sentinels') and py2lean.parse_type(tt)[0] == 'Option':
            continue        # `none` of a parameter whose Python default is an "omitted" marker: omit the argument
        if len(pos) == len([q for q in spec['params'] if q in named]) == 0 and not named and \
                len(pos) == list(spec['params']).index(p):
            pos.append(v)
        else:
            named[p] = v
    kw = dict(named)
    for kn, kt in spec.get('kwargs', {}).items():
        kw.update(to_py(py2lean.parse_type(kt), case[kn]))
    try:
        with common.time_limit(5):
            r = fn(obj, *pos, **kw)
            if spec['kind'] == 'generator':
                r = list(r)
        res = ('ok', r)
    except common.CaseTimeout:
        res = ('exc', 'CaseTimeout')
    except Exception as e:  # noqa: BLE001
        res = ('exc', type(e).__name__)
    if cls.get('dict_base'):
        return res, {base: dict(dict.items(obj)), other: dict(dict.items(getattr(obj, pa)))}
    if cls.get('paths'):
        out = {}
        for a in cls['state']:
            tgt = obj
            for part in (inv_paths[a] if a in inv_paths else a).split('.'):
                tgt = getattr(tgt, part)
            out[a] = tgt
        return res, out
    actual = cls.get('_actual') or {}
    return res, {a: getattr(obj, actual.get(a, a)) for a in cls['state']}


def call_real(spec, fn, args):
    """args: dict lean-parameter-name -> python value.  Returns ('ok', value) | ('exc', class name)"""
    if spec.get('py_call') and spec.get('ext'):
        # the extension module calls the function itself (spec-declared externals passed as parameters)
        import importlib
        return importlib.import_module(spec['ext']).py_call(spec, fn, args)
    pos = [args[py2lean.mangle(p)] for p in spec['params']]
    try:
        with common.time_limit(5):
            if spec.get('method'):
                attrs = {}
                for a, tt in spec.get('self_attrs', {}).items():
                    v = args['self_' + a]
                    if py2lean.parse_type(tt) == ('List', ('Prod', (py2lean.INT, py2lean.INT))):
                        v = [list(p) for p in v]          # dead_indices holds two-element lists
                    attrs[a] = v
                r = fn(_Self(args.get('self_len', 0), attrs), *pos)
            else:
                r = fn(*pos)
            if spec['kind'] == 'generator':
                r = list(r)
        return 'ok', r
    except common.CaseTimeout:
        return 'exc', 'CaseTimeout'
    except Exception as e:  # noqa: BLE001
        return 'exc', type(e).__name__


# ------------------------------------------------------------------ argument families
def fam_chunk_ranges(rng, quick):
    for size, cs, off, ov in itertools.product(range(-1, 7), range(-1, 6), range(-1, 6), range(-1, 5)):
        for align in (False, True):
            yield dict(input_size=size, chunk_size=cs, input_offset=off, overlap_size=ov, align=align)
    for _ in range(500 if quick else 4000):
        cs = rng.randint(1, 40)
        yield dict(input_size=rng.randint(0, 200), chunk_size=cs, input_offset=rng.randint(0, 100),
                   overlap_size=rng.choice([0, 1, max(cs - 1, 0), rng.randint(0, cs + 2)]),
                   align=rng.random() < 0.5)


def _dead(rng, n, hi, wild):
    if wild:
        return [(rng.randint(-2, hi), rng.randint(-2, hi)) for _ in range(n)]
    cuts = sorted(rng.sample(range(hi + 1), min(2 * n, hi + 1) // 2 * 2))
    return [(cuts[i], cuts[i + 1]) for i in range(0, len(cuts), 2)]


def fam_index(rng, quick):
    small = [[], [(0, 1)], [(1, 2)], [(0, 2), (3, 4)], [(1, 3), (3, 4)], [(2, 2)], [(3, 1)]]
    for dead in small:
        for ln in range(0, 6):
            for index in range(-7, 8):
                yield dict(index=index, self_len=ln, self_dead_indices=dead)
    for _ in range(500 if quick else 4000):
        hi = rng.randint(1, 60)
        dead = _dead(rng, rng.randint(0, 8), hi, rng.random() < 0.2)
        yield dict(index=rng.randint(-hi - 3, hi + 3), self_len=rng.randint(0, hi), self_dead_indices=dead)


def fam_translate(rng, quick):
    shapes = [[]] + [list(s) for n in (1, 2, 3) for s in itertools.product(range(0, 3), repeat=n)]
    c = itertools.count()
    for shape in shapes:
        lists = [[next(c) % 50 for _ in range(k)] for k in shape]
        total = sum(shape)
        for index in range(-total - 2, total + 3):
            yield dict(index=index, self_len=total, self_lists=lists)
    for _ in range(500 if quick else 4000):
        shape = [rng.randint(0, 6) for _ in range(rng.randint(1, 7))]
        lists = [[rng.randint(0, 99) for _ in range(k)] for k in shape]
        total = sum(shape)
        yield dict(index=rng.randint(-total - 3, total + 3),
                   self_len=total if rng.random() < 0.8 else rng.randint(0, total + 2), self_lists=lists)


def fam_resolve(rng, quick):
    alpha = ['', '.', '..', 'a', 'bc']
    for n in range(0, 4 if quick else 5):
        for parts in itertools.product(alpha, repeat=n):
            yield dict(path_parts=list(parts))
    alpha2 = alpha + ['...', '. ', 'é', '/', '.a']
    for _ in range(500 if quick else 4000):
        yield dict(path_parts=[rng.choice(alpha2) for _ in range(rng.randint(0, 9))])


TC_KEYS = ['a', 'b', 'c', 'd', 'e', 'f', 'key', '']


def _tc_states(rng, quick):
    """states of a ThresholdCounter: reachable ones (prefixes of random histories run on the real class built by
    its own __init__) and arbitrary ones (any ints, `_thresh_count` 0 or negative, counts that do not add up)"""
    import importlib
    pycls = importlib.import_module('boltons.cacheutils').ThresholdCounter

    actual = srctie_specs.THRESHOLD_COUNTER.get('_actual') or {}       # round 3b: role -> attribute
    A = {r: actual.get(r, r) for r in ('_count_map', '_cur_bucket', '_thresh_count')}

    def snap(tc):
        return {'total': tc.total, '_count_map': {k: tuple(v) for k, v in getattr(tc, A['_count_map']).items()},
                '_cur_bucket': getattr(tc, A['_cur_bucket']), '_thresh_count': getattr(tc, A['_thresh_count'])}
    for _ in range(12 if quick else 120):
        w = rng.choice([1, 2, 3, 3, 4, 5, 7, 10])
        tc = pycls(threshold=1.0 / w * 0.999 if w > 1 else 0.99)
        if getattr(tc, A['_thresh_count']) != w:
            setattr(tc, A['_thresh_count'], w)
        keys = rng.sample(TC_KEYS, rng.randint(1, len(TC_KEYS)))
        yield snap(tc)
        for _ in range(rng.randint(1, 30)):
            r = rng.random()
            if r < 0.7:
                tc.add(rng.choice(keys))
            elif r < 0.85:
                tc.update([rng.choice(keys) for _ in range(rng.randint(0, 4))])
            else:
                tc.update({rng.choice(keys): rng.randint(0, 3) for _ in range(rng.randint(0, 3))})
            yield snap(tc)
    for _ in range(40 if quick else 400):
        ks = rng.sample(TC_KEYS, rng.randint(0, 5))
        yield {'total': rng.randint(-3, 30), '_count_map': {k: (rng.randint(-2, 9), rng.randint(-2, 5)) for k in ks},
               '_cur_bucket': rng.randint(-1, 6), '_thresh_count': rng.choice([0, 0, 1, 2, 3, -2, 5])}


def fam_tc(method):
    def fam(rng, quick):
        for st in _tc_states(rng, quick):
            for _ in range(2):
                known_ = list(st['_count_map']) or TC_KEYS
                key = rng.choice(known_) if rng.random() < 0.6 else rng.choice(TC_KEYS)
                case = {'self': st}
                if method in ('add', 'getitem', 'contains'):
                    case['key'] = key
                elif method == 'get':
                    case['key'] = key
                    case['default_'] = rng.choice([0, 0, -1, 7])
                elif method == 'most_common':
                    case['n'] = rng.choice([None, None, -1, 0, 1, 2, 3, 50])
                elif method == 'update_keys':
                    case['iterable'] = None if rng.random() < 0.2 else \
                        [rng.choice(TC_KEYS) for _ in range(rng.randint(0, 6))]
                    case['kwargs'] = {} if rng.random() < 0.5 else \
                        {rng.choice(TC_KEYS[:7]): rng.randint(-1, 3) for _ in range(rng.randint(1, 3))}
                elif method == 'update_map':
                    case['iterable'] = None if rng.random() < 0.2 else \
                        {rng.choice(TC_KEYS): rng.randint(-1, 4) for _ in range(rng.randint(0, 4))}
                    case['kwargs'] = {} if rng.random() < 0.5 else \
                        {rng.choice(TC_KEYS[:7]): rng.randint(-1, 3) for _ in range(rng.randint(1, 3))}
                yield case
    return fam


OTO_KEYS = ['a', 'b', 'c', 'd', 'e', '']


def _oto_states(rng, quick):
    """states of a OneToOne: reachable ones (random histories on the real class) and arbitrary pairs of dicts
    that are NOT inverse to each other (the KeyError paths)"""
    import importlib
    pycls = importlib.import_module('boltons.dictutils').OneToOne
    for _ in range(15 if quick else 150):
        o = pycls()
        yield {'fwd': dict(o), 'inv': dict(o.inv)}
        for _ in range(rng.randint(1, 12)):
            r = rng.random()
            side = o if rng.random() < 0.7 else o.inv
            try:
                if r < 0.6:
                    side[rng.choice(OTO_KEYS)] = rng.choice(OTO_KEYS)
                elif r < 0.75:
                    del side[rng.choice(OTO_KEYS)]
                elif r < 0.85:
                    side.pop(rng.choice(OTO_KEYS), None)
                else:
                    side.update([(rng.choice(OTO_KEYS), rng.choice(OTO_KEYS)) for _ in range(rng.randint(0, 3))])
            except KeyError:
                pass
            yield {'fwd': dict(o), 'inv': dict(o.inv)}
    for _ in range(30 if quick else 300):
        yield {'fwd': {k: rng.choice(OTO_KEYS) for k in rng.sample(OTO_KEYS, rng.randint(0, 4))},
               'inv': {k: rng.choice(OTO_KEYS) for k in rng.sample(OTO_KEYS, rng.randint(0, 4))}}


def fam_oto(method):
    def fam(rng, quick):
        for st in _oto_states(rng, quick):
            for _ in range(2):
                case = {'self': st}
                key = rng.choice(list(st['fwd']) or OTO_KEYS) if rng.random() < 0.6 else rng.choice(OTO_KEYS)
                if method in ('delitem',):
                    case['key'] = key
                elif method == 'setitem':
                    case['key'] = key
                    case['val'] = rng.choice(list(st['inv']) or OTO_KEYS) if rng.random() < 0.5 else rng.choice(OTO_KEYS)
                elif method == 'pop':
                    case['key'] = key
                    case['default_'] = rng.choice([None, None, 'zz', 'a'])
                elif method == 'setdefault':
                    case['key'] = key
                    case['default_'] = rng.choice(OTO_KEYS)
                elif method == 'update_pairs':
                    case['dict_or_iterable'] = [(rng.choice(OTO_KEYS), rng.choice(OTO_KEYS))
                                                for _ in range(rng.randint(0, 4))]
                    case['kw'] = {rng.choice(OTO_KEYS[:5]): rng.choice(OTO_KEYS) for _ in range(rng.randint(0, 2))}
                elif method == 'update_dict':
                    case['dict_or_iterable'] = {rng.choice(OTO_KEYS): rng.choice(OTO_KEYS)
                                                for _ in range(rng.randint(0, 4))}
                    case['kw'] = {rng.choice(OTO_KEYS[:5]): rng.choice(OTO_KEYS) for _ in range(rng.randint(0, 2))}
                yield case
    return fam


def _m2m_states(rng, quick):
    import importlib
    pycls = importlib.import_module('boltons.dictutils').ManyToMany

    def snap(m):
        return {'data': {k: set(v) for k, v in m.data.items()}, 'inv_data': {k: set(v) for k, v in m.inv.data.items()}}
    for _ in range(15 if quick else 150):
        m = pycls()
        yield snap(m)
        for _ in range(rng.randint(1, 12)):
            try:
                if rng.random() < 0.7:
                    m.add(rng.choice(OTO_KEYS), rng.choice(OTO_KEYS))
                else:
                    m.remove(rng.choice(OTO_KEYS), rng.choice(OTO_KEYS))
            except KeyError:
                pass
            yield snap(m)
    for _ in range(30 if quick else 300):          # two dicts that are not transposes of each other
        yield {'data': {k: set(rng.sample(OTO_KEYS, rng.randint(0, 3))) for k in rng.sample(OTO_KEYS, rng.randint(0, 4))},
               'inv_data': {k: set(rng.sample(OTO_KEYS, rng.randint(0, 3))) for k in rng.sample(OTO_KEYS, rng.randint(0, 4))}}


def fam_m2m(method):
    def fam(rng, quick):
        for st in _m2m_states(rng, quick):
            for _ in range(2):
                case = {'self': st}
                key = rng.choice(list(st['data']) or OTO_KEYS) if rng.random() < 0.6 else rng.choice(OTO_KEYS)
                if method in ('add', 'remove'):
                    vals = sorted(st['data'].get(key, ())) or OTO_KEYS
                    case.update(key=key, val=rng.choice(vals) if rng.random() < 0.6 else rng.choice(OTO_KEYS))
                elif method in ('getitem', 'contains'):
                    case.update(key=key)
                elif method == 'get':
                    case.update(key=key, default_=set(rng.sample(OTO_KEYS, rng.randint(0, 2))))
                elif method == 'update_pairs':
                    case['iterable'] = [(rng.choice(OTO_KEYS), rng.choice(OTO_KEYS)) for _ in range(rng.randint(0, 4))]
                elif method == 'update_dict':
                    case['iterable'] = {rng.choice(OTO_KEYS): rng.choice(OTO_KEYS) for _ in range(rng.randint(0, 4))}
                yield case
    return fam


LRI_KEYS = ['a', 'b', 'c', 'd', 'ee', '']


def _lri_states(rng, quick, lru):
    """snapshots of LRI / LRU objects: reachable ones (prefixes of random histories on the real class, built by
    its own __init__) and CORRUPTED ones (dict and ring out of step, a `_MISSING` / None in a link slot, a key missing
    from `_link_lookup`, max_size 0): the error paths, and the object state after an exception"""
    import importlib
    mod = importlib.import_module('boltons.cacheutils')
    pycls = mod.LRU if lru else mod.LRI
    cls = srctie_specs.LRU if lru else srctie_specs.LRI

    def snap(o):
        return heap_snapshot(cls, o, mod._MISSING)[0]
    for _ in range(10 if quick else 100):
        o = pycls(max_size=rng.choice([1, 2, 2, 3, 4]), on_miss=OM_MENU[rng.choice([0, 0, 0, 1, 2, 3, 4])])
        yield snap(o)
        for _ in range(rng.randint(1, 14)):
            k = rng.choice(LRI_KEYS)
            r = rng.random()
            try:
                if r < 0.45:
                    o[k] = rng.randint(0, 9)
                elif r < 0.6:
                    o[k]
                elif r < 0.68:
                    o.get(k, -1)
                elif r < 0.76:
                    o.pop(k, None)
                elif r < 0.82:
                    del o[k]
                elif r < 0.88:
                    o.setdefault(k, rng.randint(0, 9))
                elif r < 0.93:
                    o.popitem()
                elif r < 0.97:
                    o.update([(rng.choice(LRI_KEYS), 5)], **{rng.choice(LRI_KEYS[:5]): 6})
                else:
                    o.clear()
            except (KeyError, ValueError):
                pass
            yield snap(o)
            if rng.random() < 0.25:
                # a corrupted copy of this state
                c = heap_build(cls, pycls, snap(o), mod._MISSING)
                how = rng.randint(0, 6)
                links = list(c._link_lookup.values())
                if how == 0 and len(c):
                    dict.__delitem__(c, rng.choice(list(c)))
                elif how == 1:
                    dict.__setitem__(c, 'zz', 5)
                elif how == 2 and links:
                    rng.choice(links)[rng.choice([2, 3])] = mod._MISSING
                elif how == 3 and c._link_lookup:
                    del c._link_lookup[rng.choice(list(c._link_lookup))]
                elif how == 4:
                    c.max_size = rng.choice([0, 1, len(c)])
                elif how == 5 and links:
                    rng.choice(links)[rng.choice([0, 1])] = rng.choice([None, mod._MISSING, 7])
                elif how == 6:
                    c._anchor[rng.choice([0, 1])] = None
                yield snap(c)


def fam_lri(method, lru=False):
    def fam(rng, quick):
        for st in _lri_states(rng, quick, lru):
            for _ in range(2):
                case = {'self': st}
                key = rng.choice(list(st['d']) or LRI_KEYS) if rng.random() < 0.6 else rng.choice(LRI_KEYS)
                if method in ('move_to_front', 'remove_from_ll', 'getitem', 'delitem'):
                    case['key'] = key
                elif method in ('add_to_front', 'evict_last', 'setitem'):
                    case.update(key=key, value=rng.randint(0, 9))
                elif method in ('get', 'setdefault'):
                    case.update(key=key, default_=rng.randint(-3, 9))
                elif method == 'pop':
                    case.update(key=key, default_=rng.choice([None, None, -1, 5]))
                elif method == 'update_pairs':
                    case['E'] = [(rng.choice(LRI_KEYS), rng.randint(0, 9)) for _ in range(rng.randint(0, 4))]
                    case['F'] = {rng.choice(LRI_KEYS[:5]): rng.randint(0, 9) for _ in range(rng.randint(0, 2))}
                elif method == 'update_dict':
                    case['E'] = {rng.choice(LRI_KEYS): rng.randint(0, 9) for _ in range(rng.randint(0, 4))}
                    case['F'] = {rng.choice(LRI_KEYS[:5]): rng.randint(0, 9) for _ in range(rng.randint(0, 2))}
                yield case
    return fam


OMD_KEYS = ['a', 'b', 'c', '']


def _omd_states(rng, quick):
    """snapshots of OrderedMultiDict objects: reachable ones (random histories on the real class) and corrupted ones (a
    key missing from `_map` / from the dict, an emptied cell list, a cell unlinked behind `_map`'s back)"""
    import importlib
    mod = importlib.import_module('boltons.dictutils')
    pycls = mod.OrderedMultiDict
    cls = srctie_specs.OMD

    def snap(o):
        return heap_snapshot(cls, o, mod._MISSING)[0]
    for _ in range(12 if quick else 120):
        o = pycls()
        yield snap(o)
        for _ in range(rng.randint(1, 12)):
            k = rng.choice(OMD_KEYS)
            r = rng.random()
            try:
                if r < 0.4:
                    o.add(k, rng.randint(0, 9))
                elif r < 0.5:
                    o.addlist(k, [rng.randint(0, 9) for _ in range(rng.randint(0, 3))])
                elif r < 0.65:
                    o[k] = rng.randint(0, 9)
                elif r < 0.75:
                    del o[k]
                elif r < 0.85:
                    o.poplast(k)
                elif r < 0.95:
                    o.popall(k)
                else:
                    o.clear()
            except (KeyError, IndexError):
                pass
            yield snap(o)
            if rng.random() < 0.2:
                c = heap_build(cls, pycls, snap(o), mod._MISSING)
                how = rng.randint(0, 3)
                if how == 0 and c._map:
                    del c._map[rng.choice(list(c._map))]
                elif how == 1 and len(c):
                    dict.__delitem__(c, rng.choice(list(dict.keys(c))))
                elif how == 2 and c._map:
                    c._map[rng.choice(list(c._map))].clear()
                elif how == 3:
                    c.root[rng.choice([0, 1])] = None
                yield snap(c)


def fam_omd(method):
    def fam(rng, quick):
        for st in _omd_states(rng, quick):
            for _ in range(2):
                case = {'self': st}
                key = rng.choice(list(st['d']) or OMD_KEYS) if rng.random() < 0.6 else rng.choice(OMD_KEYS)
                if method in ('remove', 'remove_all', 'delitem'):
                    case['k_'] = key
                elif method in ('insert', 'add', 'setitem'):
                    case.update(k_=key, v=rng.randint(0, 9))
                elif method == 'addlist':
                    case.update(k_=key, v=[rng.randint(0, 9) for _ in range(rng.randint(0, 3))])
                elif method == 'popall':
                    case.update(k_=key, default_=rng.choice([None, None, [7], []]))
                yield case
    return fam


BPQ_TASKS = ['a', 'b', 'c', 'd', '']


def _bpq_states(rng, quick):
    """snapshots of HeapPriorityQueue objects: reachable ones (random histories on the real class) and corrupted ones
    (a task missing from `_entry_map`, a live entry marked removed, a counter moved)"""
    import importlib
    mod = importlib.import_module('boltons.queueutils')
    pycls = mod.HeapPriorityQueue
    cls = srctie_specs.BPQ

    def snap(o):
        return heap_snapshot(cls, o, mod._REMOVED)[0]
    for _ in range(12 if quick else 120):
        o = pycls(priority_key=PRIO_MENU[rng.choice([0, 0, 0, 1, 3])])
        yield snap(o)
        for _ in range(rng.randint(1, 14)):
            r = rng.random()
            try:
                if r < 0.55:
                    o.add(rng.choice(BPQ_TASKS), rng.randint(-3, 6))
                elif r < 0.75:
                    o.remove(rng.choice(BPQ_TASKS))
                elif r < 0.9:
                    o.pop()
                else:
                    o.peek()
            except (KeyError, IndexError):
                pass
            yield snap(o)
            if rng.random() < 0.2:
                c = heap_build(cls, pycls, snap(o), mod._REMOVED)
                how = rng.randint(0, 3)
                if how == 0 and c._entry_map:
                    del c._entry_map[rng.choice(list(c._entry_map))]
                elif how == 1 and c._entry_map:
                    rng.choice(list(c._entry_map.values()))[-1] = mod._REMOVED
                elif how == 2:
                    import itertools
                    c._counter = itertools.count(rng.randint(0, 40))
                elif how == 3:
                    c._get_priority = PRIO_MENU[2]
                yield snap(c)


def fam_bpq(method):
    def fam(rng, quick):
        for st in _bpq_states(rng, quick):
            for _ in range(2):
                case = {'self': st}
                task = rng.choice(list(st['_entry_map']) or BPQ_TASKS) if rng.random() < 0.6 else rng.choice(BPQ_TASKS)
                if method == 'remove':
                    case['task'] = task
                elif method == 'add':
                    case.update(task=task, priority=rng.randint(-3, 6))
                elif method == 'cull':
                    case['raise_exc'] = rng.random() < 0.6
                elif method in ('peek', 'pop'):
                    case['default_'] = rng.choice([None, None, 7])
                yield case
    return fam


FAMILIES = {
    'OMD.clear_ll': fam_omd('clear_ll'),
    'OMD.insert': fam_omd('insert'),
    'OMD.remove': fam_omd('remove'),
    'OMD.remove_all': fam_omd('remove_all'),
    'OMD.add': fam_omd('add'),
    'OMD.addlist': fam_omd('addlist'),
    'OMD.setitem': fam_omd('setitem'),
    'OMD.delitem': fam_omd('delitem'),
    'OMD.popall': fam_omd('popall'),
    'OMD.clear': fam_omd('clear'),
    'BPQ.remove': fam_bpq('remove'),
    'BPQ.add': fam_bpq('add'),
    'BPQ.cull': fam_bpq('cull'),
    'BPQ.peek': fam_bpq('peek'),
    'BPQ.pop': fam_bpq('pop'),
    'BPQ.len': fam_bpq('len'),
    'LRI.init_ll': fam_lri('init_ll'),
    'LRI.move_to_front': fam_lri('move_to_front'),
    'LRI.add_to_front': fam_lri('add_to_front'),
    'LRI.evict_last': fam_lri('evict_last'),
    'LRI.remove_from_ll': fam_lri('remove_from_ll'),
    'LRI.setitem': fam_lri('setitem'),
    'LRI.getitem': fam_lri('getitem'),
    'LRI.get': fam_lri('get'),
    'LRI.delitem': fam_lri('delitem'),
    'LRI.pop': fam_lri('pop'),
    'LRI.popitem': fam_lri('popitem'),
    'LRI.clear': fam_lri('clear'),
    'LRI.setdefault': fam_lri('setdefault'),
    'LRI.update_pairs': fam_lri('update_pairs'),
    'LRI.update_dict': fam_lri('update_dict'),
    'LRU.getitem': fam_lri('getitem', True),
    'LRU.get': fam_lri('get', True),
    'LRU.setdefault': fam_lri('setdefault', True),
    'ManyToMany.add': fam_m2m('add'),
    'ManyToMany.remove': fam_m2m('remove'),
    'ManyToMany.getitem': fam_m2m('getitem'),
    'ManyToMany.get': fam_m2m('get'),
    'ManyToMany.contains': fam_m2m('contains'),
    'ManyToMany.len': fam_m2m('len'),
    'ManyToMany.update_pairs': fam_m2m('update_pairs'),
    'ManyToMany.update_dict': fam_m2m('update_dict'),
    'OneToOne.delitem': fam_oto('delitem'),
    'OneToOne.setitem': fam_oto('setitem'),
    'OneToOne.clear': fam_oto('clear'),
    'OneToOne.pop': fam_oto('pop'),
    'OneToOne.popitem': fam_oto('popitem'),
    'OneToOne.setdefault': fam_oto('setdefault'),
    'OneToOne.update_pairs': fam_oto('update_pairs'),
    'OneToOne.update_dict': fam_oto('update_dict'),
    'ThresholdCounter.add': fam_tc('add'),
    'ThresholdCounter.getitem': fam_tc('getitem'),
    'ThresholdCounter.len': fam_tc('len'),
    'ThresholdCounter.contains': fam_tc('contains'),
    'ThresholdCounter.get': fam_tc('get'),
    'ThresholdCounter.get_common_count': fam_tc('get_common_count'),
    'ThresholdCounter.get_uncommon_count': fam_tc('get_uncommon_count'),
    'ThresholdCounter.iteritems': fam_tc('iteritems'),
    'ThresholdCounter.most_common': fam_tc('most_common'),
    'ThresholdCounter.update_map': fam_tc('update_map'),
    'ThresholdCounter.update_keys': fam_tc('update_keys'),
    'chunk_ranges': fam_chunk_ranges,
    'get_real_index': fam_index,
    'get_apparent_index': fam_index,
    'translate_index': fam_translate,
    'resolve_path_parts': fam_resolve,
}


# ------------------------------------------------------------------ synthetic functions
# Constructs of the subset that the translated boltons functions do not (all) use, so that every
# translation rule is compared with CPython at least once.
SNIPPET_SRC = '''
def s_divmod(a, b):
    return (a // b, a % b)

def s_ranges(a, b, c):
    out = []
    for i in range(a):
        out.append(i)
    for i in range(a, b):
        if i % 2 == 0:
            continue
        out.append(i * 10)
    for i in range(b, a, c):
        out.append(-i)
    return out

def s_nested(n, m):
    for i in range(n):
        for j in range(m):
            if i * j == 6:
                return (i, j)
            if j > i:
                break
        else:
            if i == 4:
                return (i, -1)
    return (-1, -1)

def s_gen(n):
    total = 0
    for i in range(n):
        for j in range(i):
            total += j
            yield (i, j, total)
        if total > 20:
            return
    yield (n, n, total)

def s_option(xs, k):
    found = None
    for x in xs:
        if x == k:
            found = x
            break
    if found is None:
        return (None, -1 if k < 0 else 0)
    return (found, 1)

def s_member(xs, k):
    flag = k in xs
    other = k not in (1, 2, 3)
    if flag and not other:
        return 2
    if flag or other:
        return 1
    return 0

def s_swap(a, b):
    a, b = b, a + b
    lo = min(a, b)
    hi = max(a, b)
    ok = lo <= a <= hi
    return (lo, hi, int(ok))

def s_slices(xs, i, j):
    return (xs[i:j], xs[:j], xs[i:], xs[-2:], xs + xs[:1])

def s_index(xs, i):
    if -len(xs) <= i < len(xs):
        return xs[i]
    return 0

def s_strs(parts, sep):
    out = []
    for p in parts:
        if p == sep or p == '':
            continue
        if p != 'x' and out:
            out.pop()
        out.append(p)
    return out

def s_else(xs, k):
    pos = 0
    for x in xs:
        if x > k:
            break
        pos += 1
    else:
        pos = -pos
    return pos

def r_divmod(a, b):
    return (a // b, a % b)

def r_index(xs, i):
    try:
        return xs[i]
    except IndexError:
        return -1

def r_try(xs, i, j):
    total = 0
    try:
        total += xs[i]
        total += 10 // j
    except IndexError:
        total -= 100
    except ZeroDivisionError:
        total -= 1000
    else:
        total += 1
    return total

def r_raise(n):
    if n < 0:
        raise ValueError('negative: %r' % n)
    if n == 0:
        raise KeyError
    if n == 7:
        raise TypeError()
    return n

def r_loop(xs, n):
    acc = []
    for i in range(n):
        try:
            if xs[i] == 0:
                continue
            acc.append(10 // xs[i])
        except IndexError:
            break
    return acc

def r_uncaught(xs, n):
    acc = 0
    for i in range(n):
        try:
            acc += 10 % xs[i]
        except ZeroDivisionError:
            acc -= 1
    return acc

def r_comp(xs, k):
    return sum([x * 2 for x in xs if x > k])

def r_sorted(ps, up):
    if up:
        return sorted(ps, key=lambda p: p[1])
    return sorted(ps, key=lambda p: p[1], reverse=True)

def r_enum(xs, start):
    out = []
    for i, x in enumerate(xs, start):
        out.append(i * x)
    for j, y in enumerate(xs):
        out.append(j + y)
    return out

def r_opt(n, xs):
    if n is not None and n <= 0:
        return []
    if n is None or n >= len(xs):
        return xs
    return xs[:n]

def w_sum(n):
    i = 0
    acc = 0
    while i < n:
        acc += i
        i += 1
    return acc

def w_drain(xs, lim):
    out = []
    rest = list(xs)
    while rest:
        top = rest[-1]
        if top > lim:
            break
        out.append(top * 2)
        rest.pop()
    else:
        out.append(-1)
    return out

def w_gcd(a, b):
    while b != 0:
        a, b = b, a % b
    return a

def w_try(xs, i):
    total = 0
    while True:
        try:
            total += xs[i]
        except IndexError:
            return total
        i += 1

def w_diverges(n):
    while n >= 0:
        n += 1
    return n

class Box:
    def put(self, k, v):
        if k in self.d:
            self.d[k][0] += v
        else:
            self.d[k] = [v, self.n]
        self.n += 1

    def drop(self, k):
        self.n -= 1
        del self.d[k]
        self.n -= 10

    def bump(self, k, by):
        try:
            self.d[k][1] += 100 // by
        except KeyError:
            self.n = -1
            raise ValueError('no such key')
        return self.d[k][1]

    def firsts(self):
        return sum([a for a, _ in self.d.values()])

    def view(self):
        for k in self.d:
            yield (k, self.d[k][0] + self.d[k][1])

    def big(self, lim):
        self.d = {k: v for k, v in self.d.items() if v[0] > lim}
        return len(self.d)

    def fill(self, ks, v):
        for k in ks:
            self.put(k, v)
        return self.firsts()

    def count_down(self, m):
        if m is not None:
            if callable(getattr(m, 'items', None)):
                for k, c in m.items():
                    self.put(k, c)
            else:
                for k in m:
                    self.put(k, 1)
        if self.n > 3:
            self.count_down([])
'''

SNIPPET_SPECS = [
    {'qualname': 's_divmod', 'params': {'a': 'Int', 'b': 'Int'}, 'kind': 'function', 'result': 'Int × Int'},
    {'qualname': 's_ranges', 'params': {'a': 'Int', 'b': 'Int', 'c': 'Int'}, 'kind': 'function', 'result': 'List Int'},
    {'qualname': 's_nested', 'params': {'n': 'Int', 'm': 'Int'}, 'kind': 'function', 'result': 'Int × Int'},
    {'qualname': 's_gen', 'params': {'n': 'Int'}, 'kind': 'generator', 'result': 'Int × Int × Int'},
    {'qualname': 's_option', 'params': {'xs': 'List Int', 'k': 'Int'}, 'kind': 'function', 'result': 'Option Int × Int'},
    {'qualname': 's_member', 'params': {'xs': 'List Int', 'k': 'Int'}, 'kind': 'function', 'result': 'Int'},
    {'qualname': 's_swap', 'params': {'a': 'Int', 'b': 'Int'}, 'kind': 'function', 'result': 'Int × Int × Int'},
    {'qualname': 's_slices', 'params': {'xs': 'List Int', 'i': 'Int', 'j': 'Int'}, 'kind': 'function',
     'result': 'List Int × List Int × List Int × List Int × List Int'},
    {'qualname': 's_index', 'params': {'xs': 'List Int', 'i': 'Int'}, 'kind': 'function', 'result': 'Int'},
    {'qualname': 's_strs', 'params': {'parts': 'List Str', 'sep': 'Str'}, 'kind': 'function', 'result': 'List Str'},
    {'qualname': 's_else', 'params': {'xs': 'List Int', 'k': 'Int'}, 'kind': 'function', 'result': 'Int'},
]
SNIPPET_SPECS += [
    {'qualname': 'r_divmod', 'params': {'a': 'Int', 'b': 'Int'}, 'kind': 'function', 'result': 'Int × Int', 'raises': True},
    {'qualname': 'r_index', 'params': {'xs': 'List Int', 'i': 'Int'}, 'kind': 'function', 'result': 'Int', 'raises': True},
    {'qualname': 'r_try', 'params': {'xs': 'List Int', 'i': 'Int', 'j': 'Int'}, 'kind': 'function', 'result': 'Int',
     'raises': True},
    {'qualname': 'r_raise', 'params': {'n': 'Int'}, 'kind': 'function', 'result': 'Int', 'raises': True},
    {'qualname': 'r_loop', 'params': {'xs': 'List Int', 'n': 'Int'}, 'kind': 'function', 'result': 'List Int',
     'raises': True},
    {'qualname': 'r_uncaught', 'params': {'xs': 'List Int', 'n': 'Int'}, 'kind': 'function', 'result': 'Int',
     'raises': True},
    {'qualname': 'r_comp', 'params': {'xs': 'List Int', 'k': 'Int'}, 'kind': 'function', 'result': 'Int', 'raises': True},
    {'qualname': 'r_sorted', 'params': {'ps': 'List (Int × Int)', 'up': 'Bool'}, 'kind': 'function',
     'result': 'List (Int × Int)', 'raises': True},
    {'qualname': 'r_enum', 'params': {'xs': 'List Int', 'start': 'Int'}, 'kind': 'function', 'result': 'List Int',
     'raises': True},
    {'qualname': 'r_opt', 'params': {'n': 'Option Int', 'xs': 'List Int'}, 'kind': 'function', 'result': 'List Int',
     'raises': True},
    {'qualname': 'w_sum', 'params': {'n': 'Int'}, 'kind': 'function', 'result': 'Int', 'raises': True,
     'loop_fuel': True},
    {'qualname': 'w_drain', 'params': {'xs': 'List Int', 'lim': 'Int'}, 'kind': 'function', 'result': 'List Int',
     'raises': True, 'loop_fuel': True},
    {'qualname': 'w_gcd', 'params': {'a': 'Int', 'b': 'Int'}, 'kind': 'function', 'result': 'Int', 'raises': True,
     'loop_fuel': True},
    {'qualname': 'w_try', 'params': {'xs': 'List Int', 'i': 'Int'}, 'kind': 'function', 'result': 'Int',
     'raises': True, 'loop_fuel': True},
    {'qualname': 'w_diverges', 'params': {'n': 'Int'}, 'kind': 'function', 'result': 'Int', 'raises': True,
     'loop_fuel': True},
]
for _sp in SNIPPET_SPECS:
    _sp.update(module='snippets', lean_name=_sp['qualname'], tie_theorem='-')

BOX = {'name': 'Box', 'lean_name': 'Box', 'tparams': ['κ'], 'deceq': ['κ'],
       'state': {'d': 'Dict κ (Int × Int)', 'n': 'Int'}}
SNIPPET_SPECS += srctie_specs._cls_methods(BOX, 'snippets', [
    {'py': 'put', 'name': 'put', 'params': {'k': 'κ', 'v': 'Int'}, 'result': 'None', 'tie_theorem': '-'},
    {'py': 'drop', 'name': 'drop', 'params': {'k': 'κ'}, 'result': 'None', 'tie_theorem': '-'},
    {'py': 'bump', 'name': 'bump', 'params': {'k': 'κ', 'by': 'Int'}, 'result': 'Int', 'tie_theorem': '-'},
    {'py': 'firsts', 'name': 'firsts', 'params': {}, 'result': 'Int', 'tie_theorem': '-'},
    {'py': 'view', 'name': 'view', 'params': {}, 'kind': 'generator', 'result': 'κ × Int', 'tie_theorem': '-'},
    {'py': 'big', 'name': 'big', 'params': {'lim': 'Int'}, 'result': 'Int', 'tie_theorem': '-'},
    {'py': 'fill', 'name': 'fill', 'params': {'ks': 'List κ', 'v': 'Int'}, 'result': 'Int', 'tie_theorem': '-'},
    {'py': 'count_down', 'name': 'count_down_keys', 'params': {'m': 'Option (List κ)'}, 'result': 'None',
     'fuel': True, 'tie_theorem': '-'},
    {'py': 'count_down', 'name': 'count_down_map', 'params': {'m': 'Option (Dict κ Int)'}, 'result': 'None',
     'fuel': True, 'tie_theorem': '-'},
])


def _ints(rng, n, lo=-3, hi=6):
    return [rng.randint(lo, hi) for _ in range(n)]


def fam_snippet(name):
    def fam(rng, quick):
        n = 150 if quick else 1500
        if name in ('s_divmod', 's_swap'):
            for a in range(-7, 8):
                for b in range(-4, 5):
                    yield dict(a=a, b=b)
        elif name == 's_ranges':
            for a in range(-1, 5):
                for b in range(-1, 6):
                    for c in range(-3, 4):
                        yield dict(a=a, b=b, c=c)
        elif name == 's_nested':
            for a in range(-1, 8):
                for b in range(-1, 8):
                    yield dict(n=a, m=b)
        elif name == 's_gen':
            for a in range(-1, 12):
                yield dict(n=a)
        elif name in ('s_option', 's_member', 's_else'):
            for _ in range(n):
                yield dict(xs=_ints(rng, rng.randint(0, 5)), k=rng.randint(-3, 6))
        elif name == 's_slices':
            for ln in range(0, 5):
                for i in range(-6, 7):
                    for j in range(-6, 7):
                        yield dict(xs=list(range(10, 10 + ln)), i=i, j=j)
        elif name == 's_index':
            for ln in range(0, 5):
                for i in range(-6, 7):
                    yield dict(xs=list(range(10, 10 + ln)), i=i)
        elif name == 's_strs':
            for _ in range(n):
                yield dict(parts=[rng.choice(['', 'x', '/', 'ab', "'", '\\\\']) for _ in range(rng.randint(0, 6))],
                           sep=rng.choice(['/', '', 'ab']))
        elif name == 'r_divmod':
            for a in range(-7, 8):
                for b in range(-4, 5):
                    yield dict(a=a, b=b)
        elif name == 'r_index':
            for ln in range(0, 5):
                for i in range(-6, 7):
                    yield dict(xs=list(range(10, 10 + ln)), i=i)
        elif name == 'r_try':
            for ln in range(0, 4):
                for i in range(-5, 6):
                    for j in (-3, 0, 1, 20):
                        yield dict(xs=list(range(10, 10 + ln)), i=i, j=j)
        elif name == 'r_raise':
            for a in range(-3, 10):
                yield dict(n=a)
        elif name in ('r_loop', 'r_uncaught'):
            for _ in range(n):
                yield dict(xs=_ints(rng, rng.randint(0, 5), -2, 3), n=rng.randint(-1, 7))
        elif name == 'r_comp':
            for _ in range(n):
                yield dict(xs=_ints(rng, rng.randint(0, 6)), k=rng.randint(-3, 6))
        elif name == 'r_sorted':
            for _ in range(n):
                yield dict(ps=[(rng.randint(0, 9), rng.randint(0, 3)) for _ in range(rng.randint(0, 7))],
                           up=rng.random() < 0.5)
        elif name == 'r_enum':
            for _ in range(n):
                yield dict(xs=_ints(rng, rng.randint(0, 5)), start=rng.randint(-2, 3))
        elif name == 'r_opt':
            for _ in range(n):
                yield dict(n=rng.choice([None, None, -1, 0, 1, 2, 3, 9]), xs=_ints(rng, rng.randint(0, 5)))
        elif name == 'w_sum':
            for a in range(-2, 60):
                yield dict(n=a)
        elif name == 'w_drain':
            for _ in range(n):
                yield dict(xs=_ints(rng, rng.randint(0, 7), -3, 9), lim=rng.randint(-3, 9))
        elif name == 'w_gcd':
            for a in range(-6, 30):
                for b in range(-6, 12):
                    yield dict(a=a, b=b)
        elif name == 'w_try':
            for _ in range(n):
                yield dict(xs=_ints(rng, rng.randint(0, 6)), i=rng.randint(-8, 7))
        elif name == 'w_diverges':
            for a in (-5, -1) if quick else (-5, -1, 0):
                yield dict(n=a)
        elif name.startswith('Box.'):
            ks = ['a', 'b', 'c', '']
            for _ in range(2 * n):
                st = {'d': {k: (rng.randint(-3, 9), rng.randint(-3, 9)) for k in rng.sample(ks, rng.randint(0, 4))},
                      'n': rng.randint(-2, 8)}
                case = {'self': st}
                m = name[4:]
                if m in ('put',):
                    case.update(k=rng.choice(ks), v=rng.randint(-2, 5))
                elif m == 'drop':
                    case.update(k=rng.choice(ks))
                elif m == 'bump':
                    case.update(k=rng.choice(ks), by=rng.choice([0, 1, 7, -3, 200]))
                elif m == 'big':
                    case.update(lim=rng.randint(-3, 9))
                elif m == 'fill':
                    case.update(ks=[rng.choice(ks) for _ in range(rng.randint(0, 5))], v=rng.randint(-2, 5))
                elif m == 'count_down_map':
                    case.update(m=None if rng.random() < 0.2 else
                                {k: rng.randint(-1, 4) for k in rng.sample(ks, rng.randint(0, 3))})
                elif m == 'count_down_keys':
                    case.update(m=None if rng.random() < 0.2 else [rng.choice(ks) for _ in range(rng.randint(0, 5))])
                yield case
    return fam


def snippet_functions():
    """-> (generated Lean text, [(spec, 'snippets', python function)])"""
    text, infos = py2lean.translate_source(SNIPPET_SRC, SNIPPET_SPECS, 'snippets', '<snippets>')
    for i in infos:
        if i.get('error'):
            raise common.InfraError('snippet not translated: %s: %s' % (i['function'], i['error']))
    ns = {}
    exec(compile(SNIPPET_SRC, '<snippets>', 'exec'), ns)
    for sp in SNIPPET_SPECS:
        FAMILIES[sp['lean_name']] = fam_snippet(sp['lean_name'])

    def lookup(q):
        obj = ns[q.split('.')[0]]
        for part in q.split('.')[1:]:
            obj = getattr(obj, part)
        return obj
    return text, [(sp, 'snippets', lookup(sp['qualname'])) for sp in SNIPPET_SPECS]


# ------------------------------------------------------------------ driver
def _ext_modules(pids):
    """extension modules of the translator (spec key `ext`) used by these properties: each brings its own runtime
    module (`RT_IMPORT`), argument families (`FAMILIES`) and, for classes, `call_method`"""
    import importlib
    names = []
    for pid in pids:
        for sp in srctie_specs.SPECS.get(pid, []):
            e = sp.get('ext') or (sp.get('cls') or {}).get('ext')
            if e and e not in names:
                names.append(e)
    return [importlib.import_module(e) for e in names]


def _ext_imports(pids):
    return [m.RT_IMPORT for m in _ext_modules(pids)]


def build_driver(pids, repo, snippets=False):
    """-> (lean source of the scratch driver, [(spec, translator, real function)])"""
    mods = {}
    for pid in pids:
        for spec in srctie_specs.SPECS.get(pid, []):
            mods.setdefault(spec['module'], [])
            if spec not in mods[spec['module']]:
                mods[spec['module']].append(spec)
    heap = any((sp.get('cls') or {}).get('heap') for ss in mods.values() for sp in ss)
    body = ['import BoltonsVerif.PyHeap\nimport BoltonsVerif.C10.Model' if heap else 'import BoltonsVerif.PyRt'] + [
        'import BoltonsVerif.%s' % rt for rt in _ext_imports(pids)] + ['set_option linter.all false', '']
    fns = []
    for module_name in sorted(mods):
        text, infos = py2lean.translate_module(module_name, mods[module_name], repo)
        for i in infos:
            if i.get('error'):
                raise common.InfraError('not translated: %s: %s' % (i['function'], i['error']))
        text = text.replace('import BoltonsVerif.PyRt\n', '').replace('import BoltonsVerif.PyHeap\n', '')
        for rt in _ext_imports(pids):
            text = text.replace('import BoltonsVerif.%s\n' % rt, '')
        body.append(text)
        mod = sys.modules[module_name]
        for spec in mods[module_name]:
            obj = mod
            for part in spec['qualname'].split('.'):
                obj = getattr(obj, part)
            fns.append((spec, module_name.split('.')[-1], obj))
    if snippets:
        text, sfns = snippet_functions()
        body.append(text.replace('import BoltonsVerif.PyRt\n', ''))
        fns.extend(sfns)
    body.append(CODEC)
    if heap:
        body.append(HEAP_CODEC)
    arms = []
    FUEL = 40
    for n, (spec, short, _) in enumerate(fns):
        tr = _translator(spec)
        if spec.get('cls') is not None:
            # a method: the inputs are the state fields, then the parameters; the output is the Except value
            # (or the plain value), then the fields of the new state when the method changes it
            cls = spec['cls']
            fields = [(py2lean.lean_field(a), py2lean.parse_type(t)) for a, t in cls['state'].items()]
            params = [(pn, pt) for pn, pt in tr.params if pt != ('Obj',)]
            names = ['f_' + f for f, _ in fields] + ['a_' + pn for pn, _ in params]
            types = [lean_type(t) for _, t in fields] + [lean_type(t) for _, t in params]
            argt = types[0] if len(types) == 1 else '(' + ' × '.join(types) + ')'
            pat = names[0] if len(names) == 1 else '(' + ', '.join(names) + ')'
            full = 'Src.%s.%s' % (short, spec['lean_name'])
            st = '{ %s }' % ', '.join('%s := f_%s' % (f, f) for f, _ in fields)
            call = '(%s %s%s%s %s)' % (full, ('%d ' % FUEL) if tr.fuel else '', '400 ' if tr.loop_fuel else '', st,
                                       ' '.join('a_' + pn for pn, _ in params))
            val = 'encExcept r' if tr.raises else 'Codec.enc r'
            if tr.cls_mut:
                val = val.replace(' r', ' r.1') + ' ++ ' + ' ++ '.join('Codec.enc r.2.%s' % f for f, _ in fields)
            arms.append('  | %d :: t => (match (Codec.dec t : Option (%s × List Int)) with\n'
                        '    | some (%s, []) => let r := %s; showInts ([1] ++ %s)\n'
                        '    | _ => "bad-args")' % (n, argt, pat, call, val))
            continue
        names = [p for p, _ in tr.params]
        types = [lean_type(t) for _, t in tr.params]
        argt = types[0] if len(types) == 1 else '(' + ' × '.join(types) + ')'
        pat = names[0] if len(names) == 1 else '(' + ', '.join(names) + ')'
        call = ' '.join(names)
        full = 'Src.%s.%s' % (short, spec['lean_name'])
        encf = 'encExcept' if tr.raises else 'Codec.enc'
        if tr.loop_fuel:
            arms.append('  | %d :: t => (match (Codec.dec t : Option (%s × List Int)) with\n'
                        '    | some (%s, []) => showInts ([1] ++ encExcept (%s 400 %s))\n'
                        '    | _ => "bad-args")' % (n, argt, pat, full, call))
            continue
        arms.append('  | %d :: t => (match (Codec.dec t : Option (%s × List Int)) with\n'
                    '    | some (%s, []) => showInts (Codec.enc (%s_pre %s) ++ %s (%s %s))\n'
                    '    | _ => "bad-args")' % (n, argt, pat, full, call, encf, full, call))
    body.append('def handle : List Int → String\n' + '\n'.join(arms) + '\n  | _ => "bad-function"\n')
    body.append('''partial def loop (h : IO.FS.Stream) (out : IO.FS.Stream) : IO Unit := do
  let line ← h.getLine
  if line.isEmpty then return
  match parseInts line with
  | some l => out.putStrLn ("R " ++ handle l)
  | none => out.putStrLn "R bad-line"
  loop h out

def main : IO Unit := do
  loop (← IO.getStdin) (← IO.getStdout)
''')
    return '\n'.join(body), fns


_PARSED = {}


def _translator(spec):
    import ast
    if spec['module'] == 'snippets':
        tree = ast.parse(SNIPPET_SRC)
        defs = {n.name: n for n in tree.body if isinstance(n, ast.FunctionDef)}
        return py2lean.FnTranslator(py2lean._find_function(tree, spec['qualname']), spec, defs, tree)
    return py2lean.FnTranslator(py2lean._find_function(_parse(spec['module']), spec['qualname']), spec,
                                _module_defs(spec['module']), _parse(spec['module']))


def _parse(module_name):
    import ast
    import importlib
    if module_name not in _PARSED:
        mod = importlib.import_module(module_name)
        _PARSED[module_name] = ast.parse(open(mod.__file__).read())
    return _PARSED[module_name]


def _module_defs(module_name):
    import ast
    return {n.name: n for n in _parse(module_name).body if isinstance(n, ast.FunctionDef)}


def run(pids, quick=False, seed=0, verbose=True, snippets=False):
    """-> (number of mismatches, report dict)"""
    common.ensure_repo_on_path()
    ext = {}     # dispatch: properties whose specs are translated by a module of their own (spec key `translator`)
    for pid in pids:
        for sp in srctie_specs.SPECS.get(pid, []):
            if sp.get('translator'):
                ext.setdefault(sp['translator'], [])
                if pid not in ext[sp['translator']]:
                    ext[sp['translator']].append(pid)
    if ext:
        import importlib
        rest = [p for p in pids if not any(p in v for v in ext.values())]
        n_all, rep_all = (run(rest, quick, seed, verbose, snippets) if (rest or snippets) else (0, {'_mismatches': []}))
        for mod, ps in ext.items():
            _m = importlib.import_module(mod)
            if hasattr(_m, 'selftest'):
                n1, rep1 = _m.selftest(ps, quick=quick, seed=seed, verbose=verbose)
            else:                                # a translator module with its self-test in <module>_selftest.run
                n1, rep1 = importlib.import_module(mod + '_selftest').run(ps, quick=quick, seed=seed, verbose=verbose)
            n_all += n1
            mm = rep_all.get('_mismatches', []) + rep1.pop('_mismatches', [])
            rep_all.update(rep1)
            rep_all['_mismatches'] = mm
        return n_all, rep_all
    t0 = time.time()
    src, fns = build_driver(pids, common.REPO, snippets)
    for m in _ext_modules(pids):
        FAMILIES.update(m.FAMILIES)
    rng = random.Random('py2lean-selftest-%d' % seed)
    lines, meta = [], []
    for n, (spec, short, fn) in enumerate(fns):
        tr_params = None
        for case in FAMILIES[spec['lean_name']](rng, quick):
            case = {(py2lean.mangle(k) if k in spec['params'] else k): v for k, v in case.items()}
            if tr_params is None:
                f = _translator(spec)
                tr_params = f.params
                rtype = f.R
            toks = [n]
            if spec.get('cls') is not None:
                for a, tt in spec['cls']['state'].items():
                    enc(py2lean.parse_type(tt), case['self'][a], toks)
            for name, t in tr_params:
                if t != ('Obj',):
                    enc(t, case[name], toks)
            lines.append(' '.join(map(str, toks)))
            meta.append((spec, fn, case, rtype))
    tmp = tempfile.mkdtemp(prefix='py2lean-selftest-')
    try:
        drv = os.path.join(tmp, 'SrcSelfTest.lean')
        with open(drv, 'w') as fh:
            fh.write(src)
        with common.BuildLock():
            rc, out = common._run(['lake', 'build', 'BoltonsVerif.PyRt', 'BoltonsVerif.PyHeap', 'BoltonsVerif.C10.Model'] + [
                'BoltonsVerif.%s' % rt for rt in _ext_imports(pids)])
        if rc != 0:
            raise common.InfraError('cannot build BoltonsVerif.PyRt: ' + out[-500:])
        t1 = time.time()
        p = subprocess.run(['lake', 'env', 'lean', '--run', drv], cwd=common.LEAN, input='\n'.join(lines) + '\n',
                           stdout=subprocess.PIPE, stderr=subprocess.STDOUT, text=True, timeout=1800)
        t_lean = time.time() - t1
    finally:
        shutil.rmtree(tmp, ignore_errors=True)
    outs = [ln[2:] for ln in p.stdout.split('\n') if ln.startswith('R ')]     # other lines: Lean warnings
    if p.returncode != 0 or len(outs) != len(lines):
        raise common.InfraError('scratch driver failed (rc %s, %d lines for %d inputs): %s' % (
            p.returncode, len(outs), len(lines), p.stdout[-1500:]))
    report = {}
    mismatches = []
    for (spec, fn, case, rtype), got in zip(meta, outs):
        r = report.setdefault(spec['lean_name'], {'cases': 0, 'compared': 0, 'pre_false': 0, 'python_raises': 0,
                                                 'mismatches': 0})
        r['cases'] += 1
        if got.startswith('bad'):
            raise common.InfraError('driver rejected a line: %s for %r' % (got, case))
        toks = [int(x) for x in got.split()]
        pre, val = toks[0], toks[1:]
        bad = None
        if spec.get('cls') is not None and spec['cls'].get('heap'):
            # heap mode: result / exception class and the whole object graph after the call, up to renaming of addresses
            want = call_heap_method(spec, fn, case)
            hf = spec['cls']['heap'].get('field', 'heap')
            for a, tt in spec['cls']['state'].items():      # callables are not encoded back
                t = py2lean.parse_type(tt)
                if (t[0] == 'Option' and t[1] is not None and t[1][0] == 'Fun') or t[0] == 'Fun':
                    want = [w if not (isinstance(w, tuple) and w and w[0] == a) else (a, None) for w in want]
            if method_mutates(spec):
                got_c = heap_lean_result(spec, rtype, val)
            else:                               # a method that changes nothing returns its value only
                want = want[:1]
                got_c = [list(('exc', val[1]) if val[0] == 0 else ('ok', dec(rtype, val, 1)[0]))]
            if spec.get('key_locals') is not None:      # round 3e: yielded pairs: tuples and lists are one notation
                def _tl(v):
                    return [_tl(x) for x in v] if isinstance(v, (list, tuple)) else v
                want, got_c = _tl(want), _tl(got_c)
            if spec.get('key_locals') is not None and list(got_c[0]) == ['exc', 7]:
                # round 3e: the checked unboxing of a key failed (`PyExc.Other`): the translation says "not modelled" (a
                # state outside the class's reach: `root[PREV]` is not a cell although the dict is not empty); counted
                r['unmodelled'] = r.get('unmodelled', 0) + 1
                continue
            r['compared'] += 1
            if want[0][0] == 'exc':
                r['python_raises'] += 1
            if want != got_c:
                r['mismatches'] += 1
                mismatches.append((spec['lean_name'], case, 'Python %r but Lean %r' % (want, got_c)))
            continue
        if spec.get('cls') is not None:
            # raising mode: the exception class (or the value) AND the state after the call must agree
            (kind, res), after = call_method(spec, fn, case)
            if kind == 'exc' and res == 'CaseTimeout':
                kind = 'timeout' 
            try:
                if kind == 'exc':
                    r['python_raises'] += 1
                    want = [0, EXC_CODES.get(res, 7)]
                    if not spec.get('raises'):
                        want = None             # total mode: not compared
                else:
                    want = ([1] if spec.get('raises') else []) + canon(rtype, res)
                if want is not None and method_mutates(spec):
                    for a, tt in spec['cls']['state'].items():
                        want = want + canon(py2lean.parse_type(tt), after[a])
            except Exception as e:  # noqa: BLE001
                want = 'unencodable %r / %r (%s)' % (res, after, e)
            if want is not None:
                r['compared'] += 1
                if kind == 'timeout':
                    bad = 'Python does not terminate'
                elif want != val:
                    bad = 'Python %s %r, state after %r (stream %s) but Lean stream %s' % (kind, res, after, want, val)
            if bad:
                r['mismatches'] += 1
                mismatches.append((spec['lean_name'], case, bad))
            continue
        kind, res = call_real(spec, fn, case)
        if spec.get('raises') and pre != 0:
            # raising mode: the exception class is part of the result
            if kind == 'exc':
                r['python_raises'] += 1
            r['compared'] += 1
            try:
                want = [0, EXC_CODES.get(res, 7)] if kind == 'exc' else [1] + canon(rtype, res)
            except Exception as e:  # noqa: BLE001
                want = 'unencodable %r (%s)' % (res, e)
            if res == 'CaseTimeout':
                # a loop that does not end: the Lean side must have run out of fuel (and only then)
                if val != [0, 8]:
                    bad = 'Python does not terminate but Lean stream %s' % (val,)
            elif want != val:
                bad = 'Python %s %r (stream %s) but Lean stream %s' % (kind, res, want, val)
            if bad:
                r['mismatches'] += 1
                mismatches.append((spec['lean_name'], case, bad))
            continue
        if pre == 0:
            r['pre_false'] += 1
            if kind == 'ok':
                bad = 'generated precondition is false but Python returns %r' % (res,)
            elif _guards_pass(spec, case):
                bad = 'generated precondition is false but every guard call accepts the arguments'
        elif kind == 'exc':
            r['python_raises'] += 1
            if res == 'CaseTimeout':
                bad = 'Python does not terminate'
            elif spec.get('guards') and not _guards_pass(spec, case):
                bad = 'generated precondition is true but a guard raises'
        else:
            r['compared'] += 1
            try:
                want = canon(rtype, res)
            except Exception as e:  # noqa: BLE001
                want = 'unencodable %r (%s)' % (res, e)
            if want != val:
                bad = 'Python %r (stream %s) but Lean stream %s' % (res, want, val)
        if bad:
            r['mismatches'] += 1
            mismatches.append((spec['lean_name'], case, bad))
    report['_mismatches'] = [{'function': n, 'case': c, 'what': b} for n, c, b in mismatches[:5]]
    report['_wall_s'] = round(time.time() - t0, 2)
    report['_lean_s'] = round(t_lean, 2)
    if verbose:
        for name, r in report.items():
            print(name, r)
        for name, case, bad in mismatches[:20]:
            print('MISMATCH %s %r: %s' % (name, case, bad))
    return len(mismatches), report


_GUARD_CALLS = {}
_INLINE_CHECKS = {}
_MUT = {}


def method_mutates(spec):
    if spec['lean_name'] not in _MUT:
        _MUT[spec['lean_name']] = _translator(spec).cls_mut
    return _MUT[spec['lean_name']]



def _guards_pass(spec, case):
    """do the guard calls at the head of the function accept these arguments?  Answered by CALLING the real
    guard functions of the module under test with the arguments the source passes them (used to tell a
    guard's exception from a later one, e.g. range() step 0)"""
    import ast
    import importlib
    mod = importlib.import_module(spec['module'])
    key = (spec['module'], spec['qualname'])
    if key not in _GUARD_CALLS:
        tr = py2lean.FnTranslator(
            py2lean._find_function(_parse(spec['module']), spec['qualname']), spec,
            _module_defs(spec['module']))
        _GUARD_CALLS[key] = tr.guard_calls
        _INLINE_CHECKS[key] = [compile(ast.Expression(t), '<inline validation>', 'eval') for t in tr.inline_checks]
    for code in _INLINE_CHECKS[key]:
        # `if <test on parameters>: raise ...` written inline in the head (a guard is the identity on ints)
        if eval(code, {}, {p: case[py2lean.mangle(p)] for p in spec['params']}):
            return False
    for call in _GUARD_CALLS[key]:
        g = getattr(mod, call.func.id)
        args = [case[py2lean.mangle(call.args[0].id)]] + [ast.literal_eval(a) for a in call.args[1:]]
        kw = {k.arg: ast.literal_eval(k.value) for k in call.keywords}
        try:
            g(*args, **kw)
        except Exception:  # noqa: BLE001
            return False
    return True


# ------------------------------------------------------------------ the subset boundary: what must be refused
REJECT = [
    ('while loop', 'def f(n):\n    while n > 0:\n        n -= 1\n    return n\n', {'n': 'Int'}, 'Int'),
    ('alias of a mutated list', 'def f(n):\n    a = []\n    b = a\n    a.append(n)\n    return b\n', {'n': 'Int'}, 'List Int'),
    ('in-place += on a list', 'def f(n):\n    a = []\n    a += [n]\n    return a\n', {'n': 'Int'}, 'List Int'),
    ('mutation of the iterated list', 'def f(n):\n    a = [n]\n    for x in a:\n        a.append(x)\n    return a\n',
     {'n': 'Int'}, 'List Int'),
    ('mutation of a parameter', 'def f(a):\n    a.append(1)\n    return a\n', {'a': 'List Int'}, 'List Int'),
    ('module-level name', 'def f(n):\n    return n + LIMIT\n', {'n': 'Int'}, 'Int'),
    ('call of an unknown function', 'def f(n):\n    return abs(n)\n', {'n': 'Int'}, 'Int'),
    ('true division', 'def f(n):\n    return n / 2\n', {'n': 'Int'}, 'Int'),
    ('and/or used for its value', 'def f(n, m):\n    return n or m\n', {'n': 'Int', 'm': 'Int'}, 'Int'),
    ('falling off the end', 'def f(n):\n    if n > 0:\n        return n\n', {'n': 'Int'}, 'Int'),
    ('raise', 'def f(n):\n    if n < 0:\n        raise ValueError(n)\n    return n\n', {'n': 'Int'}, 'Int'),
    ('try', 'def f(n):\n    try:\n        return n\n    except Exception:\n        return 0\n', {'n': 'Int'}, 'Int'),
    ('comprehension', 'def f(n):\n    return [x for x in range(n)]\n', {'n': 'Int'}, 'List Int'),
    ('shadowed builtin', 'def f(len):\n    return len\n', {'len': 'Int'}, 'Int'),
    ('mixed types in one variable', 'def f(n):\n    x = n\n    x = [n]\n    return n\n', {'n': 'Int'}, 'Int'),
    ('keyword arguments', 'def f(n):\n    return min(n, 1, key=None)\n', {'n': 'Int'}, 'Int'),
    ('default-changing decorator', '@staticmethod\ndef f(n):\n    return n\n', {'n': 'Int'}, 'Int'),
    ('slice with a step', 'def f(a):\n    return a[::2]\n', {'a': 'List Int'}, 'List Int'),
    ('nested function', 'def f(n):\n    def g():\n        return n\n    return n\n', {'n': 'Int'}, 'Int'),
    ('truth value of Option Int', 'def f(n):\n    x = None\n    x = n\n    if x:\n        return 1\n    return 0\n',
     {'n': 'Int'}, 'Int'),
]


# the boundary of the round-3 subset (raising mode, object state): (name, source, qualname, spec extras)
_RBOX = {'name': 'B', 'lean_name': 'B', 'tparams': ['κ'], 'deceq': ['κ'],
         'state': {'d': 'Dict κ (Int × Int)', 'n': 'Int'}}
_RBOX['methods'] = [
    {'py': 'put', 'lean_name': 'B.put', 'qualname': 'B.put', 'params': {'k': 'κ'}, 'result': 'Int', 'raises': True,
     'kind': 'function', 'method': True, 'cls': _RBOX, 'module': 'x'},
    {'py': 'rec', 'lean_name': 'B.rec', 'qualname': 'B.rec', 'params': {'k': 'κ'}, 'result': 'Int', 'raises': True,
     'kind': 'function', 'method': True, 'cls': _RBOX, 'module': 'x'}]
_RBOX2 = {'name': 'B', 'lean_name': 'B', 'tparams': ['κ'], 'deceq': ['κ'],
          'state': {'d': 'Dict κ (Int × Int)', 'n': 'Int'}}
_RBOX2['methods'] = [
    {'py': 'gen', 'lean_name': 'B.gen', 'qualname': 'B.gen', 'params': {}, 'result': 'κ', 'raises': True,
     'kind': 'generator', 'method': True, 'cls': _RBOX2, 'module': 'x'}]
_PUT = '    def put(self, k):\n        self.d[k] = [1, 2]\n        return 1\n'
REJECT2 = [
    ('a lookup that can raise under `and`', 'def f(xs, i):\n    return i >= 0 and xs[i] > 0\n',
     'f', {'params': {'xs': 'List Int', 'i': 'Int'}, 'result': 'Bool', 'raises': True}),
    ('a division that can raise inside a comprehension', 'def f(xs):\n    return [10 // x for x in xs]\n',
     'f', {'params': {'xs': 'List Int'}, 'result': 'List Int', 'raises': True}),
    ('try ... finally', 'def f(n):\n    try:\n        return 1 // n\n    finally:\n        pass\n',
     'f', {'params': {'n': 'Int'}, 'result': 'Int', 'raises': True}),
    ('except Exception', 'def f(n):\n    try:\n        return 1 // n\n    except Exception:\n        return 0\n',
     'f', {'params': {'n': 'Int'}, 'result': 'Int', 'raises': True}),
    ('except ... as e', 'def f(n):\n    try:\n        return 1 // n\n    except ZeroDivisionError as e:\n        return 0\n',
     'f', {'params': {'n': 'Int'}, 'result': 'Int', 'raises': True}),
    ('a tuple of exception classes', 'def f(n):\n    try:\n        return 1 // n\n    except (KeyError, ZeroDivisionError):\n        return 0\n',
     'f', {'params': {'n': 'Int'}, 'result': 'Int', 'raises': True}),
    ('an exception class outside PyExc', 'def f(n):\n    if n:\n        raise RuntimeError()\n    return n\n',
     'f', {'params': {'n': 'Int'}, 'result': 'Int', 'raises': True}),
    ('bare re-raise', 'def f(n):\n    try:\n        return 1 // n\n    except ZeroDivisionError:\n        raise\n',
     'f', {'params': {'n': 'Int'}, 'result': 'Int', 'raises': True}),
    ('an exception message that could raise', 'def f(n, xs):\n    if n:\n        raise ValueError(xs[n])\n    return n\n',
     'f', {'params': {'n': 'Int', 'xs': 'List Int'}, 'result': 'Int', 'raises': True}),
    ('while loop (raising mode)', 'def f(n):\n    while n > 0:\n        n -= 1\n    return n\n',
     'f', {'params': {'n': 'Int'}, 'result': 'Int', 'raises': True}),
    ('while loop inside a for loop', 'def f(n):\n    for i in range(n):\n        while n > 0:\n            n -= 1\n    return n\n',
     'f', {'params': {'n': 'Int'}, 'result': 'Int', 'raises': True, 'loop_fuel': True}),
    ('two for clauses in a comprehension', 'def f(xs):\n    return [x + y for x in xs for y in xs]\n',
     'f', {'params': {'xs': 'List Int'}, 'result': 'List Int', 'raises': True}),
    ('lambda outside sorted(key=)', 'def f(xs):\n    g = lambda x: x\n    return xs\n',
     'f', {'params': {'xs': 'List Int'}, 'result': 'List Int', 'raises': True}),
    ('comprehension variable shadowing a local', 'def f(xs):\n    x = 1\n    return [x for x in xs]\n',
     'f', {'params': {'xs': 'List Int'}, 'result': 'List Int', 'raises': True}),
    ('alias of a mutable attribute in a mutating method',
     'class B:\n    def m(self, k):\n        x = self.d\n        self.d[k] = [1, 2]\n        return len(x)\n',
     'B.m', {'params': {'k': 'κ'}, 'result': 'Int', 'raises': True, 'cls': _RBOX, 'method': True}),
    ('an item of a mutable attribute kept across a mutation',
     'class B:\n    def m(self, k):\n        x = self.d[k]\n        self.d[k][0] += 1\n        return x[0]\n',
     'B.m', {'params': {'k': 'κ'}, 'result': 'Int', 'raises': True, 'cls': _RBOX, 'method': True}),
    ('loop over object state that the body changes',
     'class B:\n    def m(self, k):\n        for j in self.d:\n            self.d[j] = [0, 0]\n        return 1\n',
     'B.m', {'params': {'k': 'κ'}, 'result': 'Int', 'raises': True, 'cls': _RBOX, 'method': True}),
    ('loop over object state while a called method changes it',
     'class B:\n' + _PUT + '    def m(self, k):\n        for j in self.d:\n            self.put(j)\n        return 1\n',
     'B.m', {'params': {'k': 'κ'}, 'result': 'Int', 'raises': True, 'cls': _RBOX, 'method': True}),
    ('a state-changing call inside an expression',
     'class B:\n' + _PUT + '    def m(self, k):\n        return 1 + self.put(k)\n',
     'B.m', {'params': {'k': 'κ'}, 'result': 'Int', 'raises': True, 'cls': _RBOX, 'method': True}),
    ('an attribute the spec does not declare',
     'class B:\n    def m(self, k):\n        return self.zzz\n',
     'B.m', {'params': {'k': 'κ'}, 'result': 'Int', 'raises': True, 'cls': _RBOX, 'method': True}),
    ('assignment to an undeclared attribute',
     'class B:\n    def m(self, k):\n        self.zzz = 1\n        return 1\n',
     'B.m', {'params': {'k': 'κ'}, 'result': 'Int', 'raises': True, 'cls': _RBOX, 'method': True}),
    ('a recursive method without fuel',
     'class B:\n    def rec(self, k):\n        return self.rec(k)\n',
     'B.rec', {'params': {'k': 'κ'}, 'result': 'Int', 'raises': True, 'cls': _RBOX, 'method': True, 'py': 'rec',
               'lean_name': 'B.rec'}),
    ('a call of a method that is not in the spec',
     'class B:\n    def m(self, k):\n        return self.other(k)\n',
     'B.m', {'params': {'k': 'κ'}, 'result': 'Int', 'raises': True, 'cls': _RBOX, 'method': True}),
    ('dict lookup in the total mode',
     'class B:\n    def m(self, k):\n        return self.d[k][0]\n',
     'B.m', {'params': {'k': 'κ'}, 'result': 'Int', 'raises': False, 'cls': _RBOX, 'method': True}),
    ('storing a value into a method of another object',
     'class B:\n    def m(self, k):\n        self.d[k].append(1)\n        return 1\n',
     'B.m', {'params': {'k': 'κ'}, 'result': 'Int', 'raises': True, 'cls': _RBOX, 'method': True}),
    ('a variable index into a fixed-length list',
     'class B:\n    def m(self, k):\n        return self.d[k][self.n]\n',
     'B.m', {'params': {'k': 'κ'}, 'result': 'Int', 'raises': True, 'cls': _RBOX, 'method': True}),
    ('a generator object kept in a variable (one-shot iterator)',
     'class B:\n    def gen(self):\n        for j in self.d:\n            yield j\n'
     '    def m(self, k):\n        it = self.gen()\n        return len(list(it)) + len(list(it))\n',
     'B.m', {'params': {'k': 'κ'}, 'result': 'Int', 'raises': True, 'cls': _RBOX2, 'method': True}),
    ('a float', 'def f(n):\n    return int(1 / n)\n', 'f', {'params': {'n': 'Int'}, 'result': 'Int', 'raises': True}),
    ('iteration over a set-valued expression', 'def f(xs):\n    out = []\n    for x in set(xs):\n        out.append(x)\n    return out\n',
     'f', {'params': {'xs': 'List Int'}, 'result': 'List Int', 'raises': True}),
    ('use of a possibly-None value without a test', 'def f(n):\n    return n + 1\n',
     'f', {'params': {'n': 'Option Int'}, 'result': 'Int', 'raises': True}),
    ('narrowing lost by an assignment', 'def f(n, m):\n    if n is not None:\n        n = m\n        return n + 1\n    return 0\n',
     'f', {'params': {'n': 'Option Int', 'm': 'Option Int'}, 'result': 'Int', 'raises': True}),
]


# the boundary of heap mode (round 3b): a class with an object store; each method must be refused
_HBOX = {'name': 'H', 'lean_name': 'H', 'tparams': ['κ', 'ν'], 'deceq': ['κ'], 'inhabited': ['ν'],
         'heap': {'field': 'heap', 'key': 'κ', 'val': 'ν'}, 'virtual': ['heap', 'd'], 'dict_base': 'd',
         'sentinels': ['_MISSING'], 'ignore_with': ['_lock'],
         'state': {'heap': 'Heap', 'd': 'Dict κ ν', 'n': 'Int', '_tab': 'Dict κ Val', '_anchor': 'Val'}, 'methods': []}
_HP = {'params': {'k': 'κ', 'v': 'ν'}, 'result': 'None', 'raises': True, 'cls': _HBOX, 'method': True}
REJECT3 = [
    ('an allocation inside an expression', 'self._anchor[0] = [k, v]'),
    ('a nested list display', 'x = [k, [v]]\n        self._anchor = x'),
    ('unpacking into store places', 'a = self._anchor\n        a[0], a[1] = a'),
    ('storing under a dynamically typed key', 'self._tab[self._anchor[2]] = self._anchor'),
    ('a dynamically typed value where a value of the item type is expected',
     'dict.__setitem__(self, k, self._anchor[3])'),
    ('a lock the spec does not declare transparent', 'with self._other:\n            self.n = 1'),
    ('a slice of a cell', 'x = self._anchor[1:]\n        self._anchor = x'),
    ('truth value of a dynamically typed value', 'if self._anchor[2]:\n            self.n = 1'),
    ('bare raise outside a handler', 'raise'),
    ('a list display stored in the dict', 'self._tab[k] = [k, v]'),
    ('arithmetic on a dynamically typed value', 'self.n = self._anchor[0] + 1'),
    ('a starred display', 'x = [*self._tab]\n        self._anchor = x'),
    ('chained assignment whose value is evaluated twice', 'self._anchor[0] = self._anchor[1] = self._tab.pop(k)'),
]


# ... and of the abstract backend / counters / cell unpacking (target B)
_HBOX2 = {'name': 'H', 'lean_name': 'H', 'tparams': ['κ', 'ν', 'β'], 'deceq': ['κ'], 'inhabited': ['ν'],
          'heap': {'field': 'heap', 'key': 'κ', 'val': 'ν'}, 'virtual': ['heap'], 'sentinels': ['_MISSING'],
          'backend': {'attr': '_pq', 'type': 'β', 'push': '_push', 'pop': '_pop'},
          'state': {'heap': 'Heap', '_pq': 'β', 'n': 'Int', '_c': 'Counter', '_anchor': 'Val'}, 'methods': []}
_HP2 = {'params': {'k': 'κ', 'v': 'ν'}, 'result': 'None', 'raises': True, 'cls': _HBOX2, 'method': True}
REJECT3B = [
    ('an item of the backend other than [0]', 'self._anchor = self._pq[1]'),
    ('the backend used as a value', 'x = self._pq\n        self._anchor = x[0]'),
    ('next() inside an expression', 'self.n = next(self._c) + 1'),
    ('next() of something that is not a declared counter', 'self.n = next(self._pq)'),
    ('the backend pop inside an expression', 'self._anchor = self._pop(self._pq) if self.n else self._anchor'),
    ('the backend push with another container', 'self._push(self._anchor, self._anchor)'),
    ('unpacking a cell into a statically typed variable', 'self.n, b = self._anchor'),
    ('len of the backend', 'self.n = len(self._pq)'),
]


def reject_tests3(verbose=True):
    import ast
    bad = []
    for name, body in REJECT3 + REJECT3B:
        src = 'class H(dict):\n    def m(self, k, v):\n        %s\n' % body
        spec = {'module': 'x', 'qualname': 'H.m', 'lean_name': 'H.m', 'kind': 'function', 'tie_theorem': '-', 'py': 'm'}
        spec.update(_HP2 if (name, body) in REJECT3B else _HP)
        tree = ast.parse(src)
        try:
            fdef = py2lean._find_function(tree, 'H.m')
            text = py2lean.FnTranslator(fdef, spec, {}, tree).emit()
            bad.append((name, text))
        except (py2lean.Unsupported, py2lean._Unknown):
            pass
    if verbose:
        print('subset boundary (heap mode): %d/%d snippets refused' % (len(REJECT3 + REJECT3B) - len(bad), len(REJECT3 + REJECT3B)))
        for name, text in bad:
            print('ACCEPTED (should be refused): %s\n%s' % (name, text))
    return len(bad)


def reject_tests2(verbose=True):
    import ast
    bad = []
    for name, src, qual, extra in REJECT2:
        spec = {'module': 'x', 'qualname': qual, 'lean_name': qual, 'kind': 'function', 'tie_theorem': '-'}
        spec.update(extra)
        tree = ast.parse(src)
        try:
            fdef = py2lean._find_function(tree, qual)
            text = py2lean.FnTranslator(fdef, spec, {}, tree).emit()
            bad.append((name, text))
        except (py2lean.Unsupported, py2lean._Unknown):
            pass
    if verbose:
        print('subset boundary (raising mode / object state): %d/%d snippets refused' % (
            len(REJECT2) - len(bad), len(REJECT2)))
        for name, text in bad:
            print('ACCEPTED (should be refused): %s\n%s' % (name, text))
    return len(bad)


def reject_tests(verbose=True):
    """every snippet above lies outside the subset: the translator must raise Unsupported, not emit Lean"""
    import ast
    bad = []
    for name, src, params, result in REJECT:
        spec = {'module': 'x', 'qualname': 'f', 'lean_name': 'f', 'params': params, 'kind': 'function',
                'result': result, 'tie_theorem': '-'}
        tree = ast.parse(src)
        try:
            fdef = py2lean._find_function(tree, 'f')
            text = py2lean.FnTranslator(fdef, spec, {}).emit()
            bad.append((name, text))
        except (py2lean.Unsupported, py2lean._Unknown):
            pass
    if verbose:
        print('subset boundary: %d/%d snippets refused' % (len(REJECT) - len(bad), len(REJECT)))
        for name, text in bad:
            print('ACCEPTED (should be refused): %s\n%s' % (name, text))
    return len(bad)


def main(argv):
    quick = '--quick' in argv
    seed = 0
    if '--seed' in argv:
        seed = int(argv[argv.index('--seed') + 1])
    pids = [a for a in argv[1:] if a.upper().startswith('C') and a[1:].isdigit()] or sorted(srctie_specs.SPECS)
    if len(pids) == len(srctie_specs.SPECS) and 'C02' in pids and 'C03' in pids:
        pids = [p for p in pids if p != 'C03']      # C03 lists the C02 definitions again under its own tie names
    try:
        n = reject_tests() + reject_tests2() + reject_tests3()
        n += sum(m.reject_tests() for m in _ext_modules([p.upper() for p in pids]) if hasattr(m, 'reject_tests'))
        n += run([p.upper() for p in pids], quick, seed, snippets='--no-snippets' not in argv)[0]
    except common.InfraError as e:
        print('infrastructure error: %s' % e)
        return 2
    print('py2lean selftest: %s' % ('ok' if n == 0 else '%d MISMATCHES' % n))
    return 0 if n == 0 else 1


if __name__ == '__main__':
    sys.exit(main(sys.argv))
