"""Validation of the EFFECT MODE translator (harness/py2lean_c05.py): CPython vs the generated definitions.

Both sides run against the same SCRIPTED operating system: the n-th call of an abstract operation (whatever it is)
gets the n-th response of the script - a value (decoded at the operation's result type) or an exception (kind
OSError / other Exception / BaseException-only, errno, tag) - and is logged with its arguments.
  Python: the real function / method of the module under test, with `os`, `fcntl` and the file objects replaced by
          fakes that consult the script (module globals patched for the duration of the call);
  Lean:   the generated definition applied to a `Sys` instance over the world (script, log)
          (`lake env lean --run` on a scratch driver).
Compared per case: normal return (+ value) or the exception (kind, errno, tag); the object's attributes afterwards;
how much of the script was consumed; the complete call log with arguments.  Cases: every object configuration of a
small family x (all-fine scripts with varied values, every single failing position x 6 exception shapes, pairs of
failures, random scripts).  Also a handful of synthetic functions for the constructs the boltons code does not
exercise (return inside try/finally, return in finally, nested handlers with both kinds of bare raise, handler
order, and/or conditions with calls and an else branch) and snippets that must be REFUSED.
"""
from __future__ import annotations

import ast
import importlib
import os
import random
import shutil
import subprocess
import sys
import tempfile
import time
import types

HERE = os.path.dirname(os.path.abspath(__file__))
if HERE not in sys.path:
    sys.path.insert(0, HERE)
from bv import common          # noqa: E402
import py2lean_c05 as T        # noqa: E402
import srctie_specs            # noqa: E402
from py2lean import Unsupported    # noqa: E402

EXC_SHAPES = [(0, 2 + 1, 5), (0, 17 + 1, 6), (0, 0, 7), (0, 5 + 1, 8), (1, 0, 9), (1, 0, 10), (2, 0, 11)]
PY_EXC = {9: ValueError, 10: MemoryError, 11: KeyboardInterrupt, 12: RuntimeError, 13: SystemExit}


class FakeFile:
    def __init__(self, world, ident):
        self._w, self.ident = world, ident

    def flush(self):
        return self._w.respond('file_flush', [self.ident], 'None')

    def close(self):
        return self._w.respond('file_close', [self.ident], 'None')

    def fileno(self):
        return self._w.respond('file_fileno', [self.ident], 'Fd')


class World:
    def __init__(self, eff, script):
        self.eff, self.script, self.log = eff, list(script), []
        self.opid = {}
        for i, (py, (f, ats, rt)) in enumerate(eff['ops'].items()):
            self.opid[f] = i
        n = len(self.opid)
        for typ, ms in eff.get('methods_of', {}).items():
            for m, (f, ats, rt) in ms.items():
                self.opid[f] = n
                n += 1

    def respond(self, field, args, rtype):
        enc = []
        for a in args:
            if isinstance(a, FakeFile):
                a = a.ident
            if a is True or a is False:
                a = int(a)
            enc.append(a)
        self.log.append([self.opid[field]] + enc)
        r = self.script.pop(0) if self.script else [0, 0, 0, 0]
        if r[0] == 1:
            kind, en, tag = r[1], r[2], r[3]
            if kind == 0:
                e = OSError(en - 1, 'injected') if en else OSError('injected')
            else:
                e = PY_EXC[tag]('injected')
            e._tag = tag
            raise e
        v = r[1]
        if rtype == 'None':
            return None
        if rtype == 'Bool':
            return v != 0
        if rtype == 'Nat':
            return abs(v)
        if rtype == 'StatRes':
            return types.SimpleNamespace(st_mode=abs(v))
        if rtype == 'File':
            return FakeFile(self, v)
        return v            # Fd and other abstract values


def make_fakes(eff, world):
    """fake `os` / `fcntl` modules for the ops of the effect description"""
    root = {}
    for py, (f, ats, rt) in eff['ops'].items():
        parts = py.split('.')
        cur = root
        for p in parts[:-1]:
            cur = cur.setdefault(p, {})

        def fn(*a, _f=f, _rt=rt, _n=len(ats)):
            assert len(a) == _n, (_f, a)
            return world.respond(_f, list(a), _rt)
        cur[parts[-1]] = fn

    def build(d, real):
        ns = types.SimpleNamespace()
        for k, v in d.items():
            setattr(ns, k, build(v, getattr(real, k, None)) if isinstance(v, dict) else v)
        return ns
    out = {}
    for top, d in root.items():
        real = importlib.import_module(top)
        ns = build(d, real)
        for c, val in eff.get('consts', {}).items():
            if c.startswith(top + '.'):
                setattr(ns, c.split('.', 1)[1], getattr(real, c.split('.', 1)[1]))
        if top == 'os':
            ns.name = os.name
        out[top] = ns
    return out


def exc_triple(e):
    kind = 0 if isinstance(e, OSError) else 1 if isinstance(e, Exception) else 2
    en = getattr(e, 'errno', None) if kind == 0 else None
    return [kind, 0 if en is None else en + 1, getattr(e, '_tag', 0)]


# ---- fixed-width integer encoding shared with the Lean driver: Option T = [flag, value]
def enc_val(t, v):
    if isinstance(t, tuple):
        return [0, 0] if v is None else [1] + enc_val(t[1], v)
    if t == 'None':
        return []
    if isinstance(v, FakeFile):
        v = v.ident
    if v is True or v is False:
        return [int(v)]
    return [0 if v is None else int(v)]


def width(t):
    return 2 if isinstance(t, tuple) else 0 if t == 'None' else 1


def lean_dec(t, names):
    """Lean term decoding a value of type t from the pattern variables `names` (width(t) of them)"""
    if isinstance(t, tuple):
        inner = lean_dec(t[1], names[1:])
        return '(if %s = 0 then none else some %s)' % (names[0], inner)
    if t == 'Bool':
        return '(decide (%s ≠ 0))' % names[0]
    if t == 'Nat':
        return '%s.toNat' % names[0]
    if t == 'StatRes':
        return '(⟨%s.toNat⟩ : PyRtC05.StatRes)' % names[0]
    if t == 'None':
        return '()'
    return names[0]


def lean_enc(t, e):
    if isinstance(t, tuple):
        return '(match %s with | none => [0, 0] | some v => [1] ++ %s)' % (e, lean_enc(t[1], 'v'))
    if t == 'Bool':
        return '[if %s then 1 else 0]' % e
    if t == 'Nat':
        return '[Int.ofNat %s]' % e
    if t == 'None':
        return '[]'
    if t == 'StatRes':
        return '[Int.ofNat %s.st_mode]' % e
    return '[%s]' % e


DRIVER_HEAD = r'''
structure TW where
  script : List (List Int)
  log : List (List Int)

def kindOfInt (k : Int) : PyRtC05.Kind := if k = 0 then .osError else if k = 1 then .exception else .baseOnly

def respond {α : Type} (dec : Int → α) (id : Int) (args : List Int) (w : TW) : Except PyRtC05.Exc α × TW :=
  let w1 : TW := { w with log := (id :: args) :: w.log }
  match w1.script with
  | [] => (.ok (dec 0), w1)
  | r :: rs =>
    let w2 : TW := { w1 with script := rs }
    match r with
    | [1, k, en, tag] => (.error ⟨kindOfInt k, if en = 0 then none else some (en - 1).toNat, tag.toNat⟩, w2)
    | [_, v, _, _] => (.ok (dec v), w2)
    | _ => (.ok (dec 0), w2)

def chunk4 : List Int → List (List Int)
  | a :: b :: c :: d :: t => [a, b, c, d] :: chunk4 t
  | _ => []

def encExc (e : PyRtC05.Exc) : List Int :=
  [match e.kind with | .osError => 0 | .exception => 1 | .baseOnly => 2,
   match e.errno with | none => 0 | some n => Int.ofNat n + 1, Int.ofNat e.tag]

def encLog (w : TW) : List Int :=
  [Int.ofNat w.script.length, Int.ofNat w.log.length] ++ (w.log.reverse.map (fun l => Int.ofNat l.length :: l)).flatten

def showInts (l : List Int) : String := " ".intercalate (l.map toString)
def parseInts (s : String) : Option (List Int) :=
  (s.trim.splitOn " ").filter (· ≠ "") |>.mapM String.toInt?
'''

DRIVER_TAIL = r'''
partial def loop (h : IO.FS.Stream) (out : IO.FS.Stream) : IO Unit := do
  let line ← h.getLine
  if line.isEmpty then return
  match parseInts line with
  | some l => out.putStrLn ("R " ++ handle l)
  | none => out.putStrLn "R bad-line"
  loop h out

def main : IO Unit := do
  loop (← IO.getStdin) (← IO.getStdout)
'''


def build_driver(gen_text, short, specs, eff):
    tp = eff['tparams']
    pt = lambda s: T.parse_type(s, tp)
    body = ['import BoltonsVerif.PyRtC05', 'set_option linter.all false', '',
            gen_text.replace('import BoltonsVerif.PyRtC05\n', ''), DRIVER_HEAD]
    ints = ' '.join('Int' for _ in tp)
    fields = []
    n = 0
    allops = [(f, ats, rt, False) for py, (f, ats, rt) in eff['ops'].items()]
    for typ, ms in eff.get('methods_of', {}).items():
        for m, (f, ats, rt) in ms.items():
            allops.append((f, [typ] + list(ats), rt, True))
    for f, ats, rt, _ in allops:
        names = ['a%d' % i for i in range(len(ats))]
        args = ' ++ '.join(lean_enc(pt(a), nm) for a, nm in zip(ats, names)) or '[]'
        fields.append('  %s := fun %s w => respond (fun v => %s) %d (%s) w' % (
            f, ' '.join(names), lean_dec(pt(rt), ['v', 'v']) if not isinstance(pt(rt), tuple) else 'none', n, args))
        n += 1
    body.append('def tsys : Src.%s.Sys TW %s where\n%s\n' % (short, ints, '\n'.join(fields)))
    arms = []
    for k, spec in enumerate(specs):
        cls = spec.get('cls')
        pats, st_fields = [], []
        idx = 0

        def fresh(w):
            nonlocal idx
            out = ['x%d' % (idx + i) for i in range(w)]
            idx += w
            return out
        self_term = None
        if cls is not None:
            inits = []
            for a, t in cls['state'].items():
                ty = pt(t)
                nm = fresh(width(ty))
                pats += nm
                inits.append('%s := %s' % (T.lean_field(a), lean_dec(ty, nm)))
                st_fields.append((T.lean_field(a), ty))
            self_term = '({ %s } : Src.%s.%s.St %s)' % (', '.join(inits), short, cls['lean_name'], ints)
        args = []
        for p, t in spec['params'].items():
            ty = pt(t)
            nm = fresh(width(ty))
            pats += nm
            args.append(lean_dec(ty, nm))
        full = 'Src.%s.%s' % (short, spec['lean_name'])
        call = '%s tsys %s %s ⟨chunk4 rest, []⟩' % (full, self_term or '', ' '.join('(%s)' % a for a in args))
        R = pt(spec['result'])
        res = ('match r.1 with | .error e => [0] ++ encExc e | .ok v => [1] ++ %s' % lean_enc(R, 'v'))
        if cls is not None:
            st = ' ++ '.join(lean_enc(ty, 'r.2.1.%s' % f) for f, ty in st_fields)
            out = '(%s) ++ %s ++ encLog r.2.2' % (res, st)
        else:
            out = '(%s) ++ encLog r.2' % res
        pat = ' :: '.join(['%d' % k] + pats + ['rest'])
        arms.append('  | %s => let r := %s; showInts (%s)' % (pat, call, out))
    body.append('def handle : List Int → String\n' + '\n'.join(arms) + '\n  | _ => "bad-function"\n')
    body.append(DRIVER_TAIL)
    return '\n'.join(body)


# ---------------------------------------------------------------------------------------------- cases
def scripts(rng, quick, depth):
    vals = [0, 1, 0o100644, 0o101640, 2, 17, 33261]
    out = [[], [[0, 1, 0, 0]] * depth, [[0, 0, 0, 0]] * depth]
    for _ in range(6):
        out.append([[0, rng.choice(vals), 0, 0] for _ in range(depth)])
    for i in range(depth):
        for (k, en, tag) in EXC_SHAPES:
            for base in (1, 0, 0o100600):
                s = [[0, base, 0, 0] for _ in range(depth)]
                s[i] = [1, k, en, tag]
                out.append(s)
    n_rand = 150 if quick else 1500
    for _ in range(n_rand):
        s = []
        for _ in range(depth):
            if rng.random() < 0.25:
                k, en, tag = rng.choice(EXC_SHAPES)
                s.append([1, k, en, tag])
            else:
                s.append([0, rng.choice(vals), 0, 0])
        out.append(s)
    return out


def states(rng, cls, quick):
    out = []
    combos = []
    for ow in (True, False):
        for owp in (True, False):
            for rm in (True, False):
                for perms in (None, 0o600, 0):
                    for pf in (None, 7):
                        combos.append((ow, owp, rm, perms, pf))
    if quick:
        combos = rng.sample(combos, 8)
    for ow, owp, rm, perms, pf in combos:
        out.append({'dest_path': 100, 'part_path': 101, 'overwrite': ow, 'file_perms': perms, 'overwrite_part': owp,
                    'rm_part_on_exc': rm, 'mode': 55, 'buffering': -1, 'open_flags': 0o400302, 'part_file': pf})
    return out


def param_values(rng, spec, pt):
    """a few argument tuples for the parameters of a function"""
    outs = [[]]
    for p, t in spec['params'].items():
        ty = pt(t)
        if isinstance(ty, tuple):
            vals = [None, 1]
        elif ty == 'Bool':
            vals = [True, False]
        else:
            vals = [100 + len(outs[0])] if ty != 'Nat' else [0, 3]
        outs = [o + [v] for o in outs for v in vals]
    if 'exc_type' in spec['params']:
        outs = [[None, None, None], [1, 1, 1]]
    return outs


def run_function(mod, spec, eff, state, args, script):
    """run the real function on the scripted world -> result stream (same layout as the Lean driver)"""
    world = World(eff, script)
    fakes = make_fakes(eff, world)
    saved = {k: mod.__dict__.get(k) for k in fakes}
    pt = lambda s: T.parse_type(s, eff['tparams'])
    try:
        for k, v in fakes.items():
            mod.__dict__[k] = v
        obj = mod
        for part in spec['qualname'].split('.'):
            obj = getattr(obj, part)
        call_args = list(args)
        inst = None
        if spec.get('cls') is not None:
            inst = object.__new__(getattr(mod, spec['cls']['name']))
            for a, v in state.items():
                if a == 'part_file' and v is not None:
                    v = FakeFile(world, v)
                setattr(inst, a, v)
            if 'exc_type' in spec['params']:
                call_args = [None, None, None] if args[0] is None else [ValueError, ValueError('x'), object()]
            call_args = [inst] + call_args
        try:
            r = obj(*call_args)
            res = [1] + enc_val(pt(spec['result']), r)
        except BaseException as e:  # noqa: BLE001
            res = [0] + exc_triple(e)
        if inst is not None:
            for a, t in spec['cls']['state'].items():
                res += enc_val(pt(t), getattr(inst, a))
        res += [len(world.script), len(world.log)]
        for entry in world.log:
            res += [len(entry)] + entry
        return res
    finally:
        for k, v in saved.items():
            mod.__dict__[k] = v


SNIPPET_SRC = '''
import os

def t_finally_return(p, fd):
    try:
        os.unlink(p)
        return 1
    finally:
        os.close(fd)

def t_finally_override(p):
    try:
        os.unlink(p)
    finally:
        return 7

def t_nested(p, q):
    try:
        os.unlink(p)
    except OSError as e:
        try:
            os.unlink(q)
        except Exception:
            raise
        if e.errno == 2:
            return 0
        raise
    else:
        os.chmod(p, 1)
    return 5

def t_order(p):
    try:
        os.unlink(p)
    except OSError:
        return 1
    except Exception:
        return 2
    except BaseException:
        return 3
    return 0

def t_cond(p, q, flag):
    if flag and os.path.lexists(p) or not os.path.lexists(q):
        r = 1
    else:
        r = 2
    if not flag or os.path.lexists(q):
        return r
    return r | 4

def t_else_finally(p, fd):
    x = 0
    try:
        os.unlink(p)
    except OSError as ose:
        if ose.errno is None:
            x = 1
        else:
            raise OSError(5, 'again')
    else:
        x = 2
        os.fsync(os.open(p, x, 0))
    finally:
        os.close(fd)
    return x
'''
SNIPPET_SPECS = [
    ('t_finally_return', {'p': 'Path', 'fd': 'Fd'}, 'Nat'), ('t_finally_override', {'p': 'Path'}, 'Nat'),
    ('t_nested', {'p': 'Path', 'q': 'Path'}, 'Nat'), ('t_order', {'p': 'Path'}, 'Nat'),
    ('t_cond', {'p': 'Path', 'q': 'Path', 'flag': 'Bool'}, 'Nat'), ('t_else_finally', {'p': 'Path', 'fd': 'Fd'}, 'Nat'),
]

REJECT = [
    ('a call the spec does not name', 'def f(p):\n    os.remove(p)\n'),
    ('an undeclared attribute', 'class AtomicSaver:\n    def f(self):\n        return self.text_mode\n'),
    ('while', 'def f(p):\n    while os.path.lexists(p):\n        os.unlink(p)\n'),
    ('with', 'def f(p):\n    with open(p) as g:\n        pass\n'),
    ('except for a class below the three kinds', 'def f(p):\n    try:\n        os.unlink(p)\n    except FileNotFoundError:\n        pass\n'),
    ('except tuple', 'def f(p):\n    try:\n        os.unlink(p)\n    except (OSError, ValueError):\n        pass\n'),
    ('bare raise outside a handler', 'def f(p):\n    raise\n'),
    ('bare raise in finally', 'def f(p):\n    try:\n        os.unlink(p)\n    except OSError:\n        try:\n            pass\n        finally:\n            raise\n'),
    ('read of a possibly unbound local', 'def f(p):\n    try:\n        x = os.open(p, 1, 1)\n    except OSError:\n        pass\n    os.close(x)\n'),
    ('method call on a possibly-None value', 'class AtomicSaver:\n    def f(self):\n        self.part_file.close()\n'),
    ('raise from', 'def f(p):\n    try:\n        os.unlink(p)\n    except OSError as e:\n        raise OSError(1, "x") from e\n'),
    ('effect in a conditional expression', 'def f(p):\n    x = 1 if os.path.lexists(p) else 2\n'),
    ('method argument with an effect of a method', 'class AtomicSaver:\n    def g(self):\n        return None\n    def f(self):\n        os.close(self.g())\n'),
    ('for loop', 'def f(p):\n    for q in [p]:\n        os.unlink(q)\n'),
    ('star args', 'def f(*p):\n    os.unlink(p)\n'),
    ('exception variable used after its handler', 'def f(p):\n    try:\n        os.unlink(p)\n    except OSError as e:\n        pass\n    raise e\n'),
    ('changed signature', 'def atomic_rename(src, dst):\n    os.rename(src, dst)\n'),
]


def reject_tests(eff, verbose=True):
    """every snippet must be refused (Unsupported), never translated"""
    bad = []
    saver = srctie_specs.ATOMIC_SAVER
    for why, src in REJECT:
        tree = ast.parse('import os\n' + src)
        is_cls = src.startswith('class')
        name = 'AtomicSaver.f' if is_cls else ('atomic_rename' if 'atomic_rename' in src else 'f')
        params = {'src': 'Path', 'dst': 'Path', 'overwrite': 'Bool'} if name == 'atomic_rename' else \
            ({} if is_cls else {'p': 'Path'})
        spec = {'qualname': name, 'lean_name': name, 'cls': saver if is_cls else None, 'params': params,
                'result': 'None', 'effect': eff, 'py': name.split('.')[-1]}
        try:
            T.EffTranslator(T.find_definition(tree, name), spec, tree, []).emit()
            bad.append(why)
        except Unsupported:
            pass
    if verbose:
        print('effect-mode reject tests: %d snippets, %d wrongly accepted %s' % (len(REJECT), len(bad), bad))
    return bad


def run(pids, quick=False, seed=0, verbose=True):
    """-> (number of mismatches, report dict); same contract as py2lean_selftest.run"""
    common.ensure_repo_on_path()
    t0 = time.time()
    specs = [sp for pid in pids for sp in srctie_specs.SPECS.get(pid, []) if sp.get('translator') == 'py2lean_c05']
    eff = specs[0]['effect']
    module_name = specs[0]['module']
    mod = importlib.import_module(module_name)
    report, mismatches = {}, []
    # the platform constants the spec fixes
    for c, v in eff.get('consts', {}).items():
        m, a = c.split('.', 1)
        if getattr(importlib.import_module(m), a) != v:
            mismatches.append((c, {}, 'spec constant %s = %r but the interpreter has %r' % (
                c, v, getattr(importlib.import_module(m), a))))
    gen_text, infos = T.translate_module(module_name, specs, common.REPO)
    for i in infos:
        if i.get('error'):
            raise common.InfraError('not translated: %s: %s' % (i['function'], i['error']))
    short = specs[0].get('gen_file') or module_name.split('.')[-1]
    # synthetic functions: same effect description, their own module text
    sn_specs = [{'module': 'snippets', 'qualname': q, 'lean_name': q, 'cls': None, 'params': ps, 'result': r,
                 'tie_theorem': '-', 'effect': eff, 'py': q, 'gen_file': 'c05snip'} for q, ps, r in SNIPPET_SPECS]
    sn_text, sn_infos = T.translate_source(SNIPPET_SRC, sn_specs, 'snippets', 'snippets')
    for i in sn_infos:
        if i.get('error'):
            raise common.InfraError('snippet not translated: %s: %s' % (i['function'], i['error']))
    sn_mod = types.ModuleType('c05_snippets')
    exec(compile(SNIPPET_SRC, 'c05_snippets', 'exec'), sn_mod.__dict__)
    rng = random.Random('py2lean-c05-selftest-%d' % seed)
    pt = lambda s: T.parse_type(s, eff['tparams'])
    groups = [(gen_text, short, specs, mod), (sn_text, 'c05snip', sn_specs, sn_mod)]
    tmp = tempfile.mkdtemp(prefix='py2lean-c05-selftest-')
    try:
        with common.BuildLock():
            rc, out = common._run(['lake', 'build', 'BoltonsVerif.PyRtC05'])
        if rc != 0:
            raise common.InfraError('cannot build BoltonsVerif.PyRtC05: ' + out[-500:])
        t_lean = 0.0
        for text, sh, sps, pymod in groups:
            lines, meta = [], []
            for k, spec in enumerate(sps):
                sts = states(rng, spec['cls'], quick) if spec.get('cls') is not None else [None]
                depth = 12 if spec['lean_name'].split('.')[-1] in ('setup', 'enter', 'exit', 'open_part_file') else 5
                scs = scripts(rng, quick, depth)
                if quick and spec.get('cls') is not None:
                    scs = scs[:9] + rng.sample(scs[9:], min(len(scs) - 9, 90))
                for st in sts:
                    for args in param_values(rng, spec, pt):
                        for sc in scs:
                            toks = [k]
                            if st is not None:
                                for a, t in spec['cls']['state'].items():
                                    toks += enc_val(pt(t), st[a])
                            for (p, t), v in zip(spec['params'].items(), args):
                                toks += enc_val(pt(t), v)
                            for r in sc:
                                toks += r
                            lines.append(' '.join(map(str, toks)))
                            meta.append((spec, st, args, sc))
            drv = os.path.join(tmp, 'C05SelfTest_%s.lean' % sh)
            with open(drv, 'w') as fh:
                fh.write(build_driver(text, sh, sps, eff))
            t1 = time.time()
            p = subprocess.run(['lake', 'env', 'lean', '--run', drv], cwd=common.LEAN, input='\n'.join(lines) + '\n',
                               stdout=subprocess.PIPE, stderr=subprocess.STDOUT, text=True, timeout=1800)
            t_lean += time.time() - t1
            outs = [ln[2:] for ln in p.stdout.split('\n') if ln.startswith('R ')]
            if p.returncode != 0 or len(outs) != len(lines):
                raise common.InfraError('effect-mode scratch driver failed (rc %s, %d lines for %d inputs): %s' % (
                    p.returncode, len(outs), len(lines), p.stdout[-1500:]))
            for (spec, st, args, sc), got in zip(meta, outs):
                r = report.setdefault(spec['lean_name'], {'cases': 0, 'compared': 0, 'pre_false': 0, 'python_raises': 0,
                                                          'mismatches': 0})
                r['cases'] += 1
                if got.startswith('bad'):
                    raise common.InfraError('driver rejected a line: %s' % got)
                val = [int(x) for x in got.split()]
                want = run_function(pymod, spec, eff, st, args, sc)
                r['compared'] += 1
                if want[0] == 0:
                    r['python_raises'] += 1
                if want != val:
                    r['mismatches'] += 1
                    mismatches.append((spec['lean_name'], {'state': st, 'args': args, 'script': sc},
                                       'Python stream %s but Lean stream %s' % (want, val)))
    finally:
        shutil.rmtree(tmp, ignore_errors=True)
    bad = reject_tests(eff, verbose)
    for why in bad:
        mismatches.append(('reject', {}, 'snippet outside the subset was translated: ' + why))
    report['_mismatches'] = [{'function': n, 'case': c, 'what': b} for n, c, b in mismatches[:5]]
    report['_wall_s'] = round(time.time() - t0, 2)
    report['_lean_s'] = round(t_lean, 2)
    if verbose:
        for name, r in report.items():
            print(name, r)
        for name, case, b in mismatches[:10]:
            print('MISMATCH %s %r: %s' % (name, case, b))
    return len(mismatches), report


if __name__ == '__main__':
    n, rep = run(['C05'], quick='--quick' in sys.argv, seed=0, verbose=True)
    sys.exit(1 if n else 0)
