"""py2lean_c06 - source-tie translator module for the quoting functions of `boltons/urlutils.py` (property C06,
round 3e; spec key `translator: 'py2lean_c06'`; trusted together with harness/py2lean.py).

`quote_{path,query,fragment,userinfo}_part` and `unquote_to_bytes` are pure text functions; what keeps them out of
the base translator's subset is what they USE: module-level lookup tables (`_X_QUOTE_MAP`, `_X_DELIMS`,
`_HEX_CHAR_MAP`), `unicodedata.normalize`, `str.encode`, `bytes.split`, `''.join`, a bound-method alias
(`append = res.append`) and `try: ... except KeyError`.  This module translates exactly that closed language into
Lean definitions over `List Nat` (a `str` = the list of its code points, a `bytes` = the list of its bytes: the
conventions of lean/BoltonsVerif/C06/Model.lean) with every external replaced by a SPEC-DECLARED OPERATION:

 * a lookup table the spec declares (`c06.maps` / `c06.sets` / `c06.hexmaps`: Python name -> regenerated Lean table in
   `Generated/C06_UrlTables.lean`, written on every run by the C06 regen hook from the module under test) becomes
   `PyRtC06.mapGet <table> k` / `<table>.contains k` / `PyRtC06.hexGet <table> k`;
 * `normalize('NFC', E)` becomes the PARAMETER `nfc` of the generated definition (the hand model's `nfc`);
 * `E.encode('utf8')`, `E.split(<1 element>)`, `<empty>.join(L)`, slices, `len`, emptiness tests become functions of
   lean/BoltonsVerif/PyRtC06.lean.

Anything else is refused (`Unsupported`: the function is reported NOT TRANSLATED and its tie theorem stops checking).
The rules and their side conditions: notes/SRCTIE.md, section "Round 3e: C06".  Static types:
Str | Bytes | Chr (an element of a str: a one-character str) | Byte (an element of a bytes: an int) | Bool | Nat
(`len`, literals) | List Str | List Bytes.
"""
from __future__ import annotations

import ast
import importlib
import inspect
import os

from py2lean import Unsupported

RT_IMPORT = 'PyRtC06'
TABLES_NS = 'C06.Gen'

STR, BYTES, CHR, BYTE, BOOL, NAT = 'Str', 'Bytes', 'Chr', 'Byte', 'Bool', 'Nat'
LEAN_KEYWORDS = {'end', 'from', 'at', 'in', 'fun', 'open', 'show', 'have', 'let', 'do', 'then', 'else', 'if', 'match',
                 'with', 'where', 'by', 'def', 'theorem', 'namespace', 'section', 'variable', 'import', 'prefix',
                 'instance', 'structure', 'class', 'inductive', 'deriving', 'mutual', 'using', 'nfc'}
UTF8_NAMES = ('utf8', 'utf-8', 'UTF-8', 'utf_8')


def LIST(t):
    return ('List', t)


def lean_ty(t):
    if t in (STR, BYTES):
        return 'List Nat'
    if t in (CHR, BYTE, NAT):
        return 'Nat'
    if t == BOOL:
        return 'Bool'
    if isinstance(t, tuple) and t[0] == 'List':
        return 'List (%s)' % lean_ty(t[1] or STR)
    raise ValueError(t)


def parse_ty(text):
    text = text.strip()
    if text in (STR, BYTES, BOOL):
        return text
    if text.startswith('List '):
        return LIST(parse_ty(text[5:]))
    raise ValueError('py2lean_c06: bad type %r' % text)


def mangle(name):
    return name + '_' if name in LEAN_KEYWORDS else name


def ind(text, k=1):
    pad = '  ' * k
    return '\n'.join(pad + ln if ln else ln for ln in text.split('\n'))


def nat_list(vals):
    return '([%s] : List Nat)' % ', '.join(str(v) for v in vals)


class Var:
    def __init__(self, ty, nonempty=False, odd=False, value=None):
        self.ty, self.nonempty, self.odd, self.value = ty, nonempty, odd, value


def _module_bindings(tree, name):
    """every statement of the module that (re)binds `name` anywhere (top level, nested blocks, global decls)"""
    out = []
    for n in ast.walk(tree):
        if isinstance(n, (ast.FunctionDef, ast.AsyncFunctionDef, ast.ClassDef)) and n.name == name and n in tree.body:
            out.append(n)
        elif isinstance(n, ast.Global) and name in n.names:
            out.append(n)
    for n in tree.body:
        if isinstance(n, (ast.FunctionDef, ast.AsyncFunctionDef, ast.ClassDef)):
            continue
        for x in ast.walk(n):
            if isinstance(x, ast.Name) and x.id == name and isinstance(x.ctx, (ast.Store, ast.Del)):
                out.append(n)
            if isinstance(x, ast.alias) and ((x.asname or x.name.split('.')[0]) == name or x.name == '*'):
                out.append(n)
    return out


class FnTr:
    """translator of one module-level function"""

    def __init__(self, fdef, spec, tree, emitted=None):
        self.f, self.spec, self.tree = fdef, spec, tree
        self.emitted = emitted or {}       # functions of the same group translated before this one: name -> FnTr
        cfg = spec.get('c06') or {}
        self.maps = dict(cfg.get('maps') or {})
        self.sets = dict(cfg.get('sets') or {})
        self.hexmaps = dict(cfg.get('hexmaps') or {})
        self.covers = {k: set(v) for k, v in (cfg.get('covers') or {}).items()}   # map name -> set names inside its keys
        self.regex_split = dict(cfg.get('regex_split') or {})     # compiled regex -> (pattern it must have, runtime function)
        self.consts = dict(spec.get('consts') or {})              # parameter -> the value the tie fixes it to (its default)
        self.uses_nfc = False
        self.pre = []
        self.aliases = {}      # append alias -> list variable
        self.tmp = 0
        self.guards = []       # stack of (variable name, set name) facts `v in SET` known on the current path
        a = fdef.args
        if a.vararg or a.kwarg or a.kwonlyargs or a.posonlyargs:
            raise Unsupported(fdef, 'only plain positional parameters')
        names = [x.arg for x in a.args]
        if [n for n in names if n not in self.consts] != list(spec['params']) or set(self.consts) - set(names):
            raise Unsupported(fdef, 'parameters %r, the spec declares %r + constants %r' % (
                names, list(spec['params']), list(self.consts)))
        defaults = dict(zip(names[len(names) - len(a.defaults):], a.defaults))
        for n, v in self.consts.items():       # a parameter fixed to its default: the tie is about the call without it
            d = defaults.get(n)
            if not (isinstance(d, ast.Constant) and type(d.value) is type(v) and d.value == v):
                raise Unsupported(fdef, 'the default of %s is not the declared constant %r' % (n, v))
        self.params = [(n, parse_ty(t)) for n, t in spec['params'].items()]
        self.result = parse_ty(spec['result'])
        self.stores = {}
        for x in ast.walk(fdef):
            if isinstance(x, (ast.FunctionDef, ast.AsyncFunctionDef, ast.Lambda, ast.ClassDef)) and x is not fdef:
                raise Unsupported(x, 'nested definition')
            if isinstance(x, (ast.Global, ast.Nonlocal, ast.Yield, ast.YieldFrom, ast.Await, ast.NamedExpr)):
                raise Unsupported(x)
            if isinstance(x, ast.Name) and isinstance(x.ctx, (ast.Store, ast.Del)):
                self.stores[x.id] = self.stores.get(x.id, 0) + 1
        for table in list(self.maps) + list(self.sets) + list(self.hexmaps) + list(self.regex_split) \
                + ['to_unicode', 'normalize']:
            if table in self.stores or table in names:
                raise Unsupported(fdef, '%s is rebound in the function' % table)

    # ------------------------------------------------------------------------------------------ module facts
    def module_table(self, name, node):
        """`name` is a module-level table bound exactly once, at top level, by a plain assignment"""
        b = _module_bindings(self.tree, name)
        if len(b) != 1 or not isinstance(b[0], ast.Assign) or len(b[0].targets) != 1 \
                or not isinstance(b[0].targets[0], ast.Name):
            raise Unsupported(node, '%s is not bound exactly once by a module-level assignment' % name)

    def module_regex(self, name, pattern, node):
        """`name = re.compile(<the literal `pattern`>)`, once, at top level, `re` the standard module"""
        b = _module_bindings(self.tree, name)
        ok = len(b) == 1 and isinstance(b[0], ast.Assign) and len(b[0].targets) == 1 \
            and isinstance(b[0].targets[0], ast.Name) and isinstance(b[0].value, ast.Call) \
            and ast.unparse(b[0].value.func) == 're.compile' and not b[0].value.keywords \
            and len(b[0].value.args) == 1 and isinstance(b[0].value.args[0], ast.Constant) \
            and b[0].value.args[0].value == pattern
        rb = _module_bindings(self.tree, 're')
        ok = ok and len(rb) == 1 and isinstance(rb[0], ast.Import) and any(
            a.name == 're' and a.asname in (None, 're') for a in rb[0].names)
        if not ok:
            raise Unsupported(node, '%s is not bound once by re.compile(%r)' % (name, pattern))

    def module_def(self, name, node):
        b = _module_bindings(self.tree, name)
        if len(b) != 1 or not isinstance(b[0], ast.FunctionDef):
            raise Unsupported(node, '%s is not exactly one module-level def' % name)

    def module_import(self, name, module, node):
        b = _module_bindings(self.tree, name)
        ok = len(b) == 1 and isinstance(b[0], ast.ImportFrom) and b[0].module == module and b[0].level == 0 and any(
            a.name == name and a.asname in (None, name) for a in b[0].names)
        if not ok:
            raise Unsupported(node, '%s is not `from %s import %s`' % (name, module, name))

    # ------------------------------------------------------------------------------------------ expressions
    def fresh(self, base):
        self.tmp += 1
        return '%s%d' % (base, self.tmp)

    def as_seq(self, text, ty, node):
        """the value as a sequence of the kind of its elements: a Chr is a one-character str"""
        if ty == CHR:
            return '[%s]' % text, STR
        return text, ty

    def unify(self, a, ta, b, tb, node):
        if ta == tb:
            return a, b, ta
        if {ta, tb} == {CHR, STR}:
            return self.as_seq(a, ta, node)[0], self.as_seq(b, tb, node)[0], STR
        raise Unsupported(node, 'operands of type %s and %s' % (ta, tb))

    def const(self, node):
        v = node.value
        if v is True or v is False:
            return ('true' if v else 'false'), BOOL
        if type(v) is str:
            return nat_list([ord(c) for c in v]), STR
        if type(v) is bytes:
            return nat_list(list(v)), BYTES
        if type(v) is int and v >= 0:
            return '(%d : Nat)' % v, NAT
        raise Unsupported(node, 'constant %r' % (v,))

    def truth(self, node, env):
        """(Lean Bool term | True | False for a statically known test)"""
        if isinstance(node, ast.UnaryOp) and isinstance(node.op, ast.Not):
            t = self.truth(node.operand, env)
            if t is True or t is False:
                return not t
            return '(!%s)' % t
        if isinstance(node, ast.Call) and isinstance(node.func, ast.Name) and node.func.id == 'isinstance' \
                and 'isinstance' not in env and 'isinstance' not in self.stores:
            # the declared kind of the value decides a kind test (a str is never a bytes and vice versa)
            if len(node.args) != 2 or node.keywords or not isinstance(node.args[1], ast.Name) \
                    or node.args[1].id not in ('str', 'bytes') or node.args[1].id in env \
                    or node.args[1].id in self.stores or _module_bindings(self.tree, node.args[1].id):
                raise Unsupported(node, 'isinstance against anything but the builtins str / bytes')
            _, ty = self.ex(node.args[0], env)
            if ty not in (STR, BYTES):
                raise Unsupported(node, 'isinstance of a %s' % (ty,))
            return (ty == STR) == (node.args[1].id == 'str')
        if isinstance(node, ast.Compare) and len(node.ops) == 1 and isinstance(node.ops[0], (ast.Is, ast.IsNot)) \
                and isinstance(node.left, ast.Name) and node.left.id in env and env[node.left.id].ty == 'Const' \
                and isinstance(node.comparators[0], ast.Constant) and node.comparators[0].value is None:
            # a parameter fixed to its (non-None) default
            return (env[node.left.id].value is None) == isinstance(node.ops[0], ast.Is)
        text, ty = self.ex(node, env)
        if ty == BOOL:
            return text
        if ty in (STR, BYTES) or (isinstance(ty, tuple) and ty[0] == 'List'):
            return '(!%s.isEmpty)' % text
        raise Unsupported(node, 'truth value of a %s' % (ty,))

    def ex(self, node, env):
        """-> (Lean term, static type)"""
        if isinstance(node, ast.Constant):
            return self.const(node)
        if isinstance(node, ast.Name):
            if node.id in env:
                if env[node.id].ty == 'Const':
                    raise Unsupported(node, 'use of the constant parameter %s as a value' % node.id)
                return mangle(node.id), env[node.id].ty
            raise Unsupported(node, 'name %s is not a parameter / local' % node.id)
        if isinstance(node, ast.List) and not node.elts:
            # an empty list of strs / of bytes (both `List (List Nat)`); which of the two is fixed by the first append
            return '([] : List (List Nat))', LIST(None)
        if isinstance(node, ast.List):
            if len(node.elts) != 1 or isinstance(node.elts[0], ast.Starred):
                raise Unsupported(node, 'list display with other than one element')
            a, ta = self.as_seq(*self.ex(node.elts[0], env), node)
            if ta not in (STR, BYTES):
                raise Unsupported(node, 'list of %s' % (ta,))
            return '[%s]' % a, LIST(ta)
        if isinstance(node, ast.IfExp):
            c = self.truth(node.test, env)
            if c is True or c is False:
                raise Unsupported(node, 'statically decided conditional expression')
            g = self.guard_of(node.test, env)
            if g:
                self.guards.append(g)
            a, ta = self.ex(node.body, env)
            if g:
                self.guards.pop()
            b, tb = self.ex(node.orelse, env)
            a, b, t = self.unify(a, ta, b, tb, node)
            return '(if %s then %s else %s)' % (c, a, b), t
        if isinstance(node, (ast.ListComp, ast.GeneratorExp)):
            if len(node.generators) != 1:
                raise Unsupported(node, 'nested comprehension')
            g = node.generators[0]
            if g.ifs or g.is_async or not isinstance(g.target, ast.Name):
                raise Unsupported(node, 'comprehension with a filter / a pattern target')
            it, tit = self.ex(g.iter, env)
            et = self.elem_ty(tit, g.iter)
            if g.target.id in env:
                raise Unsupported(node, 'comprehension variable shadows %s' % g.target.id)
            env2 = dict(env)
            env2[g.target.id] = Var(et)
            b, tb = self.as_seq(*self.ex(node.elt, env2), node)
            if tb not in (STR, BYTES):
                raise Unsupported(node, 'comprehension of %s' % (tb,))
            return '(%s.map fun %s => %s)' % (it, mangle(g.target.id), b), LIST(tb)
        if isinstance(node, ast.UnaryOp) and isinstance(node.op, ast.Not):
            t = self.truth(node, env)
            if t is True or t is False:
                raise Unsupported(node, 'statically decided test used as a value')
            return t, BOOL
        if isinstance(node, ast.Compare):
            return self.compare(node, env)
        if isinstance(node, ast.Subscript):
            return self.subscript(node, env)
        if isinstance(node, ast.Call):
            return self.call(node, env)
        raise Unsupported(node)

    def elem_ty(self, t, node):
        if t == STR:
            return CHR
        if t == BYTES:
            return BYTE
        if isinstance(t, tuple) and t[0] == 'List':
            return t[1]
        raise Unsupported(node, 'iteration over a %s' % (t,))

    def guard_of(self, test, env):
        """`v in SET` with `v` a local name and SET a declared set -> (v, SET)"""
        if isinstance(test, ast.Compare) and len(test.ops) == 1 and isinstance(test.ops[0], ast.In) \
                and isinstance(test.left, ast.Name) and isinstance(test.comparators[0], ast.Name) \
                and test.comparators[0].id in self.sets and test.comparators[0].id not in env:
            return (test.left.id, test.comparators[0].id)
        return None

    def compare(self, node, env):
        if len(node.ops) != 1:
            raise Unsupported(node, 'chained comparison')
        op, rhs = node.ops[0], node.comparators[0]
        if isinstance(op, (ast.In, ast.NotIn)):
            if isinstance(rhs, ast.Name) and rhs.id in self.sets and rhs.id not in env:
                self.module_table(rhs.id, node)
                a, ta = self.ex(node.left, env)
                if ta != CHR:
                    raise Unsupported(node, 'membership of a %s in a set of characters' % (ta,))
                t = '(%s.%s.contains %s)' % (TABLES_NS, self.sets[rhs.id], a)
            else:
                a, ta = self.ex(node.left, env)
                b, tb = self.ex(rhs, env)
                # `c in s` for a ONE-character literal / an element: element membership; a longer needle is a substring test
                if isinstance(node.left, ast.Constant) and ta in (STR, BYTES) and len(node.left.value) == 1 and tb == ta:
                    a = str(ord(node.left.value) if ta == STR else node.left.value[0])
                elif not ((ta, tb) in ((CHR, STR), (BYTE, BYTES))):
                    raise Unsupported(node, 'membership of a %s in a %s' % (ta, tb))
                t = '(%s.contains %s)' % (b, a)
            return ('(!%s)' % t if isinstance(op, ast.NotIn) else t), BOOL
        if isinstance(op, (ast.Eq, ast.NotEq)):
            a, ta = self.ex(node.left, env)
            b, tb = self.ex(rhs, env)
            if ta != tb or ta not in (NAT, STR, BYTES):
                raise Unsupported(node, 'comparison of a %s with a %s' % (ta, tb))
            return '(%s %s %s)' % (a, '==' if isinstance(op, ast.Eq) else '!=', b), BOOL
        raise Unsupported(node, 'comparison operator')

    def subscript(self, node, env):
        v, s = node.value, node.slice
        if isinstance(v, ast.Name) and v.id not in env and v.id in self.maps:
            # M[k], M one of the quote maps: total here because the key is known to be in the map
            self.module_table(v.id, node)
            k, tk = self.ex(s, env)
            if tk == BYTE:
                pass                      # an element of a bytes: 0 <= k < 256, every int below 256 is a key
            elif tk == CHR and isinstance(s, ast.Name) and any(
                    g[0] == s.id and g[1] in self.covers.get(v.id, ()) for g in self.guards):
                pass                      # inside `k in D` with D a declared subset of the map's keys
            else:
                raise Unsupported(node, 'lookup in %s with a key not known to be in the map' % v.id)
            return '(PyRtC06.mapGet %s.%s %s)' % (TABLES_NS, self.maps[v.id], k), STR
        if isinstance(v, ast.Name) and v.id not in env and v.id in self.hexmaps:
            raise Unsupported(node, 'lookup in %s outside the form `try: <first statement> ... except KeyError`' % v.id)
        a, ta = self.ex(v, env)
        if isinstance(s, ast.Slice):
            if s.step is not None or (s.lower is None) == (s.upper is None):
                raise Unsupported(node, 'slice other than [n:] / [:n]')
            b = s.lower if s.lower is not None else s.upper
            if not (isinstance(b, ast.Constant) and type(b.value) is int and b.value >= 0):
                raise Unsupported(node, 'slice bound other than a non-negative literal')
            if ta not in (STR, BYTES) and not (isinstance(ta, tuple) and ta[0] == 'List'):
                raise Unsupported(node, 'slice of a %s' % (ta,))
            return '(%s.%s %d)' % (a, 'drop' if s.lower is not None else 'take', b.value), ta
        if isinstance(s, ast.Constant) and type(s.value) is int and s.value == 0 and isinstance(ta, tuple) \
                and isinstance(v, ast.Name) and env[v.id].nonempty:
            # L[0] of a list known to be non-empty (the result of a split: PyRtC06.splitOn_ne_nil)
            return '(%s.headD [])' % a, ta[1]
        raise Unsupported(node, 'subscript')

    def call(self, node, env):
        f = node.func
        if node.keywords or any(isinstance(a, ast.Starred) for a in node.args):
            raise Unsupported(node, 'keyword / starred arguments')
        if isinstance(f, ast.Name) and f.id not in env:
            if f.id == 'to_unicode' and len(node.args) == 1:
                self.module_def('to_unicode', node)
                a, ta = self.ex(node.args[0], env)
                if ta != STR:
                    raise Unsupported(node, 'to_unicode of a %s' % (ta,))
                return a, STR             # the identity on a str (checked against the module by the self-test)
            if f.id == 'normalize' and len(node.args) == 2:
                self.module_import('normalize', 'unicodedata', node)
                if not (isinstance(node.args[0], ast.Constant) and node.args[0].value == 'NFC'):
                    raise Unsupported(node, 'normalize with a form other than the literal NFC')
                a, ta = self.ex(node.args[1], env)
                if ta != STR:
                    raise Unsupported(node, 'normalize of a %s' % (ta,))
                self.uses_nfc = True
                return '(nfc %s)' % a, STR
            if f.id == 'len' and len(node.args) == 1 and 'len' not in self.stores \
                    and not _module_bindings(self.tree, 'len'):
                a, ta = self.ex(node.args[0], env)
                if ta in (CHR, BYTE, NAT, BOOL):
                    raise Unsupported(node, 'len of a %s' % (ta,))
                return '%s.length' % a, NAT
        if isinstance(f, ast.Name) and f.id not in env and f.id in self.emitted and f.id not in self.stores:
            # a function of the same group translated before this one
            callee = self.emitted[f.id]
            self.module_def(f.id, node)
            if len(node.args) != len(callee.params) or callee.consts and False:
                raise Unsupported(node, 'call of %s with %d arguments' % (f.id, len(node.args)))
            args = []
            for a, (pn, pt) in zip(node.args, callee.params):
                t, ta = self.as_seq(*self.ex(a, env), node)
                if ta != pt:
                    raise Unsupported(node, 'argument %s of %s: a %s, declared %s' % (pn, f.id, ta, pt))
                args.append(t)
            for what in callee.pre:
                w = '%s (in %s)' % (what, f.id)
                if w not in self.pre:
                    self.pre.append(w)
            if callee.uses_nfc:
                self.uses_nfc = True
            return '(%s %s%s)' % (callee.spec['lean_name'], 'nfc ' if callee.uses_nfc else '', ' '.join(args)), callee.result
        if isinstance(f, ast.Attribute) and isinstance(f.value, ast.Name) and f.value.id in self.regex_split \
                and f.value.id not in env and f.attr == 'split' and len(node.args) == 1:
            pattern, op = self.regex_split[f.value.id]
            self.module_regex(f.value.id, pattern, node)
            a, ta = self.ex(node.args[0], env)
            if ta != STR:
                raise Unsupported(node, 'regex split of a %s' % (ta,))
            return '(PyRtC06.%s %s)' % (op, a), LIST(STR)
        if isinstance(f, ast.Attribute) and f.attr == 'decode' and len(node.args) == 2:
            vals = []
            for a in node.args:
                if isinstance(a, ast.Constant):
                    vals.append(a.value)
                elif isinstance(a, ast.Name) and a.id in env and env[a.id].ty == 'Const':
                    vals.append(env[a.id].value)
                else:
                    raise Unsupported(node, 'decode with a codec / error handler that is not a constant')
            if vals[0] not in UTF8_NAMES or vals[1] != 'replace':
                raise Unsupported(node, 'decode(%r, %r)' % tuple(vals))
            a, ta = self.ex(f.value, env)
            if ta != BYTES:
                raise Unsupported(node, 'decode of a %s' % (ta,))
            return '(PyRtC06.decodeUtf8Replace %s)' % a, STR
        if isinstance(f, ast.Attribute):
            if f.attr == 'encode' and len(node.args) == 1 and isinstance(node.args[0], ast.Constant) \
                    and node.args[0].value in UTF8_NAMES:
                a, ta = self.ex(f.value, env)
                if ta != STR:
                    raise Unsupported(node, 'encode of a %s' % (ta,))
                what = 'no surrogate code point in the argument of `.encode` at line %d' % node.lineno
                if what not in self.pre:
                    self.pre.append(what)
                return '(PyRtC06.utf8 %s)' % a, BYTES
            if f.attr == 'join' and len(node.args) == 1 and isinstance(f.value, ast.Constant) \
                    and f.value.value in ('', b''):
                want = STR if f.value.value == '' else BYTES
                a, ta = self.ex(node.args[0], env)
                if ta not in (LIST(want), LIST(None)):
                    raise Unsupported(node, 'join of a %s by an empty %s' % (ta, want))
                return '(PyRtC06.joinEmpty %s)' % a, want
            if f.attr == 'split' and len(node.args) == 1 and isinstance(node.args[0], ast.Constant) \
                    and type(node.args[0].value) in (str, bytes) and len(node.args[0].value) == 1:
                sep = node.args[0].value
                a, ta = self.ex(f.value, env)
                if ta != (STR if type(sep) is str else BYTES):
                    raise Unsupported(node, 'split of a %s by a %s' % (ta, type(sep).__name__))
                return '(PyRtC06.splitOn %d %s)' % (ord(sep) if type(sep) is str else sep[0], a), LIST(ta)
        raise Unsupported(node, 'call')

    # ------------------------------------------------------------------------------------------ statements
    def append_target(self, st, env):
        """`L.append(E)` / `<alias>(E)` as a statement -> (L, E node) else None"""
        if not (isinstance(st, ast.Expr) and isinstance(st.value, ast.Call)):
            return None
        c = st.value
        if c.keywords or len(c.args) != 1 or isinstance(c.args[0], ast.Starred):
            return None
        if isinstance(c.func, ast.Name) and c.func.id in self.aliases:
            return self.aliases[c.func.id], c.args[0]
        if isinstance(c.func, ast.Attribute) and c.func.attr == 'append' and isinstance(c.func.value, ast.Name) \
                and c.func.value.id in env and isinstance(env[c.func.value.id].ty, tuple):
            return c.func.value.id, c.args[0]
        return None

    def returns(self, body):
        if not body:
            return False
        last = body[-1]
        if isinstance(last, ast.Return):
            return True
        if isinstance(last, ast.If):
            return self.returns(last.body) and self.returns(last.orelse)
        return False

    def assigned(self, body, env):
        """pre-existing variables a block rebinds / appends to, in order of first occurrence"""
        out = []
        for st in body:
            for x in ast.walk(st):
                n = None
                if isinstance(x, ast.Name) and isinstance(x.ctx, ast.Store):
                    n = x.id
                elif isinstance(x, ast.Expr):
                    t = self.append_target(x, env)
                    n = t[0] if t else None
                if n is not None and n in env and n not in out:
                    out.append(n)
        return out

    def rebound(self, body):
        """names a block REBINDS (as opposed to appends to): what was known about the old value is lost"""
        return {x.id for st in body for x in ast.walk(st) if isinstance(x, ast.Name) and isinstance(x.ctx, ast.Store)}

    def no_escape(self, body):
        for st in body:
            for x in ast.walk(st):
                if isinstance(x, (ast.Return, ast.Break, ast.Continue, ast.Raise)):
                    raise Unsupported(x, 'return / break / continue / raise inside a loop or try block')

    def same_ty(self, n, new, old, st, where):
        """the kind of `n` at the end of a branch / loop body against its kind before: equal, or the kind of an empty
        list display fixed by an append -> the kind afterwards"""
        if new == old or old == LIST(None) and isinstance(new, tuple):
            return new
        if new == LIST(None) and isinstance(old, tuple):
            return old
        raise Unsupported(st, '%s changes its type in %s' % (n, where))

    def state(self, names):
        if len(names) == 1:
            return mangle(names[0])
        return '(%s)' % ', '.join(mangle(n) for n in names)

    def stmts(self, body, env, k):
        """Lean term of the statement list followed by the continuation `k(env)` (None: the block must return)"""
        if not body:
            if k is None:
                raise Unsupported(self.f, 'a path through the function does not end in `return <value>`')
            return k(env)
        st, rest = body[0], body[1:]
        if isinstance(st, ast.Return):
            if k is not None or st.value is None:
                raise Unsupported(st, 'return inside a block / without a value')
            a, ta = self.as_seq(*self.ex(st.value, env), st)
            if ta != self.result:
                raise Unsupported(st, 'returns a %s, declared %s' % (ta, self.result))
            return a
        if isinstance(st, ast.Expr):
            v = st.value
            if isinstance(v, ast.Constant) and isinstance(v.value, str):
                return self.stmts(rest, env, k)         # docstring
            if isinstance(v, ast.Attribute) and isinstance(v.value, ast.Name) and v.value.id in env \
                    and env[v.value.id].ty in (STR, BYTES) \
                    and hasattr(str if env[v.value.id].ty == STR else bytes, v.attr):
                # `s.split` as a statement: an attribute probe that succeeds on every str / bytes: no effect
                return self.stmts(rest, env, k)
            t = self.append_target(st, env)
            if t:
                lst, arg = t
                a, ta = self.as_seq(*self.ex(arg, env), st)
                if env[lst].ty not in (LIST(ta), LIST(None)) or ta not in (STR, BYTES):
                    raise Unsupported(st, 'append of a %s to a %s' % (ta, env[lst].ty))
                env2 = dict(env)
                env2[lst] = Var(LIST(ta), nonempty=True)
                return 'let %s := %s ++ [%s]\n%s' % (mangle(lst), mangle(lst), a, self.stmts(rest, env2, k))
            raise Unsupported(st, 'expression statement')
        if isinstance(st, ast.Assign):
            if len(st.targets) != 1 or not isinstance(st.targets[0], ast.Name):
                raise Unsupported(st, 'assignment target')
            x = st.targets[0].id
            if x in self.aliases or x in self.aliases.values() and False:
                raise Unsupported(st, 'rebinding of an append alias')
            v = st.value
            if isinstance(v, ast.Attribute) and v.attr == 'append' and isinstance(v.value, ast.Name) \
                    and v.value.id in env and isinstance(env[v.value.id].ty, tuple):
                # a = L.append: a bound-method alias of a local list; `a(E)` is `L.append(E)`
                lst = v.value.id
                if self.stores.get(x) != 1 or self.stores.get(lst) != 1 or x in env:
                    raise Unsupported(st, 'append alias whose name / list is bound more than once')
                for y in ast.walk(self.f):
                    if isinstance(y, ast.Name) and y.id == x and isinstance(y.ctx, ast.Load) and not any(
                            isinstance(c, ast.Call) and c.func is y for c in ast.walk(self.f)):
                        raise Unsupported(y, 'append alias used other than by calling it')
                self.aliases[x] = lst
                return self.stmts(rest, env, k)
            if x in env and env[x].ty == 'Const':
                raise Unsupported(st, 'rebinding of the constant parameter %s' % x)
            a, ta = self.ex(v, env)
            if ta in (CHR, BYTE):
                raise Unsupported(st, 'binding of an element')
            ne = isinstance(v, ast.List) or (isinstance(v, ast.Call) and isinstance(v.func, ast.Attribute)
                                             and v.func.attr == 'split')
            odd = ne and isinstance(v, ast.Call) and isinstance(v.func.value, ast.Name) \
                and v.func.value.id in self.regex_split and v.func.value.id not in env
            if any(lst == x for lst in self.aliases.values()):
                raise Unsupported(st, 'rebinding of a list with an append alias')
            env2 = dict(env)
            env2[x] = Var(ta, nonempty=ne, odd=odd)
            return 'let %s := %s\n%s' % (mangle(x), a, self.stmts(rest, env2, k))
        if isinstance(st, ast.If):
            c = self.truth(st.test, env)
            if c is True or c is False:
                return self.stmts((st.body if c else st.orelse) + rest, env, k)
            g = self.guard_of(st.test, env)        # `if k in D:`: inside the body `k` is known to be in the declared set

            def guarded(body, kk):
                if g:
                    self.guards.append(g)
                try:
                    return self.stmts(body, env, kk)
                finally:
                    if g:
                        self.guards.pop()
            if self.returns(st.body) and k is None:
                return 'if %s then\n%s\nelse\n%s' % (c, ind(guarded(st.body, None)),
                                                    self.stmts(st.orelse + rest, env, None))
            self.no_escape(st.body + st.orelse)
            names = self.assigned(st.body + st.orelse, env)
            if not names:
                raise Unsupported(st, 'if statement without effect')

            res_ty = {n: env[n].ty for n in names}

            def fin(e2):
                for n in names:
                    res_ty[n] = self.same_ty(n, e2[n].ty, res_ty[n], st, 'one branch')
                return self.state(names)
            env2 = dict(env)
            then_t, else_t = ind(guarded(st.body, fin)), ind(self.stmts(st.orelse, env, fin))
            for n in names:
                env2[n] = Var(res_ty[n])
            return 'let %s := (if %s then\n%s\nelse\n%s)\n%s' % (
                self.state(names), c, then_t, else_t, self.stmts(rest, env2, k))
        if isinstance(st, ast.For):
            if st.orelse or not isinstance(st.target, ast.Name) or st.target.id in env:
                raise Unsupported(st, 'for loop with else / pattern target / shadowing target')
            self.no_escape(st.body)
            rng = self.range_pairs(st, env)
            if rng:
                return self.for_pairs(st, rng, rest, env, k)
            it, tit = self.ex(st.iter, env)
            et = self.elem_ty(tit, st.iter)
            envb = dict(env)
            envb[st.target.id] = Var(et)
            names = self.assigned(st.body, envb)
            if st.target.id in names or not names:
                raise Unsupported(st, 'loop that rebinds its variable / has no effect')
            if any(isinstance(x, ast.Name) and x.id in names for x in ast.walk(st.iter)):
                # Python iterates over the LIVE object: appending to it inside the loop is not a fold over a snapshot
                raise Unsupported(st, 'the loop body changes a variable of the iterated expression')

            res_ty = {n: env[n].ty for n in names}

            def fin(e2):
                for n in names:
                    res_ty[n] = self.same_ty(n, e2[n].ty, res_ty[n], st, 'the loop')
                return self.state(names)
            body = self.stmts(st.body, envb, fin)
            env2 = dict(env)
            rb = self.rebound(st.body)
            for n in names:                      # what the body binds besides is not visible after the loop
                env2[n] = Var(res_ty[n], nonempty=env[n].nonempty and n not in rb)
            return 'let %s := %s.foldl (fun %s %s =>\n%s) %s\n%s' % (
                self.state(names), it, self.state(names), mangle(st.target.id), ind(body), self.state(names),
                self.stmts(rest, env2, k))
        if isinstance(st, ast.Try):
            return self.try_(st, rest, env, k)
        raise Unsupported(st)

    def range_pairs(self, st, env):
        """`for i in range(1, len(L), 2)` with `L` a list of odd length (a regex split with one group) -> L"""
        it = st.iter
        if not (isinstance(it, ast.Call) and isinstance(it.func, ast.Name) and it.func.id == 'range'
                and 'range' not in env and 'range' not in self.stores and not _module_bindings(self.tree, 'range')):
            return None
        if it.keywords or len(it.args) != 3:
            raise Unsupported(it, 'range other than range(1, len(L), 2)')
        a, b, c = it.args
        ok = isinstance(a, ast.Constant) and type(a.value) is int and a.value == 1 \
            and isinstance(c, ast.Constant) and type(c.value) is int and c.value == 2 \
            and isinstance(b, ast.Call) and isinstance(b.func, ast.Name) and b.func.id == 'len' and 'len' not in env \
            and 'len' not in self.stores and len(b.args) == 1 and not b.keywords and isinstance(b.args[0], ast.Name) \
            and b.args[0].id in env and env[b.args[0].id].odd
        if not ok:
            raise Unsupported(it, 'range other than range(1, len(L), 2) with L of odd length')
        return b.args[0].id

    def for_pairs(self, st, lst, rest, env, k):
        """the body may use `i` only as `L[i]` and `L[i + 1]`: both exist for every i of the range because len(L) is
        odd -> a fold over `PyRtC06.pairsFrom1 L`"""
        i = st.target.id
        va, vn = i + '_item', i + '_next'
        if va in env or vn in env or va in self.stores or vn in self.stores:
            raise Unsupported(st, 'name clash with %s / %s' % (va, vn))

        def is_l(n):
            return isinstance(n, ast.Name) and n.id == lst

        class R(ast.NodeTransformer):
            def visit_Subscript(s, n):     # noqa: N805
                if is_l(n.value) and isinstance(n.ctx, ast.Load):
                    sl = n.slice
                    if isinstance(sl, ast.Name) and sl.id == i:
                        return ast.copy_location(ast.Name(id=va, ctx=ast.Load()), n)
                    if isinstance(sl, ast.BinOp) and isinstance(sl.op, ast.Add) and isinstance(sl.left, ast.Name) \
                            and sl.left.id == i and isinstance(sl.right, ast.Constant) and type(sl.right.value) is int \
                            and sl.right.value == 1:
                        return ast.copy_location(ast.Name(id=vn, ctx=ast.Load()), n)
                return s.generic_visit(n)
        import copy
        body = [R().visit(copy.deepcopy(b)) for b in st.body]
        for b in body:
            for x in ast.walk(b):
                if isinstance(x, ast.Name) and x.id in (i, lst):
                    raise Unsupported(st, 'the loop body uses %s other than as %s[%s] / %s[%s + 1]' % (x.id, lst, i, lst, i))
        elt = env[lst].ty[1]
        envb = dict(env)
        envb[va] = Var(elt)
        envb[vn] = Var(elt)
        names = self.assigned(body, envb)
        if not names:
            raise Unsupported(st, 'loop without effect')
        if lst in names:
            raise Unsupported(st, 'the loop body changes the list it walks (%s)' % lst)

        res_ty = {n: env[n].ty for n in names}

        def fin(e2):
            for n in names:
                res_ty[n] = self.same_ty(n, e2[n].ty, res_ty[n], st, 'the loop')
            return self.state(names)
        text = self.stmts(body, envb, fin)
        env2 = dict(env)
        rb = self.rebound(body)
        for n in names:
            env2[n] = Var(res_ty[n], nonempty=env[n].nonempty and n not in rb)
        return 'let %s := (PyRtC06.pairsFrom1 %s).foldl (fun %s (%s, %s) =>\n%s) %s\n%s' % (
            self.state(names), mangle(lst), self.state(names), mangle(va), mangle(vn), ind(text), self.state(names),
            self.stmts(rest, env2, k))

    def try_(self, st, rest, env, k):
        """try: <S1 whose value IS `H[K]`, H a declared hex map>; <more> except KeyError: <handler>
        -> match PyRtC06.hexGet <table> K with | some v => S1[v]; more | none => handler
        (the lookup is evaluated before S1 changes anything; nothing else in the block can raise KeyError)"""
        if st.orelse or st.finalbody or len(st.handlers) != 1 or not st.body:
            raise Unsupported(st, 'try with else / finally / several handlers')
        h = st.handlers[0]
        if h.name is not None or not (isinstance(h.type, ast.Name) and h.type.id == 'KeyError') \
                or 'KeyError' in env or 'KeyError' in self.stores or _module_bindings(self.tree, 'KeyError'):
            raise Unsupported(h, 'handler other than `except KeyError:`')
        self.no_escape(st.body + h.body)
        s1 = st.body[0]
        t = self.append_target(s1, env)
        if t:
            sub = t[1]
        elif isinstance(s1, ast.Assign) and len(s1.targets) == 1 and isinstance(s1.targets[0], ast.Name):
            sub = s1.value
        else:
            raise Unsupported(s1, 'first statement of the try block')
        if not (isinstance(sub, ast.Subscript) and isinstance(sub.value, ast.Name) and sub.value.id in self.hexmaps
                and sub.value.id not in env):
            raise Unsupported(s1, 'the value of the first statement of the try block is not a lookup in a declared map')
        self.module_table(sub.value.id, sub)
        key, tk = self.ex(sub.slice, env)
        if tk != BYTES:
            raise Unsupported(sub, 'key of type %s' % (tk,))
        hv = self.fresh('hv')
        while hv in env or hv in self.stores:
            hv = self.fresh('hv')
        names = self.assigned(st.body + h.body, env)
        if not names:
            raise Unsupported(st, 'try statement without effect')

        res_ty = {n: env[n].ty for n in names}

        def fin(e2):
            for n in names:
                res_ty[n] = self.same_ty(n, e2[n].ty, res_ty[n], st, 'the try statement')
            return self.state(names)
        # S1 with the lookup replaced by the bound value
        repl = ast.Name(id=hv, ctx=ast.Load())
        ast.copy_location(repl, sub)

        class R(ast.NodeTransformer):
            def visit_Subscript(s, n):     # noqa: N805
                return repl if n is sub else s.generic_visit(n)
        import copy
        body = [R().visit(s1)] + list(st.body[1:])
        env_ok = dict(env)
        env_ok[hv] = Var(BYTES)
        ok = self.stmts(body, env_ok, fin)
        bad = self.stmts(h.body, env, fin)
        env2 = dict(env)
        rb = self.rebound(st.body + h.body)
        for n in names:
            env2[n] = Var(res_ty[n], nonempty=env[n].nonempty and n not in rb)
        return 'let %s := (match PyRtC06.hexGet %s.%s %s with\n  | some %s =>\n%s\n  | none =>\n%s)\n%s' % (
            self.state(names), TABLES_NS, self.hexmaps[sub.value.id], key, hv, ind(ok, 2), ind(bad, 2),
            self.stmts(rest, env2, k))

    # ------------------------------------------------------------------------------------------ the definition
    def emit(self):
        env = {n: Var(t) for n, t in self.params}
        for n, v in self.consts.items():
            env[n] = Var('Const', value=v)
        body = self.stmts(list(self.f.body), env, None)
        ps = ''.join(' (%s : %s)' % (mangle(n), lean_ty(t)) for n, t in self.params)
        if self.uses_nfc:
            ps = ' (nfc : List Nat → List Nat)' + ps
        doc = '/-- `%s` (lines %d-%d)%s -/\n' % (self.f.name, self.f.lineno, self.f.end_lineno,
                                               ('; `nfc` = `unicodedata.normalize(\'NFC\', ·)`' if self.uses_nfc else ''))
        return '%sdef %s%s : %s :=\n%s\n' % (doc, self.spec['lean_name'], ps, lean_ty(self.result), ind(body))


def find_function(tree, qualname):
    hits = [n for n in tree.body if isinstance(n, ast.FunctionDef) and n.name == qualname]
    if len(hits) != 1 or len(_module_bindings(tree, qualname)) != 1:
        raise Unsupported(qualname, 'expected exactly one module-level binding (a def), found %d' % len(hits))
    if hits[0].decorator_list:
        raise Unsupported(hits[0], 'decorated function')
    return hits[0]


def check_covers(mod, spec):
    """the declared `covers` facts hold in the module under test: every member of the set is a key of the map"""
    for m, sets in ((spec.get('c06') or {}).get('covers') or {}).items():
        for s in sets:
            if not set(getattr(mod, s)) <= set(getattr(mod, m)):
                raise Unsupported('%s.%s' % (mod.__name__, s), 'not a subset of the keys of %s' % m)


def translate_source(src, specs, module_name, rel, mod=None):
    tree = ast.parse(src)
    short = module_name.split('.')[-1]
    parts, infos, head, emitted = [], [], [], {}
    for spec in specs:
        info = {'function': '%s.%s' % (module_name, spec['qualname']), 'source_file': rel, 'lines': None,
                'lean_def': 'Src.%s.%s' % (short, spec['lean_name']), 'lean_pre': None,
                'tie_theorem': spec['tie_theorem']}
        infos.append(info)
        try:
            fdef = find_function(tree, spec['qualname'])
            info['lines'] = '%d-%d' % (fdef.lineno, fdef.end_lineno)
            if mod is not None:
                check_covers(mod, spec)
            tr = FnTr(fdef, spec, tree, emitted)
            text = tr.emit()
            emitted[spec['qualname']] = tr
            if tr.pre:
                info['lean_pre'] = '; '.join(tr.pre)
            info['operations'] = sorted({'nfc'} if tr.uses_nfc else set())
        except (Unsupported, RecursionError) as e:
            info['error'] = str(e) or type(e).__name__
            parts.append('-- NOT TRANSLATED: %s: %s\n' % (spec['qualname'], info['error'].replace('\n', ' ')))
            head.append('  %s -> NOT TRANSLATED' % spec['qualname'])
            continue
        parts.append(text)
        head.append('  %s (lines %s) -> Src.%s.%s' % (spec['qualname'], info['lines'], short, spec['lean_name']))
    out = ('/- GENERATED by harness/py2lean_c06.py (text functions over declared lookup tables) from %s - do not edit.\n'
           '   Translation of the current source text (rules: notes/SRCTIE.md, section "Round 3e: C06"):\n%s\n-/\n'
           'import BoltonsVerif.PyRtC06\n\nnamespace Src.%s\n\n%s\nend Src.%s\n' % (
               rel, '\n'.join(head), short, '\n'.join(parts), short))
    return out, infos


def translate_module(module_name, specs, repo):
    mod = importlib.import_module(module_name)
    path = os.path.abspath(inspect.getsourcefile(mod))
    if not path.startswith(os.path.abspath(repo) + os.sep):
        raise RuntimeError('%s imported from %s, not from %s' % (module_name, path, repo))
    with open(path) as fh:
        src = fh.read()
    return translate_source(src, specs, module_name, os.path.relpath(path, os.path.abspath(repo)), mod)


def selftest(pids, quick=False, seed=0, verbose=True):
    import py2lean_c06_selftest
    return py2lean_c06_selftest.run(pids, quick=quick, seed=seed, verbose=verbose)
