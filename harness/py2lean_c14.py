"""py2lean_c14 - extension module of the SrcTie source translator for property C14
(`boltons.strutils`: `format_int_list`, `parse_int_list`, `complement_int_list`, `int_ranges_from_int_list`,
`args2sh`, `args2cmd`, `escape_shell_args`).

Plugged into harness/py2lean.py through the spec key `ext: 'py2lean_c14'` (the hooks `prepass`, `translate_op`,
`alias_nodes` that py2lean_c13 introduced; nothing in py2lean.py is edited):

  * `prepass(fdef, tree, spec, notes)` - a desugaring pre-pass run on the `ast.FunctionDef` before the base
    translator sees it.  It rewrites string methods, f-strings / `str.format`, `collections.deque`, `min`/`max`
    of a list and in-place list mutation of OWNED locals INTO the base subset plus calls of *spec-declared
    operations* (names starting with `%c14.`, which no Python source can spell).  Every rewrite is syntactic;
    where the meaning depends on a static type (`a + b` on strings, `x in s` as a substring test, `int(s)` of a
    string) the operation is TYPE-DIRECTED: `translate_op` looks at the inferred types and either emits the string
    operation or hands the original construct back to the base translator.  A rewrite whose side condition cannot
    be checked on the AST is skipped (the construct reaches the base translator unchanged and is refused there) or
    refused with `Unsupported`.
  * `translate_op(ex, node, expected)` - the Lean term of such an operation; the operations are defined in
    lean/BoltonsVerif/PyRtC14.lean (`RT_IMPORT`); a raising operation is hoisted like every partial operation of
    the raising mode (bound once, before the statement, in Python's evaluation order).
  * `FAMILIES`, `reject_tests`, `op_tests` - the translator self-test of this module (py2lean_selftest.py).

Specification of every rewrite: notes/SRCTIE.md section "1h".  Trusted together with py2lean.py.
"""
from __future__ import annotations

import ast
import copy
import string

import py2lean
from py2lean import Unsupported

RT_IMPORT = 'PyRtC14'
OP = '%c14.'
STR = py2lean.STR
INT = py2lean.INT
BOOL = py2lean.BOOL
LSTR = ('List', STR)
LINT = ('List', INT)

_CLASS_TABLES = {}            # pattern -> runs (cache: one evaluation of the regex on every code point per pattern)
DEQUE_METHODS = ('append', 'popleft', 'clear', 'extend')
# a Name load of an owned / deque local is allowed exactly in these positions (see `_Pre._uses_ok`)
PURE_CONSUMERS = ('len', 'min', 'max', 'sorted', 'list', 'tuple', 'set', 'sum')


def _op(name, args, at):
    n = ast.Call(func=ast.Name(id=OP + name, ctx=ast.Load()), args=list(args), keywords=[])
    return ast.copy_location(n, at)


def _name(id_, at, store=False):
    return ast.copy_location(ast.Name(id=id_, ctx=ast.Store() if store else ast.Load()), at)


def _assign(target_id, value, at):
    n = ast.Assign(targets=[_name(target_id, at, True)], value=value, type_comment=None)
    n.lineno = getattr(at, 'lineno', 0)
    return ast.copy_location(n, at)


def _is_call_of(node, fname, nargs=None):
    return isinstance(node, ast.Call) and isinstance(node.func, ast.Name) and node.func.id == fname \
        and not node.keywords and (nargs is None or len(node.args) == nargs)


def _method_call(node, attr=None):
    """`recv.attr(args)` without keywords -> (recv, attr, args)"""
    if isinstance(node, ast.Call) and isinstance(node.func, ast.Attribute) and not node.keywords \
            and (attr is None or node.func.attr == attr):
        return node.func.value, node.func.attr, node.args
    return None


# ---------------------------------------------------------------------------------------------- the pre-pass

class _Pre:
    def __init__(self, fdef, tree, spec, notes):
        self.f = fdef
        self.tree = tree
        self.spec = spec
        self.notes = notes
        self.tmp = 0
        self.params = {a.arg for a in fdef.args.args}

    def note(self, what):
        self.notes.add('c14:' + what)

    def fresh(self):
        self.tmp += 1
        return '_c14t%d' % self.tmp

    # -- module facts ---------------------------------------------------------------------------------
    def _module_binds(self, name):
        """how the module binds `name` at top level: list of binding statements"""
        out = []
        for n in self.tree.body if self.tree is not None else []:
            if isinstance(n, (ast.FunctionDef, ast.ClassDef)) and n.name == name:
                out.append(n)
            elif isinstance(n, (ast.Assign, ast.AugAssign, ast.AnnAssign)):
                tg = n.targets if isinstance(n, ast.Assign) else [n.target]
                for t in tg:
                    if any(isinstance(x, ast.Name) and x.id == name for x in ast.walk(t)):
                        out.append(n)
            elif isinstance(n, (ast.Import, ast.ImportFrom)):
                for a in n.names:
                    if (a.asname or a.name.split('.')[0]) == name or a.name == '*':
                        out.append(n)
            elif isinstance(n, (ast.If, ast.Try, ast.For, ast.While, ast.With)):
                for x in ast.walk(n):
                    if isinstance(x, ast.Name) and x.id == name and isinstance(x.ctx, ast.Store):
                        out.append(n)
                    if isinstance(x, (ast.Import, ast.ImportFrom)) and any(
                            (a.asname or a.name.split('.')[0]) == name or a.name == '*' for a in x.names):
                        out.append(n)
        return out

    def _local_stores(self, name):
        n = 0
        for x in ast.walk(self.f):
            if isinstance(x, ast.Name) and x.id == name and isinstance(x.ctx, (ast.Store, ast.Del)):
                n += 1
            if isinstance(x, ast.arg) and x.arg == name:
                n += 1
            if isinstance(x, ast.ExceptHandler) and x.name == name:
                n += 1
            if isinstance(x, (ast.Global, ast.Nonlocal)) and name in x.names:
                n += 1
        return n

    def _builtin(self, name):
        """`name` means the builtin: bound neither in the function nor at module level"""
        return self._local_stores(name) == 0 and not self._module_binds(name)

    def _is_std_module(self, name, modname):
        """`name` is the module `modname`: imported by `import modname` at top level, bound nowhere else"""
        b = self._module_binds(name)
        return self._local_stores(name) == 0 and len(b) == 1 and isinstance(b[0], ast.Import) and any(
            a.name == modname and (a.asname or a.name) == name for a in b[0].names)

    def _is_deque_ctor(self, node):
        """`collections.deque()` / `deque()` (from collections import deque) without arguments"""
        if not (isinstance(node, ast.Call) and not node.args and not node.keywords):
            return False
        f = node.func
        if isinstance(f, ast.Attribute) and f.attr == 'deque' and isinstance(f.value, ast.Name):
            return self._is_std_module(f.value.id, 'collections')
        if isinstance(f, ast.Name) and f.id == 'deque':
            b = self._module_binds('deque')
            return self._local_stores('deque') == 0 and len(b) == 1 and isinstance(b[0], ast.ImportFrom) \
                and b[0].module == 'collections' and b[0].level == 0 and any(
                    a.name == 'deque' and a.asname is None for a in b[0].names)
        return False

    # -- owned locals -----------------------------------------------------------------------------------
    def _bindings(self, v):
        """every statement that binds the plain name `v` -> list of (kind, node); None when `v` is bound in a way
        this pass does not follow (loop target, tuple unpacking, `with`, handler name, del, nested scope ...)"""
        out = []
        for n in ast.walk(self.f):
            if isinstance(n, (ast.FunctionDef, ast.Lambda, ast.ClassDef, ast.AsyncFunctionDef)) and n is not self.f:
                if any(isinstance(x, ast.Name) and x.id == v for x in ast.walk(n)):
                    return None
            if isinstance(n, ast.Assign):
                for t in n.targets:
                    if isinstance(t, ast.Name) and t.id == v:
                        if len(n.targets) != 1:
                            return None
                        out.append(('assign', n))
                    elif any(isinstance(x, ast.Name) and x.id == v and isinstance(x.ctx, ast.Store)
                             for x in ast.walk(t)):
                        return None
            elif isinstance(n, ast.AugAssign):
                if isinstance(n.target, ast.Name) and n.target.id == v:
                    out.append(('aug', n))
            elif isinstance(n, (ast.For, ast.comprehension)):
                if any(isinstance(x, ast.Name) and x.id == v for x in ast.walk(n.target)):
                    return None
            elif isinstance(n, (ast.With, ast.AnnAssign, ast.NamedExpr, ast.Delete, ast.Global, ast.Nonlocal)):
                for x in ast.walk(n):
                    if isinstance(x, ast.Name) and x.id == v and isinstance(x.ctx, (ast.Store, ast.Del)):
                        return None
                if isinstance(n, (ast.Global, ast.Nonlocal)) and v in n.names:
                    return None
            elif isinstance(n, ast.ExceptHandler) and n.name == v:
                return None
        return out

    def _fresh_list_value(self, val):
        """an expression whose value is a NEW list object nothing else refers to"""
        if isinstance(val, ast.List):
            return True
        if self._is_deque_ctor(val):
            return True
        if isinstance(val, ast.Call) and isinstance(val.func, ast.Name):
            if val.func.id in ('list', 'sorted') and self._builtin(val.func.id):
                return True
            if val.func.id.startswith(OP):
                return True
        if isinstance(val, ast.BinOp) and isinstance(val.op, ast.Add):
            return self._fresh_list_value(val.left) or self._fresh_list_value(val.right) \
                or isinstance(val.left, ast.Name)        # list + list is a new list (checked to be lists by typing)
        if isinstance(val, ast.Subscript) and isinstance(val.slice, ast.Slice):
            return True
        if isinstance(val, ast.ListComp):
            return True
        return False

    def _escapes(self, v):
        """could another reference to the object held by local `v` come into existence?  (conservative)"""
        parents = {}
        for n in ast.walk(self.f):
            for c in ast.iter_child_nodes(n):
                parents[id(c)] = n
        for n in ast.walk(self.f):
            if not (isinstance(n, ast.Name) and n.id == v and isinstance(n.ctx, ast.Load)):
                continue
            p = parents.get(id(n))
            if isinstance(p, ast.Attribute) and p.value is n:
                g = parents.get(id(p))
                if isinstance(g, ast.Call) and g.func is p and p.attr in (
                        'append', 'popleft', 'pop', 'clear', 'extend', 'join', 'index', 'count', 'sort'):
                    continue
                return True
            if isinstance(p, ast.Subscript) and p.value is n:
                continue                      # v[i] / v[a:b]: an item (a scalar) or a new list
            if isinstance(p, ast.Call) and n in p.args and isinstance(p.func, ast.Name) and (
                    p.func.id in PURE_CONSUMERS or p.func.id.startswith(OP)):
                continue
            if isinstance(p, ast.Call) and n in p.args and isinstance(p.func, ast.Attribute) \
                    and p.func.attr in ('join', 'extend'):
                continue                      # sep.join(v) / w.extend(v): the ITEMS are read
            if isinstance(p, (ast.If, ast.While, ast.IfExp)) and p.test is n:
                continue
            if isinstance(p, ast.UnaryOp) and isinstance(p.op, ast.Not):
                continue
            if isinstance(p, ast.BoolOp):
                g = parents.get(id(p))
                if isinstance(g, (ast.If, ast.While, ast.IfExp)) and g.test is p:
                    continue
                return True
            if isinstance(p, ast.BinOp) and isinstance(p.op, ast.Add):
                continue                      # v + w: a new list
            if isinstance(p, ast.Compare):
                continue
            if isinstance(p, ast.For) and p.iter is n:
                continue
            if isinstance(p, ast.comprehension) and p.iter is n:
                continue
            if isinstance(p, ast.Return):
                continue
            if isinstance(p, ast.AugAssign):
                continue
            return True                       # w = v, [v], (v, x), f(v), yield v, ...
        return False

    def owned(self, v):
        """local `v` always holds a list object no other name / container refers to: rebinding `v` to the updated
        list IS in-place mutation"""
        if v in self.params:
            return False
        b = self._bindings(v)
        if not b:
            return False
        for kind, n in b:
            if kind == 'assign' and not self._fresh_list_value(n.value):
                return False
            if kind == 'aug' and not isinstance(n.op, ast.Add):
                return False
        return not self._escapes(v)

    def deque_locals(self):
        out = set()
        for n in ast.walk(self.f):
            if isinstance(n, ast.Assign) and self._is_deque_ctor(n.value):
                for t in n.targets:
                    if isinstance(t, ast.Name):
                        out.add(t.id)
        return out

    # -- R1: collections.deque as a list ---------------------------------------------------------------------
    def r_deque(self):
        dq = self.deque_locals()
        for v in sorted(dq):
            b = self._bindings(v)
            if b is None or not all(k == 'assign' and self._is_deque_ctor(n.value) for k, n in b) \
                    or not self.owned(v):
                raise Unsupported(self.f, 'deque %s is rebound to something else / may be aliased' % v)
            # operations on which a deque and a list agree, only
            parents = {}
            for n in ast.walk(self.f):
                for c in ast.iter_child_nodes(n):
                    parents[id(c)] = n
            for n in ast.walk(self.f):
                if isinstance(n, ast.Name) and n.id == v and isinstance(n.ctx, ast.Load):
                    p = parents.get(id(n))
                    ok = False
                    if isinstance(p, ast.Attribute):
                        g = parents.get(id(p))
                        ok = isinstance(g, ast.Call) and g.func is p and p.attr in DEQUE_METHODS
                    elif isinstance(p, ast.Subscript) and p.value is n:
                        ok = not isinstance(p.slice, ast.Slice) and isinstance(p.ctx, ast.Load)
                    elif isinstance(p, ast.Call) and n in p.args and isinstance(p.func, ast.Name):
                        ok = p.func.id in ('len', 'min', 'max', 'sorted', 'list') and self._builtin(p.func.id) \
                            and len(p.args) == 1 and not p.keywords
                    elif isinstance(p, (ast.If, ast.While)) and p.test is n:
                        ok = True
                    elif isinstance(p, ast.UnaryOp) and isinstance(p.op, ast.Not):
                        ok = True
                    elif isinstance(p, ast.For) and p.iter is n:
                        ok = True
                    if not ok:
                        raise Unsupported(n, 'use of deque %s on which a deque and a list may differ' % v)
        if not dq:
            return
        # the constructor check must see the unmodified function: collect first
        ctor_ids = {id(n) for n in ast.walk(self.f) if self._is_deque_ctor(n)}

        class T2(ast.NodeTransformer):
            def visit_Call(self, n):
                self.generic_visit(n)
                if id(n) in ctor_ids:
                    return ast.copy_location(ast.List(elts=[], ctx=ast.Load()), n)
                return n
        self.f = T2().visit(self.f)
        self.dq = dq
        self.note('deque')

    # -- R2: in-place mutation of owned locals -> rebinding ------------------------------------------------------
    def r_mutation(self):
        """`v.append(e)` -> `v = v + [e]`; `v.extend(e)` / `v += e` -> `v = v + e`; `v.clear()` -> `v = []`;
        a statement containing ONE `v.popleft()` -> `t = v[0]; v = v[1:]; <statement with t>`  (v owned)"""
        names = set()
        for n in ast.walk(self.f):
            mc = _method_call(n)
            if mc and isinstance(mc[0], ast.Name) and mc[1] in ('append', 'extend', 'clear', 'popleft', 'sort'):
                names.add(mc[0].id)
            if isinstance(n, ast.AugAssign) and isinstance(n.target, ast.Name) and isinstance(n.op, ast.Add):
                b = self._bindings(n.target.id)
                if b and any(k == 'assign' and self._fresh_list_value(x.value) for k, x in b):
                    names.add(n.target.id)
        own = {v for v in names if self.owned(v)}
        if not own:
            return
        pre = self

        def rewrite_block(stmts):
            out = []
            for st in stmts:
                for fld in ('body', 'orelse', 'finalbody'):
                    if hasattr(st, fld) and isinstance(getattr(st, fld), list):
                        setattr(st, fld, rewrite_block(getattr(st, fld)))
                if isinstance(st, ast.Try):
                    for h in st.handlers:
                        h.body = rewrite_block(h.body)
                out.extend(rewrite_stmt(st))
            return out

        def rewrite_stmt(st):
            if isinstance(st, (ast.If, ast.For, ast.While, ast.Try, ast.With)):
                # a popleft in a loop header / test is not handled (refused by the base translator)
                return [st]
            pops = [n for n in ast.walk(st) if _method_call(n, 'popleft') and isinstance(n.func.value, ast.Name)
                    and n.func.value.id in own and not n.args]
            pre_stmts = []
            if pops:
                if len(pops) != 1 or not pre._popleft_first(st, pops[0]):
                    raise Unsupported(st, 'popleft() not the first operation evaluated in its statement')
                v = pops[0].func.value.id
                t = pre.fresh()
                pre_stmts = [
                    _assign(t, ast.copy_location(ast.Subscript(
                        value=_name(v, st), slice=ast.copy_location(ast.Constant(value=0), st), ctx=ast.Load()), st), st),
                    _assign(v, ast.copy_location(ast.Subscript(
                        value=_name(v, st), slice=ast.Slice(lower=ast.copy_location(ast.Constant(value=1), st),
                                                            upper=None, step=None), ctx=ast.Load()), st), st)]
                target = pops[0]

                class R(ast.NodeTransformer):
                    def visit_Call(self, n):
                        if n is target:
                            return _name(t, n)
                        self.generic_visit(n)
                        return n
                st = R().visit(st)
                pre.note('popleft')
                if isinstance(st, ast.Expr) and isinstance(st.value, ast.Name):
                    return pre_stmts               # `v.popleft()` as a statement
            if isinstance(st, ast.Expr):
                mc = _method_call(st.value)
                if mc and isinstance(mc[0], ast.Name) and mc[0].id in own:
                    v, m, args = mc[0].id, mc[1], mc[2]
                    if m == 'append' and len(args) == 1:
                        pre.note('append')
                        return pre_stmts + [_assign(v, ast.copy_location(ast.BinOp(
                            left=_name(v, st), op=ast.Add(),
                            right=ast.copy_location(ast.List(elts=[args[0]], ctx=ast.Load()), st)), st), st)]
                    if m == 'extend' and len(args) == 1:
                        pre.note('extend')
                        arg = _op('as_list', [args[0]], st)
                        if isinstance(args[0], ast.Call) and isinstance(args[0].func, ast.Name) \
                                and args[0].func.id == 'range' and not args[0].keywords and 1 <= len(args[0].args) <= 2 \
                                and pre._builtin('range') and not any(isinstance(x, ast.Starred) for x in args[0].args):
                            arg = _op('range', args[0].args, st)       # `extend` exhausts the range object
                        return pre_stmts + [_assign(v, ast.copy_location(ast.BinOp(
                            left=_name(v, st), op=ast.Add(), right=arg), st), st)]
                    if m == 'sort' and not args and pre._builtin('sorted'):
                        pre.note('sort')
                        return pre_stmts + [_assign(v, ast.copy_location(ast.Call(
                            func=_name('sorted', st), args=[_name(v, st)], keywords=[]), st), st)]
                    if m == 'clear' and not args:
                        pre.note('clear')
                        return pre_stmts + [_assign(v, ast.copy_location(ast.List(elts=[], ctx=ast.Load()), st), st)]
            if isinstance(st, ast.AugAssign) and isinstance(st.target, ast.Name) and st.target.id in own \
                    and isinstance(st.op, ast.Add):
                pre.note('list+=')
                return pre_stmts + [_assign(st.target.id, ast.copy_location(ast.BinOp(
                    left=_name(st.target.id, st), op=ast.Add(), right=_op('as_list', [st.value], st)), st), st)]
            return pre_stmts + [st]

        self.f.body = rewrite_block(self.f.body)

    def _popleft_first(self, st, call):
        """in statement `st` nothing that can raise or has an effect is evaluated before `call`: every node that is
        not an ancestor of `call` is a Name / Constant / the method attribute of the enclosing `w.append(...)`"""
        anc = set()

        def find(n, path):
            if n is call:
                anc.update(id(p) for p in path)
                return True
            return any(find(c, path + [n]) for c in ast.iter_child_nodes(n))
        if not find(st, []):
            return False
        v = call.func.value.id
        for n in ast.walk(st):
            if id(n) in anc or n is call or n is call.func or n is call.func.value:
                continue
            if isinstance(n, (ast.Constant, ast.Load, ast.Store, ast.expr_context)):
                continue
            if isinstance(n, ast.Name):
                if n.id == v:
                    return False
                continue
            if isinstance(n, ast.Attribute) and isinstance(n.value, ast.Name) and n.attr in ('append',):
                continue
            if isinstance(n, ast.JoinedStr):      # the format spec of an f-string field: constants
                if all(isinstance(x, ast.Constant) for x in n.values):
                    continue
            return False
        return True

    # -- R3: expressions --------------------------------------------------------------------------------------------
    def _format_fields(self, fmt):
        """a `str.format` template with auto-numbered fields -> [('lit', text) | ('field', spec)], None = not handled"""
        out = []
        try:
            parsed = list(string.Formatter().parse(fmt))
        except ValueError:
            return None
        for lit, field, spec, conv in parsed:
            if lit:
                out.append(('lit', lit))
            if field is None:
                continue
            if field != '' or conv is not None or spec not in ('', 'd'):
                return None
            out.append(('field', spec))
        return out

    def _concat(self, parts, at):
        """left-to-right string concatenation of the parts (each a Str-typed expression)"""
        if not parts:
            return ast.copy_location(ast.Constant(value=''), at)
        e = parts[0]
        for p in parts[1:]:
            e = _op('add', [e, p], at)
        return e

    def r_exprs(self):
        pre = self

        class T(ast.NodeTransformer):
            def visit_JoinedStr(self, n):
                # f'..{e:d}..{e}..': the fields are evaluated left to right, then concatenated
                parts = []
                for v in n.values:
                    if isinstance(v, ast.Constant) and isinstance(v.value, str):
                        parts.append(v)
                    elif isinstance(v, ast.FormattedValue) and v.conversion == -1:
                        spec = ''
                        if v.format_spec is not None:
                            if not (isinstance(v.format_spec, ast.JoinedStr) and all(
                                    isinstance(x, ast.Constant) and isinstance(x.value, str)
                                    for x in v.format_spec.values)):
                                return n
                            spec = ''.join(x.value for x in v.format_spec.values)
                        if spec not in ('', 'd'):
                            return n
                        parts.append(_op('fmt_d' if spec == 'd' else 'fmt_s', [self.visit(v.value)], v))
                    else:
                        return n
                pre.note('f-string')
                return pre._concat(parts, n)

            def visit_BinOp(self, n):
                self.generic_visit(n)
                if isinstance(n.op, ast.Add):
                    return _op('add', [n.left, n.right], n)       # type-directed: str + str, else the base `+`
                if isinstance(n.op, ast.Sub):
                    return _op('sub', [n.left, n.right], n)       # type-directed: set - set, else the base `-`
                if isinstance(n.op, ast.Mult):
                    return _op('mul', [n.left, n.right], n)       # type-directed: str * int, else the base `*`
                return n

            def visit_For(self, n):
                self.generic_visit(n)
                if isinstance(n.iter, ast.Name):
                    # type-directed: iteration over a string = over its one-character strings; else the iterable itself
                    n.iter = _op('iter', [n.iter], n.iter)
                return n

            def visit_ListComp(self, n):
                # [int(v) for v in E] = list(map(int, E)): the first failing item raises, nothing else is observable
                g = n.generators
                if len(g) == 1 and not g[0].ifs and not g[0].is_async and isinstance(g[0].target, ast.Name) \
                        and _is_call_of(n.elt, 'int', 1) and isinstance(n.elt.args[0], ast.Name) \
                        and n.elt.args[0].id == g[0].target.id and pre._builtin('int'):
                    pre.note('map-int')
                    return _op('map_int', [self.visit(g[0].iter)], n)
                self.generic_visit(n)
                return n

            def visit_Compare(self, n):
                self.generic_visit(n)
                if len(n.ops) == 1 and isinstance(n.ops[0], (ast.Is, ast.IsNot)) \
                        and isinstance(n.comparators[0], ast.Constant) and n.comparators[0].value is None \
                        and isinstance(n.left, ast.Call) and isinstance(n.left.func, ast.Name) \
                        and len(n.left.args) == 1 and not n.left.keywords \
                        and not isinstance(n.left.args[0], ast.Starred):
                    # `<module-level compiled one-character-class regex>.search(s) is None`: no character of `s` is
                    # in the class - a spec-declared predicate whose meaning is the TABLE obtained by evaluating the
                    # regex on every code point (the same table as Generated/C14_ShTables.lean `shSafeRanges`)
                    runs = pre._class_search_table(n.left.func.id)
                    if runs is not None:
                        pre.note('regex-class')
                        t = ast.copy_location(ast.Constant(value=';'.join('%d,%d' % r for r in runs)), n)
                        r = _op('none_in_class', [t, n.left.args[0]], n)
                        if isinstance(n.ops[0], ast.IsNot):
                            r = ast.copy_location(ast.UnaryOp(op=ast.Not(), operand=r), n)
                        return r
                if len(n.ops) == 1 and isinstance(n.ops[0], (ast.In, ast.NotIn)):
                    # type-directed: substring test on two strings, else the base membership test
                    return _op('in' if isinstance(n.ops[0], ast.In) else 'not_in', [n.left, n.comparators[0]], n)
                return n

            def visit_Call(self, n):
                self.generic_visit(n)
                mc = _method_call(n)
                if mc is not None:
                    recv, m, args = mc
                    if m == 'format' and isinstance(recv, ast.Constant) and isinstance(recv.value, str):
                        flds = pre._format_fields(recv.value)
                        if flds is not None and sum(1 for k, _ in flds if k == 'field') == len(args) \
                                and not any(isinstance(a, ast.Starred) for a in args):
                            it = iter(args)
                            parts = []
                            for k, x in flds:
                                if k == 'lit':
                                    parts.append(ast.copy_location(ast.Constant(value=x), n))
                                else:
                                    parts.append(_op('fmt_d' if x == 'd' else 'fmt_s', [next(it)], n))
                            pre.note('str.format')
                            return pre._concat(parts, n)
                        return n
                    if m == 'join' and len(args) == 1 and not isinstance(args[0], ast.Starred):
                        pre.note('join')
                        return _op('join', [recv, args[0]], n)
                    if m == 'replace' and len(args) == 2 and not any(isinstance(x, ast.Starred) for x in args):
                        pre.note('replace')
                        return _op('replace', [recv, args[0], args[1]], n)
                    if m == 'strip' and not args:
                        pre.note('strip')
                        return _op('strip', [recv], n)
                    if m == 'split' and len(args) == 1 and not isinstance(args[0], ast.Starred):
                        pre.note('split')
                        return _op('split', [recv, args[0]], n)
                    return n
                if isinstance(n.func, ast.Name) and not n.keywords and n.func.id in ('set', 'frozenset', 'sorted') \
                        and len(n.args) == 1 and pre._builtin(n.func.id) and isinstance(n.args[0], ast.Call) \
                        and isinstance(n.args[0].func, ast.Name) and n.args[0].func.id == 'range' \
                        and not n.args[0].keywords and 1 <= len(n.args[0].args) <= 2 and pre._builtin('range') \
                        and not any(isinstance(a, ast.Starred) for a in n.args[0].args):
                    pre.note('list-range')                    # the consumer exhausts the range object
                    n.args[0] = _op('range', n.args[0].args, n.args[0])
                    return n
                if isinstance(n.func, ast.Name) and not n.keywords and n.func.id in ('list', 'tuple') \
                        and len(n.args) == 1 and pre._builtin(n.func.id):
                    inner = n.args[0]
                    # `map` / `range` objects are lazy: accepted only where `list(...)` / `tuple(...)` exhausts them
                    if _is_call_of(inner, 'map', 2) and isinstance(inner.args[0], ast.Name) \
                            and inner.args[0].id == 'int' and pre._builtin('map') and pre._builtin('int'):
                        pre.note('map-int')
                        return _op('map_int', [inner.args[1]], n)
                    if isinstance(inner, ast.Call) and isinstance(inner.func, ast.Name) and inner.func.id == 'range' \
                            and not inner.keywords and 1 <= len(inner.args) <= 2 and pre._builtin('range') \
                            and not any(isinstance(a, ast.Starred) for a in inner.args):
                        pre.note('list-range')
                        return _op('range', inner.args, n)
                    return n
                if isinstance(n.func, ast.Name) and not n.keywords and n.func.id == 'int' and len(n.args) == 1 \
                        and not isinstance(n.args[0], ast.Starred) and pre._builtin('int'):
                    return _op('int', [n.args[0]], n)             # type-directed: int(<str>), else the base `int`
                if isinstance(n.func, ast.Name) and not n.keywords and len(n.args) == 1 \
                        and not isinstance(n.args[0], ast.Starred) and n.func.id in ('min', 'max') \
                        and pre._builtin(n.func.id):
                    pre.note(n.func.id + '-of-list')
                    return _op(n.func.id + '_list', [n.args[0]], n)
                return n
        self.f = T().visit(self.f)

    # -- module-level `name = re.compile('<one character class>').search` -----------------------------------------------
    def _class_search_table(self, name):
        """maximal runs of code points c with `name(chr(c)) is None`, or None when `name` is not provably the bound
        `search` of a flag-free compiled pattern that is ONE character class (then `search(s) is None` iff no
        character of `s` matches)"""
        import re
        b = self._module_binds(name)
        if self._local_stores(name) or len(b) != 1 or not isinstance(b[0], ast.Assign) or len(b[0].targets) != 1 \
                or not isinstance(b[0].targets[0], ast.Name):
            return None
        v = b[0].value
        if not (isinstance(v, ast.Attribute) and v.attr == 'search' and isinstance(v.value, ast.Call)
                and isinstance(v.value.func, ast.Attribute) and v.value.func.attr == 'compile'
                and isinstance(v.value.func.value, ast.Name) and self._is_std_module(v.value.func.value.id, 're')
                and len(v.value.args) == 1 and not v.value.keywords and isinstance(v.value.args[0], ast.Constant)
                and isinstance(v.value.args[0].value, str)):
            return None
        pat = v.value.args[0].value
        if pat in _CLASS_TABLES:
            return _CLASS_TABLES[pat]
        try:
            tree = re._parser.parse(pat, 0)
            cp = re.compile(pat)
        except Exception:
            return None
        if len(tree) != 1 or str(tree[0][0]) not in ('IN', 'LITERAL', 'NOT_LITERAL') or cp.flags != re.UNICODE:
            return None
        runs, lo = [], None
        search = cp.search
        for c in range(0x110000):
            safe = (not 0xD800 <= c <= 0xDFFF) and search(chr(c)) is None
            if safe and lo is None:
                lo = c
            if not safe and lo is not None:
                runs.append((lo, c - 1))
                lo = None
        if lo is not None:
            runs.append((lo, 0x10FFFF))
        _CLASS_TABLES[pat] = runs
        return runs

    # -- R4: an Optional parameter given its default inside `if p is None:` -----------------------------------------
    def _definitely_assigns(self, stmts, p):
        for st in stmts:
            if isinstance(st, ast.Assign) and len(st.targets) == 1 and isinstance(st.targets[0], ast.Name) \
                    and st.targets[0].id == p:
                return True
            if isinstance(st, ast.If) and st.orelse and self._definitely_assigns(st.body, p) \
                    and self._definitely_assigns(st.orelse, p):
                return True
        return False

    def r_opt_param(self):
        """top level `if p is None: A` (no else; `A` assigns `p` on every path; `p` a parameter the spec declares
        `Option T`, not stored before):  ->  `if p is None: A[p := q] else: q = p`, and `q` for `p` in everything after
        (a renaming: after the statement `p` is never None; `q` has the type `T`)"""
        for i, st in enumerate(self.f.body):
            if not (isinstance(st, ast.If) and not st.orelse and isinstance(st.test, ast.Compare)
                    and len(st.test.ops) == 1 and isinstance(st.test.ops[0], ast.Is)
                    and isinstance(st.test.left, ast.Name) and isinstance(st.test.comparators[0], ast.Constant)
                    and st.test.comparators[0].value is None):
                continue
            p = st.test.left.id
            if p not in self.spec['params'] or not self.spec['params'][p].startswith('Option ') \
                    or not self._definitely_assigns(st.body, p):
                continue
            before = ast.Module(body=self.f.body[:i], type_ignores=[])
            if any(isinstance(x, ast.Name) and x.id == p and isinstance(x.ctx, (ast.Store, ast.Del))
                   for x in ast.walk(before)):
                continue
            if any(isinstance(x, (ast.FunctionDef, ast.Lambda, ast.ClassDef)) for x in ast.walk(
                    ast.Module(body=self.f.body[i:], type_ignores=[]))):
                continue
            q = '_c14p_' + p

            class R(ast.NodeTransformer):
                def visit_Name(self, n):
                    if n.id == p:
                        return ast.copy_location(ast.Name(id=q, ctx=n.ctx), n)
                    return n
            st.body = [R().visit(x) for x in st.body]
            st.orelse = [_assign(q, _name(p, st), st)]
            self.f.body[i + 1:] = [R().visit(x) for x in self.f.body[i + 1:]]
            self.note('opt-param')

    # -- R5: `a, b = E` (E not a display) -------------------------------------------------------------------------------
    def r_unpack(self):
        pre = self

        def rewrite_block(stmts):
            out = []
            for st in stmts:
                for fld in ('body', 'orelse', 'finalbody'):
                    if hasattr(st, fld) and isinstance(getattr(st, fld), list):
                        setattr(st, fld, rewrite_block(getattr(st, fld)))
                if isinstance(st, ast.Try):
                    for h in st.handlers:
                        h.body = rewrite_block(h.body)
                if isinstance(st, ast.Assign) and len(st.targets) == 1 and isinstance(st.targets[0], ast.Tuple) \
                        and len(st.targets[0].elts) == 2 and all(isinstance(e, ast.Name) for e in st.targets[0].elts) \
                        and st.targets[0].elts[0].id != st.targets[0].elts[1].id \
                        and not isinstance(st.value, (ast.Tuple, ast.List)):
                    t = pre.fresh()
                    a, b = st.targets[0].elts
                    pre.note('unpack2')
                    out.append(_assign(t, _op('unpack2', [st.value], st), st))
                    for k, tgt in enumerate((a, b)):
                        out.append(_assign(tgt.id, ast.copy_location(ast.Subscript(
                            value=_name(t, st), slice=ast.copy_location(ast.Constant(value=k), st), ctx=ast.Load()), st), st))
                else:
                    out.append(st)
            return out
        self.f.body = rewrite_block(self.f.body)

    # -- R6: calls of other translated module-level functions ---------------------------------------------------------------
    def r_calls(self):
        pre = self
        callees = {sp['qualname']: sp for sp in _module_specs(self.spec) if sp is not self.spec
                   and '.' not in sp['qualname'] and sp['qualname'] != self.spec['qualname']}
        defs = {n.name: n for n in (self.tree.body if self.tree is not None else []) if isinstance(n, ast.FunctionDef)}

        class T(ast.NodeTransformer):
            def visit_Call(self, n):
                self.generic_visit(n)
                if not (isinstance(n.func, ast.Name) and n.func.id in callees and n.func.id in defs):
                    return n
                f = n.func.id
                if pre._local_stores(f) or len(pre._module_binds(f)) != 1:
                    raise Unsupported(n, 'callee %s is rebound' % f)
                fd = defs[f]
                a = fd.args
                if a.vararg or a.kwarg or a.kwonlyargs or a.posonlyargs or fd.decorator_list:
                    raise Unsupported(n, 'callee %s: signature' % f)
                names = [x.arg for x in a.args]
                dflt = dict(zip(names[len(names) - len(a.defaults):], a.defaults))
                if any(isinstance(x, ast.Starred) for x in n.args) or any(k.arg is None for k in n.keywords) \
                        or len(n.args) > len(names):
                    raise Unsupported(n, 'call of %s with star arguments' % f)
                got = dict(zip(names, n.args))
                for k in n.keywords:
                    if k.arg in got or k.arg not in names:
                        raise Unsupported(n, 'call of %s: keyword %s' % (f, k.arg))
                    got[k.arg] = k.value
                # Python evaluates positional arguments, then keywords, left to right: keep that order only when it is
                # the parameter order (else refuse: the hoisted operations would be reordered)
                order = [names.index(x) for x in list(got)]
                if order != sorted(order):
                    raise Unsupported(n, 'call of %s: keywords out of parameter order' % f)
                full = []
                for x in names:
                    if x in got:
                        full.append(got[x])
                    elif x in dflt and isinstance(dflt[x], ast.Constant):
                        full.append(copy.deepcopy(dflt[x]))        # a constant default: evaluated once, immutable
                    else:
                        raise Unsupported(n, 'call of %s: argument %s missing' % (f, x))
                pre.note('call')
                return _op('call.' + f, full, n)
        self.f = T().visit(self.f)

    # -- R7 (round 3f): spec-declared externals as parameters --------------------------------------------------------
    def r_extern(self):
        """spec key `extern_params: {'sys.platform': '<param>'}`: a READ of the attribute `platform` of the standard
        module `sys` (the top-level `import sys`, bound nowhere else) is an external input of the function: it becomes
        the trailing parameter `<param>` (declared in the spec's `params`, type `Str`); the self-test sets the real
        `sys.platform` to the value it passes.  Refused: a store to the attribute, `<param>` bound in the function,
        any other use of the name `sys` in the function (it could hand the module out)."""
        ext = self.spec.get('extern_params') or {}
        for dotted, param in ext.items():
            modname, attr = dotted.split('.')
            if param not in self.spec['params'] or list(self.spec['params'])[-len(ext):].count(param) != 1:
                raise Unsupported(self.f, 'extern parameter %s must be a trailing parameter of the spec' % param)
            if self._local_stores(param) or any(isinstance(x, ast.Name) and x.id == param for x in ast.walk(self.f)):
                raise Unsupported(self.f, 'the name %s is used by the function' % param)
            pre = self
            hits = []

            class T(ast.NodeTransformer):
                def visit_Attribute(self, n):
                    if isinstance(n.value, ast.Name) and n.value.id == modname and n.attr == attr:
                        if not isinstance(n.ctx, ast.Load):
                            raise Unsupported(n, 'store to %s' % dotted)
                        if not pre._is_std_module(modname, modname):
                            raise Unsupported(n, '%s is not the top-level `import %s`' % (modname, modname))
                        hits.append(n)
                        return ast.copy_location(ast.Name(id=param, ctx=ast.Load()), n)
                    self.generic_visit(n)
                    return n
            self.f = T().visit(self.f)
            if any(isinstance(x, ast.Name) and x.id == modname for x in ast.walk(self.f)):
                raise Unsupported(self.f, 'the module %s is used other than through %s' % (modname, dotted))
            self.f.args.args.append(ast.arg(arg=param, annotation=None))
            if hits:
                self.note('extern')

    def run(self):
        self.f = copy.deepcopy(self.f)
        self.r_extern()
        self.r_opt_param()
        self.r_unpack()
        self.r_deque()
        self.r_mutation()
        self.r_calls()
        self.r_exprs()
        ast.fix_missing_locations(self.f)
        return self.f


def _module_specs(spec):
    """the specs of this extension for the same module, in emission order (callee lookup)"""
    try:
        import srctie_specs
    except ImportError:
        return []
    out = []
    for specs in srctie_specs.SPECS.values():
        for sp in specs:
            if sp.get('ext') == 'py2lean_c14' and sp.get('module') == spec.get('module') and sp not in out:
                out.append(sp)
    return out


def _only_sorted_uses(fdef, param):
    """every read of `param` in the callee is the sole argument of `sorted(...)` without key: the callee's result
    does not depend on the order (nor on duplicates' positions) of the items it is given"""
    parents = {}
    for n in ast.walk(fdef):
        for c in ast.iter_child_nodes(n):
            parents[id(c)] = n
    uses = 0
    for n in ast.walk(fdef):
        if isinstance(n, ast.Name) and n.id == param:
            if not isinstance(n.ctx, ast.Load):
                return False
            p = parents.get(id(n))
            if not (_is_call_of(p, 'sorted', 1) and p.args[0] is n):
                return False
            uses += 1
    return uses > 0 and not any(isinstance(n, ast.FunctionDef) and n.name == 'sorted' for n in ast.walk(fdef))


def prepass(fdef, tree, spec, notes):
    mt = getattr(fdef, '_module_tree', None)
    out = _Pre(fdef, tree if tree is not None else mt, spec, notes).run()
    if mt is not None:
        out._module_tree = mt
    return out


# ---------------------------------------------------------------------------------------------- operations

def _types(ex, args):
    """static types of the argument expressions, without emitting anything"""
    return [ex.fn._type_of(a, ex.nn) if ex.env is None else ExprProbe(ex, a) for a in args]


def ExprProbe(ex, a):
    # inside a comprehension / lambda the variables are lambda-bound: probe with a throw-away translator state
    saved = (ex.hoists, ex.infer_only)
    try:
        ex.hoists, ex.infer_only = [], True
        return ex.expr(a)[1]
    except py2lean._Unknown:
        return None
    finally:
        ex.hoists, ex.infer_only = saved


def _need(ts):
    if any(t is None or not py2lean.known(t) for t in ts):
        raise py2lean._Unknown()


def translate_op(ex, node, expected):
    name = node.func.id[len(OP):]
    a = node.args
    atom = py2lean.FnTranslator._atom
    if node.keywords:
        raise Unsupported(node, 'operation with keywords')
    if name == 'add' and len(a) == 2:
        ts = _types(ex, a)
        if ts[0] == STR or ts[1] == STR:
            l, _ = ex.expr(a[0], STR)
            r, _ = ex.expr(a[1], STR)
            return '(%s ++ %s)' % (l, r), STR
        n = ast.copy_location(ast.BinOp(left=a[0], op=ast.Add(), right=a[1]), node)
        return ex._binop(n)
    if name == 'as_list' and len(a) == 1:
        # the argument of `v.extend(e)` / `v += e` for an owned list `v`: any iterable of items; a list here
        e, t = ex.expr(a[0])
        if t is None or t[0] != 'List':
            if t is None or not py2lean.known(t):
                raise py2lean._Unknown()
            raise Unsupported(node, 'extend / += with a non-list (%s)' % (t,))
        return e, t
    if name == 'join' and len(a) == 2:
        sep, _ = ex.expr(a[0], STR)
        parts, t = ex.consumed(a[1], LSTR) if hasattr(ex, 'consumed') else ex.expr(a[1], LSTR)
        if t != LSTR:
            _need([t])
            raise Unsupported(node, 'join of %s' % (t,))
        return '(PyRtC14.join %s %s)' % (atom(sep), atom(parts)), STR
    if name == 'fmt_d' and len(a) == 1:
        e, t = ex.expr(a[0])
        _need([t])
        if t != INT:
            raise Unsupported(node, "format spec 'd' applied to %s" % (t,))
        return '(PyRtC14.fmtD %s)' % atom(e), STR
    if name == 'fmt_s' and len(a) == 1:
        e, t = ex.expr(a[0])
        _need([t])
        if t == STR:
            return e, STR
        if t == INT:
            return '(PyRtC14.fmtD %s)' % atom(e), STR
        raise Unsupported(node, 'formatting a value of type %s' % (t,))
    if name.startswith('call.'):
        f = name[len('call.'):]
        sp = [x for x in _module_specs(ex.fn.spec) if x['qualname'] == f]
        if not sp or not sp[0].get('raises') or sp[0].get('kind') != 'function' or len(a) != len(sp[0]['params']):
            raise Unsupported(node, 'call of %s: not a translated function of this module' % f)
        sp = sp[0]
        if ex.fn.emitted is not None and sp['lean_name'] not in ex.fn.emitted:
            raise Unsupported(node, 'callee %s is not translated (or comes later in the file)' % f)
        if not ex.fn.raises:
            raise Unsupported(node, 'a raising operation outside the raising mode')
        terms = []
        for arg, (pn, ptxt) in zip(a, sp['params'].items()):
            pt = py2lean.parse_type(ptxt)
            at = _types(ex, [arg])[0]
            if at is not None and at[0] == 'Set' and pt[0] == 'List' and at[1] == pt[1]:
                fd = ex.fn.module_defs.get(f)
                if fd is None or not _only_sorted_uses(fd, pn):
                    raise Unsupported(node, 'a set passed to %s(%s=...), which does not only sort it' % (f, pn))
                e, _ = ex.expr(arg)
                terms.append('(PyRt.Set.toList %s)' % atom(e))
            else:
                e, _ = ex.expr(arg, pt)
                terms.append(atom(e))
        return ex.partial('%s %s' % (sp['lean_name'], ' '.join(terms)), node), py2lean.parse_type(sp['result'])
    if name == 'mul' and len(a) == 2:
        ts = _types(ex, a)
        if ts[0] == STR and ts[1] == INT:
            l, _ = ex.expr(a[0], STR)
            r, _ = ex.expr(a[1], INT)
            return '(PyRtC14.repeatStr %s %s)' % (atom(l), atom(r)), STR
        n = ast.copy_location(ast.BinOp(left=a[0], op=ast.Mult(), right=a[1]), node)
        return ex._binop(n)
    if name == 'iter' and len(a) == 1:
        ts = _types(ex, a)
        if ts[0] == STR:
            e, _ = ex.expr(a[0], STR)
            return '(PyRtC14.chars %s)' % atom(e), LSTR
        return ex.expr(a[0], expected)
    if name == 'none_in_class' and len(a) == 2:
        e, _ = ex.expr(a[1], STR)
        runs = [tuple(int(x) for x in r.split(',')) for r in a[0].value.split(';')] if a[0].value else []
        tab = '([%s] : List (Nat × Nat))' % ', '.join('(%d, %d)' % r for r in runs)
        return '(PyRtC14.allInRanges %s %s)' % (tab, atom(e)), BOOL
    if name == 'replace' and len(a) == 3:
        e, t = ex.expr(a[0])
        _need([t])
        if t != STR:
            raise Unsupported(node, 'replace() of %s' % (t,))
        o, _ = ex.expr(a[1], STR)
        n_, _ = ex.expr(a[2], STR)
        return '(PyRtC14.replace %s %s %s)' % (atom(e), atom(o), atom(n_)), STR
    if name == 'sub' and len(a) == 2:
        ts = _types(ex, a)
        if ts[0] is not None and ts[0][0] == 'Set':
            l, lt = ex.expr(a[0])
            r, rt = ex.expr(a[1], lt)
            _need([lt])
            if lt != ('Set', INT):
                raise Unsupported(node, 'set difference on %s' % (lt,))
            return '(PyRtC14.setDiff %s %s)' % (atom(l), atom(r)), lt
        n = ast.copy_location(ast.BinOp(left=a[0], op=ast.Sub(), right=a[1]), node)
        return ex._binop(n)
    if name == 'unpack2' and len(a) == 1:
        e, t = ex.expr(a[0])
        _need([t])
        if t[0] == 'Prod' and len(t[1]) == 2:
            return e, t
        if t[0] != 'List':
            raise Unsupported(node, 'unpacking %s' % (t,))
        if not ex.fn.raises:
            raise Unsupported(node, 'a raising operation outside the raising mode')
        return ex.partial('PyRtC14.unpack2? %s' % atom(e), node), ('Prod', (t[1], t[1]))
    if name in ('min_list', 'max_list') and len(a) == 1:
        e, t = ex.expr(a[0])
        _need([t])
        if t == ('Set', INT):              # order-independent: the items of the set in any order
            e, t = '(PyRt.Set.toList %s)' % atom(e), LINT
        if t != LINT:
            raise Unsupported(node, '%s of %s' % (name[:3], t))
        if not ex.fn.raises:
            raise Unsupported(node, 'a raising operation outside the raising mode')
        return ex.partial('PyRtC14.%sList? %s' % (name[:3], atom(e)), node), INT
    if name == 'strip' and len(a) == 1:
        e, t = ex.expr(a[0])
        _need([t])
        if t != STR:
            raise Unsupported(node, 'strip() of %s' % (t,))
        return '(PyRtC14.strip %s)' % atom(e), STR
    if name == 'split' and len(a) == 2:
        e, t = ex.expr(a[0])
        _need([t])
        if t != STR:
            raise Unsupported(node, 'split() of %s' % (t,))
        d, _ = ex.expr(a[1], STR)
        if not ex.fn.raises:
            raise Unsupported(node, 'a raising operation outside the raising mode')
        return ex.partial('PyRtC14.split? %s %s' % (atom(e), atom(d)), node), LSTR
    if name in ('in', 'not_in') and len(a) == 2:
        ts = _types(ex, a)
        if ts[1] == STR:
            x, _ = ex.expr(a[0], STR)
            y, _ = ex.expr(a[1], STR)
            r = '(PyRtC14.containsSub %s %s)' % (atom(x), atom(y))
            return (r if name == 'in' else '(!%s)' % r), BOOL
        n = ast.copy_location(ast.Compare(left=a[0], ops=[ast.In() if name == 'in' else ast.NotIn()],
                                          comparators=[a[1]]), node)
        return 'decide (%s)' % ex.cond(n), BOOL
    if name == 'map_int' and len(a) == 1:
        e, t = ex.expr(a[0])
        _need([t])
        if t != LSTR:
            raise Unsupported(node, 'map(int, ...) over %s' % (t,))
        if not ex.fn.raises:
            raise Unsupported(node, 'a raising operation outside the raising mode')
        return ex.partial('PyRtC14.mapInt? %s' % atom(e), node), LINT
    if name == 'int' and len(a) == 1:
        ts = _types(ex, a)
        if ts[0] == STR:
            e, _ = ex.expr(a[0], STR)
            if not ex.fn.raises:
                raise Unsupported(node, 'a raising operation outside the raising mode')
            return ex.partial('PyRtC14.intOfStr? %s' % atom(e), node), INT
        n = ast.copy_location(ast.Call(func=_name('int', node), args=[a[0]], keywords=[]), node)
        return ex._call(n, expected)
    if name == 'range' and 1 <= len(a) <= 2:
        lo = '(0 : Int)' if len(a) == 1 else atom(ex.expr(a[0], INT)[0])
        hi = atom(ex.expr(a[-1], INT)[0])
        return '(PyRt.range %s %s (1 : Int))' % (lo, hi), LINT
    raise Unsupported(node, 'unknown operation %s/%d' % (name, len(a)))


def alias_nodes(fn, value):
    """(hook of the base translator's alias check for methods with object state: not used by module functions)"""
    return ast.walk(value)


# ---------------------------------------------------------------------------------------------- self-test side

def _int_lists(rng, quick):
    yield []
    for n in range(0, 4):
        yield [n]
    small = [0, 1, 2, 3, 5, 6, 9, 10, 11]
    for _ in range(120 if quick else 1500):
        k = rng.randint(0, 9)
        yield [rng.choice(small) if rng.random() < 0.7 else rng.randint(0, 130) for _ in range(k)]
    for _ in range(40 if quick else 400):
        k = rng.randint(0, 7)
        yield [rng.randint(-12, 12) for _ in range(k)]       # negative numbers: outside the model, inside the translation
    yield [10 ** 30, 10 ** 30 + 1, 7]
    yield list(range(98, 112)) + [2000, 1999]


DELIMS = [',', '-', ';', ':', '', ' ', ', ', '..', '--', 'to', '0', '–', ',-']


def fam_format_int_list(rng, quick):
    bad = reject_tests(verbose=False)          # every run: the snippets just outside the subset must be refused
    if bad:
        raise RuntimeError('py2lean_c14 translated snippets it must refuse: %s' % bad)
    for l in _int_lists(rng, quick):
        r = rng.random()
        if r < 0.5:
            d, rd = ',', '-'
        else:
            d, rd = rng.choice(DELIMS), rng.choice(DELIMS)
        yield dict(int_list=l, delim=d, range_delim=rd, delim_space=rng.random() < 0.3)


TOKENS = ['1', '2', '3', '5', '7', '10', '11', '12', '007', '1-3', '5-8', '8-5', '3-3', '10-12', '1-2-3', '', ' ', ' 4', '4 ',
          '\t6', '6\n', 'x', '1x', '-', '-1', '1-', '+3', '1_0', '1__0', '_1', '1_', ' 2 - 4 ', '2- 4', '\r9', '9\x0b', '\x1c9',
          '\u0663', '\u0661-\u0663', '1\u00a0', '\u20071', 'é', '1.5', '0x10', '1e3', '--', '1--3', '0', '00', '9-9-9', '\x85 8']


def check_tables():
    """the Unicode tables of PyRtC14.lean (`zeroDigits`, the whitespace sets) against the running interpreter"""
    import os
    import re
    import unicodedata
    text = open(os.path.join(os.path.dirname(os.path.abspath(__file__)), '..', 'lean', 'BoltonsVerif', 'PyRtC14.lean')).read()
    m = re.search(r'def zeroDigits : List Nat :=\s*\[([^\]]*)\]', text)
    table = [int(x) for x in m.group(1).replace('\n', ' ').split(',')]
    want = [cp for cp in range(0x110000) if chr(cp).isdecimal() and unicodedata.decimal(chr(cp)) == 0]
    if table != want or not all(unicodedata.decimal(chr(z + i), None) == i for z in want for i in range(10)):
        raise RuntimeError('PyRtC14.zeroDigits differs from unicodedata %s' % unicodedata.unidata_version)
    return want, [cp for cp in range(0x110000) if chr(cp).isspace()]


def fam_parse_int_list(rng, quick):
    zeros, spaces = check_tables()
    for cp in spaces + [8, 14, 27, 33, 0x84, 0x86, 0x180e, 0x200b, 0x2060, 0xfeff]:
        yield dict(range_string='1,' + chr(cp) + '5' + chr(cp), delim=',', range_delim='-')     # int()'s whitespace
        yield dict(range_string=chr(cp) + '5,7' + chr(cp), delim=',', range_delim='-')           # strip()'s whitespace
    for z in zeros:
        yield dict(range_string='1,' + chr(z + 3) + chr(z) + ',' + chr(z + 10) + ',' + chr(z - 1), delim=',', range_delim='-')
    yield dict(range_string='1,3,5-8,10-11,15', delim=',', range_delim='-')
    yield dict(range_string='', delim=',', range_delim='-')
    yield dict(range_string='1,2', delim='', range_delim='-')
    yield dict(range_string='1-2', delim=',', range_delim='')
    yield dict(range_string='', delim='', range_delim='')
    for t in TOKENS:
        yield dict(range_string=t, delim=',', range_delim='-')
        yield dict(range_string=' ' + t + '\n', delim=',', range_delim='-')
    for _ in range(350 if quick else 4000):
        r = rng.random()
        if r < 0.5:
            d, rd = ',', '-'
        elif r < 0.8:
            d, rd = rng.choice([d for d in DELIMS if d]), rng.choice([d for d in DELIMS if d])
        else:
            d, rd = rng.choice(DELIMS), rng.choice(DELIMS)
        toks = [rng.choice(TOKENS).replace('-', rd if rng.random() < 0.9 else '-') for _ in range(rng.randint(0, 5))]
        if rng.random() < 0.6:
            toks = [t for t in toks if t in ('1', '2', '3', '5', '7', '10', '11', '12', '1' + rd + '3', '5' + rd + '8', '')]
        s = (d if rng.random() < 0.9 else ',').join(toks)
        if rng.random() < 0.2:
            s = rng.choice([' ', '\n', '\x1f', '\u3000', '\t ']) + s + rng.choice([' ', '\n', '\r\n', '\x1c'])
        yield dict(range_string=s, delim=d, range_delim=rd)


def fam_complement_int_list(rng, quick):
    n = 0
    for case in fam_parse_int_list(rng, True):
        n += 1
        if n % (3 if quick else 1):
            continue
        e = rng.choice([None, None, 0, 1, 5, 12, 20, -3])
        yield dict(range_string=case['range_string'], range_start=rng.choice([0, 0, 1, 2, 7, -2, 30]), range_end=e,
                   delim=case['delim'], range_delim=case['range_delim'])
    for s in ['1,3,5-8,10-11,15', '', '0', '2-4', '7,7,7']:
        for a in (-1, 0, 1, 2, 3, 16, 20):
            for e in (None, -1, 0, 1, 2, 13, 14, 15, 16, 20):
                yield dict(range_string=s, range_start=a, range_end=e, delim=',', range_delim='-')


def fam_int_ranges(rng, quick):
    n = 0
    for case in fam_parse_int_list(rng, True):
        n += 1
        if n % (2 if quick else 1) == 0:
            yield case
    for s in ['1,3,5-8,10-11,15', '1', '', '3-1,2', '5;7..9']:
        yield dict(range_string=s, delim=',', range_delim='-')
        yield dict(range_string=s, delim=';', range_delim='..')


ARGS = ['', 'a', 'aa', '[bb]', "cc'cc", 'dd"dd', "'", "''", "a'", "'a'b'", ' ', 'a b', '\t', '$x', '`', '\\', 'a\\', 'a\\"b',
        '\\\\', '"', '\\"', 'a-b', 'a=b', 'x/y.z', '@%+:,', 'é', '–', '\n', 'a\x00b', '*', '~', 'A_Z09', '!', '#', ';', '&|',
        'a\\\\ b', ' \\', '\\ ', '"\\', 'tab\there', "it's", "'\"'\"'", '-', '--x', '\u3000', '\u2028x']


def fam_args(rng, quick):
    yield dict(args=[], sep=' ')
    for a in ARGS:
        yield dict(args=[a], sep=' ')
    for _ in range(250 if quick else 3000):
        k = rng.randint(0, 5)
        args = []
        for _ in range(k):
            if rng.random() < 0.6:
                args.append(rng.choice(ARGS))
            else:
                args.append(''.join(rng.choice('ab \t\'"\\$-_/.é\n') for _ in range(rng.randint(0, 7))))
        yield dict(args=args, sep=rng.choice([' ', ' ', ',', '', '  ']))


def fam_escape(rng, quick):
    styles = ['', 'sh', 'cmd', 'SH', 'bash', 'c', 'cmd ', 'sh\n']
    plats = ['win32', 'linux', 'darwin', 'win32 ', 'Win32', '', 'cygwin']
    for st in styles:
        for pl in plats:
            yield dict(args=['a b', "it's", ''], sep=' ', style=st, _sys_platform=pl)
    for case in fam_args(rng, quick):
        case['style'] = rng.choice(styles[:3] * 3 + styles)
        case['_sys_platform'] = rng.choice(plats[:2] * 3 + plats)
        yield case


def py_call(spec, fn, args):
    """spec key `py_call` (py2lean_selftest.call_real): call the real function with the spec-declared externals set
    to the values of the case (`extern_params`: the attribute of the real module is patched for the call)"""
    import importlib
    from bv import common
    ext = spec.get('extern_params') or {}
    pos = [args[py2lean.mangle(p)] for p in spec['params'] if p not in ext.values()]
    saved = []
    try:
        for dotted, param in ext.items():
            modname, attr = dotted.split('.')
            mod = importlib.import_module(modname)
            saved.append((mod, attr, getattr(mod, attr)))
            setattr(mod, attr, args[py2lean.mangle(param)])
        try:
            with common.time_limit(5):
                return 'ok', fn(*pos)
        except common.CaseTimeout:
            return 'exc', 'CaseTimeout'
        except Exception as e:  # noqa: BLE001
            return 'exc', type(e).__name__
    finally:
        for mod, attr, v in reversed(saved):
            setattr(mod, attr, v)


FAMILIES = {
    'escape_shell_args': fam_escape,
    'args2sh': fam_args,
    'args2cmd': fam_args,
    'format_int_list': fam_format_int_list,
    'parse_int_list': fam_parse_int_list,
    'complement_int_list': fam_complement_int_list,
    'int_ranges_from_int_list': fam_int_ranges,
}


# ---------------------------------------------------------------------------------------------- refusal tests
# every snippet violates ONE side condition of a rewrite: the translator must refuse it (`Unsupported`), never guess

REJECT_SNIPPETS = [
    ('deque aliased', 'import collections\ndef f(xs):\n    d = collections.deque()\n    e = d\n    d.append(1)\n    return len(e)\n',
     {'xs': 'List Int'}, 'Int'),
    ('deque sliced (TypeError in Python, fine on a list)',
     'import collections\ndef f(xs):\n    d = collections.deque()\n    d.append(1)\n    return len(d[0:1])\n', {'xs': 'List Int'}, 'Int'),
    ('deque name rebound by the module', 'import collections\ncollections = None\ndef f(xs):\n    d = collections.deque()\n    return len(d)\n',
     {'xs': 'List Int'}, 'Int'),
    ('deque with an initial iterable', 'import collections\ndef f(xs):\n    d = collections.deque(xs)\n    return len(d)\n',
     {'xs': 'List Int'}, 'Int'),
    ('mutated list stored in another list', 'def f(xs):\n    a = []\n    b = [a]\n    a.append(1)\n    return len(b)\n', {'xs': 'List Int'}, 'Int'),
    ('append on a parameter', 'def f(xs):\n    xs.append(1)\n    return len(xs)\n', {'xs': 'List Int'}, 'Int'),
    ('popleft after another operation of the statement',
     'import collections\ndef f(xs):\n    d = collections.deque()\n    d.append(1)\n    y = xs[0] + d.popleft()\n    return y\n', {'xs': 'List Int'}, 'Int'),
    ('two poplefts in one statement',
     'import collections\ndef f(xs):\n    d = collections.deque()\n    d.append(1)\n    y = d.popleft() - d.popleft()\n    return y\n', {'xs': 'List Int'}, 'Int'),
    ('format spec other than d', "def f(n):\n    return '{:x}'.format(n)\n", {'n': 'Int'}, 'Str'),
    ('format with a named field', "def f(n):\n    return '{v:d}'.format(v=n)\n", {'n': 'Int'}, 'Str'),
    ('format conversion !r', "def f(n):\n    return f'{n!r}'\n", {'n': 'Int'}, 'Str'),
    (':d applied to a string', "def f(s):\n    return f'{s:d}'\n", {'s': 'Str'}, 'Str'),
    ('min rebound', "def min(l):\n    return 0\ndef f(xs):\n    return min(xs)\n", {'xs': 'List Int'}, 'Int'),
    ('split with maxsplit', "def f(s):\n    return s.split(',', 1)\n", {'s': 'Str'}, 'List Str'),
    ('split without separator (whitespace runs)', "def f(s):\n    return s.split()\n", {'s': 'Str'}, 'List Str'),
    ('strip with characters', "def f(s):\n    return s.strip('x')\n", {'s': 'Str'}, 'Str'),
    ('map object stored', "def f(ps):\n    m = map(int, ps)\n    return list(m)\n", {'ps': 'List Str'}, 'List Int'),
    ('int with a base', "def f(s):\n    return int(s, 16)\n", {'s': 'Str'}, 'Int'),
    ('int() inside a conditional expression', "def f(s, b):\n    return int(s) if b else 0\n", {'s': 'Str', 'b': 'Bool'}, 'Int'),
    ('join of ints', "def f(xs):\n    return ','.join(xs)\n", {'xs': 'List Int'}, 'Str'),
    ('range with a step as a value', "def f(n):\n    return list(range(0, n, 2))\n", {'n': 'Int'}, 'List Int'),
    ('comprehension with a filter over int()', "def f(ps):\n    return [int(p) for p in ps if p]\n", {'ps': 'List Str'}, 'List Int'),
    # round 3f: `extern`
    ('extern: the module sys handed out', "import sys\ndef f(s):\n    m = sys\n    return m.platform\n",
     {'s': 'Str', '_p': 'Str'}, 'Str', {'extern_params': {'sys.platform': '_p'}}),
    ('extern: sys rebound by the module', "import sys\nsys = None\ndef f(s):\n    return sys.platform\n",
     {'s': 'Str', '_p': 'Str'}, 'Str', {'extern_params': {'sys.platform': '_p'}}),
    ('extern: store to sys.platform', "import sys\ndef f(s):\n    sys.platform = s\n    return s\n",
     {'s': 'Str', '_p': 'Str'}, 'Str', {'extern_params': {'sys.platform': '_p'}}),
    ('extern: sys.platform read without a declared parameter', "import sys\ndef f(s):\n    return sys.platform\n",
     {'s': 'Str'}, 'Str'),
]


def reject_tests(verbose=True):
    """-> list of snippets that were NOT refused (must be empty)"""
    bad = []
    for label, src, params, result, *more in REJECT_SNIPPETS:
        spec = {'module': 'snippets', 'qualname': 'f', 'lean_name': 'f', 'params': params, 'kind': 'function',
                'result': result, 'raises': True, 'tie_theorem': '-', 'ext': 'py2lean_c14'}
        spec.update(more[0] if more else {})
        text, infos = py2lean.translate_source(src, [spec], 'snippets', 'snippets.py')
        if not infos[0].get('error'):
            bad.append(label)
        if verbose:
            print('%-55s %s' % (label, 'REFUSED: ' + infos[0]['error'][:90] if infos[0].get('error') else 'TRANSLATED (!)'))
    return bad


def selftest_pending(quick=True, seed=0):
    """translator self-test of the functions that translate but are not tied yet (`srctie_specs.C14_PENDING`): the
    same driver as the registered self-test, with the pending specs appended to C14's for the duration of the call"""
    import srctie_specs
    import py2lean_selftest
    saved = srctie_specs.SPECS['C14']
    srctie_specs.SPECS['C14'] = saved + srctie_specs.C14_PENDING
    try:
        return py2lean_selftest.run(['C14'], quick=quick, seed=seed, verbose=True)
    finally:
        srctie_specs.SPECS['C14'] = saved
