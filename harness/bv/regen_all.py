"""Run every property's translator hook once (used by setup.sh)."""
import importlib
import os
import sys

from bv import common


def main():
    common.ensure_repo_on_path()
    d = os.path.join(os.path.dirname(__file__), 'props')
    for f in sorted(os.listdir(d)):
        if len(f) == 6 and f[0] == 'c' and f[1:3].isdigit() and f.endswith('.py'):
            mod = importlib.import_module('bv.props.' + f[:-3])
            prop = mod.PROPERTY('quick', 0)
            gen = prop.regen()
            if gen:
                with common.BuildLock():
                    changed = common.write_generated(gen)
                print('regen %s: %s' % (prop.PID, changed or 'unchanged'))
    # source-translator tie (SrcTie): Generated/Src_<module>.lean from the current source
    common.srctie_specs('')      # puts harness/ on sys.path
    import srctie_specs
    for pid in sorted(srctie_specs.SPECS):
        notes = []
        ok, infos = common.srctie_regen(pid, notes)
        print('srctie %s: %s %s' % (pid, 'ok' if ok else 'FAILED', '; '.join(notes) or 'unchanged'))


if __name__ == '__main__':
    sys.exit(main())
