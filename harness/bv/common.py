"""Common machinery for the boltons Lean-verification checks.

One run of `./check Cxx quick|thorough` =
  1. regenerate translator output (property hook `regen`)            -> Generated/*.lean
  2. prove:  lake build of the property's Props + driver, then `#print axioms`
             of every property theorem (audit)                        -> proof status
  3. correspond: real Python implementation vs compiled Lean model on the same cases
  4. oracle: independent executable restatement of the property on the impl's outputs
  5. decide: VIOLATION / KNOWN-FINDING / ok, write evidence + replay

A property module (harness/bv/props/cxx.py) defines a subclass of `Property`.
"""
from __future__ import annotations

import fcntl
import hashlib
import json
import os
import random
import re
import subprocess
import sys
import time
import traceback

VERIF = os.path.abspath(os.path.join(os.path.dirname(__file__), '..', '..'))
LEAN = os.path.join(VERIF, 'lean')
REPO = os.environ.get('BOLTONS_REPO', '/repo')
ALLOWED_AXIOMS = {'propext', 'Classical.choice', 'Quot.sound'}
FORBIDDEN_RE = re.compile(r'\b(sorry|admit|native_decide|bv_decide|implemented_by|unsafe)\b|^\s*axiom\s|maxHeartbeats\s+0\b', re.M)
TRUSTED_BASE = [
    'Lean 4.33.0 kernel (thorough tier: re-checked with leanchecker)',
    'axioms allowed in #print axioms output: propext, Classical.choice, Quot.sound (no native_decide, no bv_decide, no sorry)',
    'Lean compiler + C toolchain producing the model driver executable',
    'harness/bv (generators, canonicalisers, oracle, translator gen hooks) and CPython itself',
]


def ensure_repo_on_path():
    """Import boltons from /repo's current working tree, never from anywhere else."""
    if REPO not in sys.path:
        sys.path.insert(0, REPO)
    import boltons  # noqa
    f = os.path.abspath(boltons.__file__)
    if not f.startswith(os.path.abspath(REPO) + os.sep):
        raise InfraError('boltons imported from %s, not from %s' % (f, REPO))


class InfraError(Exception):
    pass


class CaseTimeout(Exception):
    pass


class time_limit:
    """`with time_limit(5): ...` raises CaseTimeout when the real code loops (main thread only).

    The limit is on the CPU time this process burns (ITIMER_PROF), so a loop is cut after `seconds` of spinning
    while a check that is merely starved of CPU on a busy machine is not mistaken for a hang; a wall-clock
    backstop (6x, at least 60 s) still ends a case that blocks without using CPU."""

    def __init__(self, seconds):
        self.seconds = seconds

    def _fire(self, *a):
        raise CaseTimeout('case exceeded %ss' % self.seconds)

    def __enter__(self):
        import signal
        self.old = signal.signal(signal.SIGALRM, self._fire)
        self.oldp = signal.signal(signal.SIGPROF, self._fire)
        signal.setitimer(signal.ITIMER_PROF, self.seconds)
        signal.setitimer(signal.ITIMER_REAL, max(60.0, 6.0 * self.seconds))

    def __exit__(self, *a):
        import signal
        signal.setitimer(signal.ITIMER_PROF, 0)
        signal.setitimer(signal.ITIMER_REAL, 0)
        signal.signal(signal.SIGPROF, self.oldp)
        signal.signal(signal.SIGALRM, self.old)
        return False


def exc_name(e):
    """small enum for exceptions: the class name"""
    return type(e).__name__


# --------------------------------------------------------------------------- lean

def _strip_comments(src: str) -> str:
    # remove nested /- -/ block comments and -- line comments (good enough for the audit grep)
    out = []
    i, depth, n = 0, 0, len(src)
    while i < n:
        if src.startswith('/-', i):
            depth += 1
            i += 2
        elif depth and src.startswith('-/', i):
            depth -= 1
            i += 2
        elif depth:
            i += 1
        elif src.startswith('--', i):
            j = src.find('\n', i)
            i = n if j < 0 else j
        else:
            out.append(src[i])
            i += 1
    return ''.join(out)


_string_lit = re.compile(r'"(?:\\.|[^"\\])*"')


def lean_sources(pid: str):
    d = os.path.join(LEAN, 'BoltonsVerif', pid)
    files = [os.path.join(d, f) for f in sorted(os.listdir(d)) if f.endswith('.lean')]
    files.append(os.path.join(LEAN, 'BoltonsVerif', 'Common.lean'))
    g = os.path.join(LEAN, 'BoltonsVerif', 'Generated')
    if os.path.isdir(g):
        files += [os.path.join(g, f) for f in sorted(os.listdir(g)) if f.startswith(pid) and f.endswith('.lean')]
    return files


def theorem_names(pid: str):
    """Property theorems = every `theorem` declared in BoltonsVerif/Cxx/Props.lean."""
    p = os.path.join(LEAN, 'BoltonsVerif', pid, 'Props.lean')
    src = _strip_comments(open(p).read())
    names = []
    ns = []
    for line in src.splitlines():
        m = re.match(r'\s*namespace\s+(\S+)', line)
        if m:
            ns.append(m.group(1))
            continue
        m = re.match(r'\s*end\s+(\S+)', line)
        if m and ns and ns[-1] == m.group(1):
            ns.pop()
            continue
        m = re.match(r'\s*(?:@\[[^\]]*\]\s*)?(?:private\s+|protected\s+)?theorem\s+([^\s:({\[]+)', line)
        if m:
            names.append('.'.join(ns + [m.group(1)]))
    return names


class BuildLock:
    def __enter__(self):
        self.f = open(os.path.join(LEAN, '.build.lock'), 'w')
        fcntl.flock(self.f, fcntl.LOCK_EX)
        return self

    def __exit__(self, *a):
        fcntl.flock(self.f, fcntl.LOCK_UN)
        self.f.close()


def _run(cmd, cwd=LEAN, timeout=3600, input=None):
    p = subprocess.run(cmd, cwd=cwd, stdout=subprocess.PIPE, stderr=subprocess.STDOUT, text=True,
                       timeout=timeout, input=input)
    return p.returncode, p.stdout


def write_generated(files: dict):
    """Write translator output; only touch files whose content changed (keeps lake's cache)."""
    g = os.path.join(LEAN, 'BoltonsVerif', 'Generated')
    os.makedirs(g, exist_ok=True)
    changed = []
    for name, content in files.items():
        p = os.path.join(g, name)
        old = open(p).read() if os.path.exists(p) else None
        if old != content:
            with open(p + '.tmp', 'w') as f:
                f.write(content)
            os.replace(p + '.tmp', p)
            changed.append(name)
    return changed


def lean_prove(pid: str, thorough: bool):
    """Build Props + driver, audit axioms.  Returns a dict; never raises for a *proof* failure."""
    res = {'ok': False, 'theorems': [], 'discharged': [], 'failed': [], 'bad_axioms': {},
           'forbidden': [], 'driver_ok': False, 'log': '', 'leanchecker': None}
    names = theorem_names(pid)
    res['theorems'] = names
    drv = 'drv_' + pid.lower()
    # forbidden-token scan (comments and string literals stripped)
    for f in lean_sources(pid):
        src = _string_lit.sub('""', _strip_comments(open(f).read()))
        for m in FORBIDDEN_RE.finditer(src):
            res['forbidden'].append('%s: %s' % (os.path.relpath(f, LEAN), m.group(0).strip()))
    with BuildLock():
        rc_d, out_d = _run(['lake', 'build', drv])
        res['driver_ok'] = rc_d == 0
        if rc_d != 0:
            res['log'] += out_d[-4000:]
        rc, out = _run(['lake', 'build', 'BoltonsVerif.%s.Props' % pid])
        props_built = rc == 0
        if rc != 0:
            res['log'] += out[-6000:]
        # audit: a scratch file that imports Props (if built) or inlines it (if not) and prints axioms
        audit_dir = os.path.join(LEAN, '.lake', 'audit')
        os.makedirs(audit_dir, exist_ok=True)
        audit = os.path.join(audit_dir, 'Audit_%s_%d.lean' % (pid, os.getpid()))
        props_path = os.path.join(LEAN, 'BoltonsVerif', pid, 'Props.lean')
        if props_built:
            body = 'import BoltonsVerif.%s.Props\n' % pid
        else:
            # make sure at least the imports of Props are built, then elaborate Props inline
            imports = re.findall(r'^import\s+(\S+)', open(props_path).read(), re.M)
            for imp in imports:
                if imp.startswith('BoltonsVerif.'):
                    rci, outi = _run(['lake', 'build', imp])
                    if rci != 0:
                        res['log'] += outi[-4000:]
            body = open(props_path).read() + '\n'
        body += ''.join('#print axioms %s\n' % n for n in names)
        with open(audit, 'w') as f:
            f.write(body)
        rc_a, out_a = _run(['lake', 'env', 'lean', audit])
        try:
            os.unlink(audit)
        except OSError:
            pass
        if thorough and props_built:
            t0 = time.time()
            rc_c, out_c = _run(['lake', 'env', 'leanchecker', 'BoltonsVerif.%s.Props' % pid], timeout=3000)
            res['leanchecker'] = {'rc': rc_c, 'wall_s': round(time.time() - t0, 1), 'tail': out_c[-300:]}
            if rc_c != 0:
                res['log'] += '\nleanchecker failed:\n' + out_c[-2000:]
    # parse `'name' depends on axioms: [a, b]` / `'name' does not depend on any axioms`
    flat = re.sub(r'\s+', ' ', out_a)
    seen = {}
    for m in re.finditer(r"'([^']+)' depends on axioms: \[([^\]]*)\]", flat):
        seen[m.group(1)] = {a.strip() for a in m.group(2).split(',') if a.strip()}
    for m in re.finditer(r"'([^']+)' does not depend on any axioms", flat):
        seen[m.group(1)] = set()
    for n in names:
        ax = seen.get(n)
        if ax is None:
            res['failed'].append(n)
        elif ax - ALLOWED_AXIOMS:
            res['bad_axioms'][n] = sorted(ax - ALLOWED_AXIOMS)
            res['failed'].append(n)
        else:
            res['discharged'].append(n)
    if not props_built or rc_a != 0:
        res['log'] += '\n' + out_a[-4000:]
        # attribute errors to theorems by line number when Props was inlined
        if not props_built:
            errs = [int(m.group(1)) for m in re.finditer(r':(\d+):\d+: error', out_a)]
            src_lines = open(props_path).read().splitlines()
            for ln in errs:
                for i in range(min(ln, len(src_lines)) - 1, -1, -1):
                    m = re.match(r'\s*(?:@\[[^\]]*\]\s*)?theorem\s+([^\s:({\[]+)', src_lines[i])
                    if m:
                        short = m.group(1)
                        for n in names:
                            if n.endswith(short) and n in res['discharged']:
                                res['discharged'].remove(n)
                                res['failed'].append(n)
                        break
    res['ok'] = bool(props_built and res['driver_ok'] and not res['failed'] and not res['forbidden']
                     and names and (res['leanchecker'] is None or res['leanchecker']['rc'] == 0))
    if not props_built and not res['failed']:
        res['failed'].append('BoltonsVerif.%s.Props (build failed before any theorem could be attributed)' % pid)
    _srctie_prove(pid, res, thorough)    # --- source-translator tie (SrcTie) ---
    return res


# --- source-translator tie (SrcTie) ---------------------------------------------------------------
# For the properties listed in harness/srctie_specs.py a few pure functions of the repo under test are
# translated to Lean on every run (harness/py2lean.py -> Generated/Src_<module>.lean) and
# lean/BoltonsVerif/Cxx/SrcTie.lean proves the generated definitions equal to the hand model.  Its
# theorems are obligations of the property exactly like those of Props.lean.  See notes/SRCTIE.md.

def srctie_specs(pid: str):
    hdir = os.path.join(VERIF, 'harness')
    if hdir not in sys.path:
        sys.path.insert(0, hdir)
    import srctie_specs as _specs
    return _specs.SPECS.get(pid, [])


def srctie_regen(pid: str, notes: list):
    """run the source translator for `pid`: (translator_ok, infos for the evidence)"""
    if not srctie_specs(pid):
        return True, []
    import py2lean
    try:
        files, infos = py2lean.generate(pid, REPO)
    except InfraError:
        raise
    except Exception as e:      # the translator itself failed: the proof side does not check
        notes.append('source translator failed: %r' % (e,))
        traceback.print_exc()
        return False, []
    with BuildLock():
        changed = write_generated(files)
    if changed:
        notes.append('regenerated from source: ' + ', '.join(changed))
    bad = [i for i in infos if i.get('error')]
    for i in bad:               # the function left the translated subset: its tie theorem cannot check
        notes.append('source translator: %s: %s' % (i['function'], i['error']))
    return not bad, infos


def srctie_selftest(pid: str, seed: int, notes: list):
    """translator validation on this run's source: CPython vs the generated definitions on a few hundred
    argument tuples per function (harness/py2lean_selftest.py, ~1 s).  -> (ok, report)"""
    if os.environ.get('BV_SRCTIE_SELFTEST') == '0' or not srctie_specs(pid):
        return True, None
    try:
        import py2lean_selftest
        n, report = py2lean_selftest.run([pid], quick=True, seed=seed, verbose=False)
    except subprocess.TimeoutExpired:
        raise
    except Exception as e:      # e.g. the generated text does not elaborate: the proof side does not check
        notes.append('source translator self-test could not run: %r' % (e,))
        return False, None
    if n:
        notes.append('source translator self-test: generated definitions disagree with CPython: %r'
                     % (report['_mismatches'][:2],))
    return n == 0, report


def _srctie_theorems(pid: str):
    p = os.path.join(LEAN, 'BoltonsVerif', pid, 'SrcTie.lean')
    if not os.path.exists(p):
        return p, []
    names, ns = [], []
    for line in _strip_comments(open(p).read()).splitlines():
        m = re.match(r'\s*namespace\s+(\S+)', line)
        if m:
            ns.append(m.group(1))
            continue
        m = re.match(r'\s*end\s+(\S+)', line)
        if m and ns and ns[-1] == m.group(1):
            ns.pop()
            continue
        m = re.match(r'\s*(?:@\[[^\]]*\]\s*)?(?:private\s+|protected\s+)?theorem\s+([^\s:({\[]+)', line)
        if m:
            names.append('.'.join(ns + [m.group(1)]))
    return p, names


def _srctie_prove(pid: str, res: dict, thorough: bool):
    """build BoltonsVerif.<pid>.SrcTie, audit the axioms of every theorem in it; extends `res` of lean_prove"""
    specs = srctie_specs(pid)
    if not specs:
        return
    t0 = time.time()
    path, names = _srctie_theorems(pid)
    mod = 'BoltonsVerif.%s.SrcTie' % pid
    res['theorems'] = res['theorems'] + names
    extra = [os.path.join(LEAN, 'BoltonsVerif', f) for f in ('PyRt.lean', 'PyRtLemmas.lean', 'PyHeap.lean', 'PyRtC05.lean')]
    extra += [os.path.join(LEAN, 'BoltonsVerif', 'Generated', 'Src_%s.lean' % m)
              for m in sorted({sp.get('gen_file') or sp['module'].split('.')[-1] for sp in specs})]
    for f in extra:
        if os.path.exists(f):
            src = _string_lit.sub('""', _strip_comments(open(f).read()))
            for m in FORBIDDEN_RE.finditer(src):
                res['forbidden'].append('%s: %s' % (os.path.relpath(f, LEAN), m.group(0).strip()))
    failed = []
    built = False
    out_a = ''
    if names:
        with BuildLock():
            rc, out = _run(['lake', 'build', mod])
            built = rc == 0
            if not built:
                res['log'] += out[-6000:]
            audit_dir = os.path.join(LEAN, '.lake', 'audit')
            os.makedirs(audit_dir, exist_ok=True)
            audit = os.path.join(audit_dir, 'AuditSrcTie_%s_%d.lean' % (pid, os.getpid()))
            if built:
                body = 'import %s\n' % mod
            else:       # inline the file so that the theorems that no longer check are named
                for imp in re.findall(r'^import\s+(\S+)', open(path).read(), re.M):
                    if imp.startswith('BoltonsVerif.'):
                        rci, outi = _run(['lake', 'build', imp])
                        if rci != 0:
                            res['log'] += outi[-3000:]
                body = open(path).read() + '\n'
            body += ''.join('#print axioms %s\n' % n for n in names)
            with open(audit, 'w') as f:
                f.write(body)
            rc_a, out_a = _run(['lake', 'env', 'lean', audit])
            try:
                os.unlink(audit)
            except OSError:
                pass
            if thorough and built:
                rc_c, out_c = _run(['lake', 'env', 'leanchecker', mod], timeout=3000)
                res['leanchecker_srctie'] = {'rc': rc_c, 'tail': out_c[-300:]}
                if rc_c != 0:
                    res['log'] += '\nleanchecker (SrcTie) failed:\n' + out_c[-2000:]
                    failed.append('%s (leanchecker)' % mod)
        flat = re.sub(r'\s+', ' ', out_a)
        seen = {}
        for m in re.finditer(r"'([^']+)' depends on axioms: \[([^\]]*)\]", flat):
            seen[m.group(1)] = {a.strip() for a in m.group(2).split(',') if a.strip()}
        for m in re.finditer(r"'([^']+)' does not depend on any axioms", flat):
            seen[m.group(1)] = set()
        bad_lines = set()
        if not built:
            res['log'] += '\n' + out_a[-4000:]
            src_lines = open(path).read().splitlines()
            for ln in [int(m.group(1)) for m in re.finditer(r':(\d+):\d+: error', out_a)]:
                for i in range(min(ln, len(src_lines)) - 1, -1, -1):
                    m = re.match(r'\s*(?:@\[[^\]]*\]\s*)?theorem\s+([^\s:({\[]+)', src_lines[i])
                    if m:
                        bad_lines.add(m.group(1))
                        break
        for n in names:
            ax = seen.get(n)
            if ax is None or n.split('.')[-1] in bad_lines:
                failed.append(n)
            elif ax - ALLOWED_AXIOMS:
                res['bad_axioms'][n] = sorted(ax - ALLOWED_AXIOMS)
                failed.append(n)
            else:
                res['discharged'].append(n)
    for sp in specs:            # every translated function must have its tie theorem
        if sp['tie_theorem'] not in names:
            failed.append('%s (missing from %s/SrcTie.lean)' % (sp['tie_theorem'], pid))
    if not built and not failed:
        failed.append('%s (build failed before any theorem could be attributed)' % mod)
    res['failed'] = res['failed'] + failed
    res['srctie_built'] = built
    res['srctie_wall_s'] = round(time.time() - t0, 2)
    res['ok'] = bool(res['ok'] and built and not failed and not res['forbidden'])
# --- end of SrcTie definitions ----------------------------------------------------------------------


class Driver:
    """Batch line-protocol client for the compiled model driver of one property."""

    def __init__(self, pid: str):
        self.pid = pid
        self.exe = os.path.join(LEAN, '.lake', 'build', 'bin', 'drv_' + pid.lower())

    def available(self):
        return os.path.exists(self.exe)

    def query(self, lines):
        if not lines:
            return []
        for ln in lines:
            if '\n' in ln:
                raise InfraError('newline inside protocol line')
        p = subprocess.run([self.exe], input='\n'.join(lines) + '\n', stdout=subprocess.PIPE,
                           stderr=subprocess.PIPE, text=True, timeout=1800)
        if p.returncode != 0:
            raise InfraError('driver %s exited %s: %s' % (self.exe, p.returncode, p.stderr[-500:]))
        out = p.stdout.split('\n')
        if out and out[-1] == '':
            out.pop()
        if len(out) != len(lines):
            raise InfraError('driver returned %d lines for %d inputs' % (len(out), len(lines)))
        return out


# --------------------------------------------------------------------------- findings

def load_findings(pid: str):
    """known_findings/<pid>.json is the committed source (never written at run time);
    known_findings.json is the assembled copy written by harness/mk_manifest.py"""
    p = os.path.join(VERIF, 'known_findings', pid + '.json')
    if not os.path.exists(p):
        return []
    return [e for e in json.load(open(p))['findings'] if e['property'] == pid]


# --------------------------------------------------------------------------- property base

class Failure:
    """An oracle failure on the implementation: `what` is a short description, `tag` a stable class."""

    def __init__(self, tag: str, what: str):
        self.tag, self.what = tag, what

    def __repr__(self):
        return 'Failure(%s: %s)' % (self.tag, self.what)


class Property:
    PID = 'C00'
    LEVEL = 'proof'
    QUICK_BUDGET_S = 60
    THOROUGH_BUDGET_S = 900
    ASSUMPTIONS: list = []
    EXTRA_TRUSTED: list = []
    CORRESPONDENCE_NAME = 'model-vs-implementation observable behaviour'

    def __init__(self, tier: str, seed: int):
        self.tier, self.seed = tier, seed
        self.rng = random.Random((hash(self.PID) & 0xffff) * 1000003 + seed) if False else random.Random('%s-%d' % (self.PID, seed))
        self.thorough = tier == 'thorough'
        self.stats = {}

    # ---- hooks -------------------------------------------------------------
    def regen(self) -> dict:
        """translator: return {generated file name: lean source} (names must start with the PID)"""
        return {}

    def regen_selfcheck(self, driver: 'Driver'):
        """optional: compare the generated tables (as printed back by the driver) with live objects;
        return list of mismatch descriptions"""
        return []

    def corpus(self):
        d = os.path.join(VERIF, 'corpus', self.PID)
        out = []
        if os.path.isdir(d):
            for f in sorted(os.listdir(d)):
                if f.endswith('.json'):
                    j = json.load(open(os.path.join(d, f)))
                    out.extend(j['cases'] if isinstance(j, dict) and 'cases' in j else [j])
        return out

    def cases(self, budget_s: float):
        """yield cases (JSON-able values)"""
        raise NotImplementedError

    def deep_cases(self, budget_s: float):
        """more / harder cases, used when a proof obligation or the correspondence breaks"""
        return self.cases(budget_s)

    def line(self, case) -> str | None:
        """protocol line for the model driver; None = case outside the model's domain"""
        raise NotImplementedError

    def impl(self, case):
        """run the real code; return a structured observation (JSON-able). Must not raise for
        exceptions the API may raise - record them in the observation instead."""
        raise NotImplementedError

    def render(self, case, obs) -> str:
        """canonical text of an implementation observation, same format as the driver output"""
        raise NotImplementedError

    def oracle(self, case, obs):
        """None if the property holds on this case, else a Failure"""
        raise NotImplementedError

    def nontrivial(self, case, obs) -> bool:
        return True

    def key(self, case):
        return json.dumps(case, sort_keys=True, default=str)

    def shrink(self, case):
        """yield strictly smaller candidate cases"""
        return ()

    def classify(self, case, failure: Failure, findings):
        """return the id of the known finding this failure is an instance of, else None"""
        for e in findings:
            if e.get('status') != 'known':
                continue
            pred = getattr(self, 'finding_' + e['predicate'], None)
            if pred is not None and pred(case, failure):
                return e['id']
        return None

    def describe(self, case):
        return case

    def extra_checks(self):
        """non-correspondence checks run once per run (e.g. acceptance predicates). Return list of
        (case, Failure) pairs."""
        return []


# --------------------------------------------------------------------------- runner

def _shrink(prop: Property, case, still_fails, limit_s=20.0):
    t0 = time.time()
    cur = case
    improved = True
    while improved and time.time() - t0 < limit_s:
        improved = False
        for cand in prop.shrink(cur):
            if time.time() - t0 > limit_s:
                break
            try:
                if still_fails(cand):
                    cur = cand
                    improved = True
                    break
            except Exception:
                continue
    return cur


def write_replay(prop: Property, n: int, payload: dict) -> str:
    d = os.environ.get('BV_REPLAY_DIR') or os.path.join(VERIF, 'replays')
    os.makedirs(d, exist_ok=True)
    p = os.path.join(d, '%s-%s-%d-%d.json' % (prop.PID, prop.tier, prop.seed, n))
    payload = dict(payload)
    payload.setdefault('property', prop.PID)
    payload.setdefault('seed', prop.seed)
    payload.setdefault('how_to_replay', './check %s --replay %s' % (prop.PID, os.path.relpath(p, VERIF)))
    with open(p, 'w') as f:
        json.dump(payload, f, indent=1, default=str)
    return os.path.relpath(p, VERIF) if p.startswith(VERIF + os.sep) else p


def run_check(prop_cls, tier: str, seed: int, replay: str | None = None) -> int:
    t_start = time.time()
    ensure_repo_on_path()
    prop: Property = prop_cls(tier, seed)
    pid = prop.PID
    findings = load_findings(pid)
    budget = prop.THOROUGH_BUDGET_S if prop.thorough else prop.QUICK_BUDGET_S
    notes = []
    violations = []        # (case, Failure)
    known_hits = {}        # finding id -> count
    if not os.path.isdir(os.path.join(LEAN, '.lake')):
        notes.append('lean/.lake missing: building from scratch')

    # 1. translator
    try:
        gen = prop.regen()
        if gen:
            with BuildLock():
                changed = write_generated(gen)
            if changed:
                notes.append('regenerated: ' + ', '.join(changed))
    except InfraError:
        raise
    except Exception as e:  # the source no longer has the shape the translator reads
        gen = None
        notes.append('translator failed: %r' % (e,))
        traceback.print_exc()
    # --- source-translator tie (SrcTie) ---
    t_srctie = time.time()
    srctie_ok, srctie_infos = srctie_regen(pid, notes)
    srctie_report = None
    if srctie_ok and srctie_infos:
        srctie_ok, srctie_report = srctie_selftest(pid, seed, notes)
    if not srctie_ok:
        gen = None
    t_srctie = time.time() - t_srctie
    # --- end SrcTie ---

    # 2. prove
    proof = lean_prove(pid, prop.thorough)
    proof_broken = not proof['ok'] or gen is None
    if proof_broken:
        print('note: proof side does not check: failed=%s forbidden=%s bad_axioms=%s driver_ok=%s' % (
            proof['failed'], proof['forbidden'], proof['bad_axioms'], proof['driver_ok']))
        sys.stdout.write(proof['log'][-3000:] + '\n')

    driver = Driver(pid)
    have_driver = proof['driver_ok'] and driver.available()

    # 3/4. correspondence + oracle
    corr_mismatch = []     # (case, impl_text, model_text)
    evaluations = 0
    distinct = set()
    samples = []
    hist = {}

    def evaluate(batch, deep=False):
        nonlocal evaluations
        obs_list = []
        for case in batch:
            obs = prop.impl(case)
            obs_list.append(obs)
        lines, idx = [], []
        if have_driver:
            for i, case in enumerate(batch):
                ln = prop.line(case)
                if ln is not None:
                    lines.append(ln)
                    idx.append(i)
            outs = driver.query(lines)
        else:
            outs = []
        model_out = dict(zip(idx, outs))
        for i, case in enumerate(batch):
            evaluations += 1
            obs = obs_list[i]
            fail = prop.oracle(case, obs)
            nt = False
            try:
                nt = prop.nontrivial(case, obs)
            except Exception:
                pass
            agrees = None
            it = None
            if i in model_out:
                if model_out[i] == 'bad-op':
                    raise InfraError('model driver rejected line %r' % lines[idx.index(i)])
                it = prop.render(case, obs)
                agrees = (it == model_out[i])
            known = None
            if fail is not None:
                fail.model_agrees = agrees
                known = prop.classify(case, fail, findings)
                if known:
                    known_hits[known] = known_hits.get(known, 0) + 1
                else:
                    violations.append((case, fail))
            if agrees is False and not known:
                corr_mismatch.append((case, it, model_out[i]))
            if nt:
                distinct.add(hashlib.sha1(prop.key(case).encode()).digest()[:8])
            if len(samples) < 5 and (evaluations in (1, 7, 50, 400, 3000)):
                samples.append(prop.describe(case))

    stream_state = {'main': 'not run'}

    def run_stream(gen_iter, t_budget, deep=False, stop_on_violation=True):
        t0 = time.time()
        batch = []
        how = 'exhausted'
        for case in gen_iter:
            batch.append(case)
            if len(batch) >= 500:
                evaluate(batch, deep)
                batch = []
                if time.time() - t0 > t_budget:
                    how = 'cut by the time budget (%ds) after %d cases' % (t_budget, evaluations)
                    break
                if stop_on_violation and violations:
                    how = 'stopped at the first violation'
                    break
        if batch:
            evaluate(batch, deep)
        stream_state['deep' if deep else 'main'] = how

    if replay:
        rp = json.load(open(os.path.join(VERIF, replay) if not os.path.isabs(replay) else replay))
        evaluate([rp['case']])
    else:
        # known-finding witnesses first: print the KNOWN-FINDING line only if it still fails
        for e in findings:
            if e.get('status') == 'known':
                w = e.get('witness')
                if w is None:
                    continue
                obs = prop.impl(w)
                fail = prop.oracle(w, obs)
                if fail is not None:
                    print('KNOWN-FINDING: property=%s %s [%s]' % (pid, e['what_fails'], e['id']))
                else:
                    notes.append('known finding %s no longer reproduces on its witness' % e['id'])
            elif e.get('status') == 'fixed' and e.get('witness') is not None:
                evaluate([e['witness']])
        corpus = prop.corpus()
        if corpus:
            evaluate(corpus)
        for case, fail in prop.extra_checks():
            known = prop.classify(case, fail, findings)
            if known:
                known_hits[known] = known_hits.get(known, 0) + 1
            else:
                violations.append((case, fail))
        # the budget is the nominal duration on an idle 16-core machine; the stream is only cut when it
        # takes `slack` times longer (a busy machine must not silently lose the families generated last)
        slack = float(os.environ.get('BV_BUDGET_SLACK') or (1.5 if prop.thorough else 3.0))
        run_stream(prop.cases(budget), budget * slack)
        if (proof_broken or corr_mismatch) and not violations:
            print('note: %s -> intensified search for a failing input on the implementation' % (
                'proof obligation broken' if proof_broken else 'correspondence broken'))
            run_stream(prop.deep_cases(max(budget, 120)), max(budget, 120), deep=True)

    # 5. decide
    rc = 0
    replay_paths = []
    if violations:
        case, fail = violations[0]

        def still(c):
            o = prop.impl(c)
            f = prop.oracle(c, o)
            return f is not None and f.tag == fail.tag and not prop.classify(c, f, findings)
        small = _shrink(prop, case, still)
        obs = prop.impl(small)
        f2 = prop.oracle(small, obs) or fail
        path = write_replay(prop, 0, {'kind': 'failing-input', 'case': small, 'original_case': case,
                                       'what_fails': f2.what, 'tag': f2.tag, 'observed': obs,
                                       'n_failing_cases_seen': len(violations)})
        replay_paths.append(path)
        print('VIOLATION property=%s replay=%s' % (pid, path))
        rc = 1
    elif proof_broken or corr_mismatch:
        if corr_mismatch:
            case, it, mt = corr_mismatch[0]

            def still_mis(c):
                ln = prop.line(c)
                if ln is None:
                    return False
                return prop.render(c, prop.impl(c)) != driver.query([ln])[0]
            try:
                small = _shrink(prop, case, still_mis)
                it = prop.render(small, prop.impl(small))
                mt = driver.query([prop.line(small)])[0]
            except Exception:
                small = case
            payload = {'kind': 'correspondence-broken', 'correspondence': prop.CORRESPONDENCE_NAME,
                       'case': small, 'implementation': it, 'model': mt,
                       'n_mismatches': len(corr_mismatch),
                       'note': 'the implementation no longer behaves like the verified model on this case; '
                               'no input violating the property itself was found'}
        else:
            payload = {'kind': 'proof-broken', 'theorems': proof['failed'] or ['(translator)'],
                       'forbidden': proof['forbidden'], 'bad_axioms': proof['bad_axioms'],
                       'log_tail': proof['log'][-3000:], 'notes': notes,
                       'note': 'the proof obligations regenerated from the current source no longer check; '
                               'no input violating the property itself was found'}
        path = write_replay(prop, 0, payload)
        replay_paths.append(path)
        print('VIOLATION property=%s replay=%s no-failing-input-found' % (pid, path))
        rc = 1

    # 6. evidence
    wall = time.time() - t_start
    names = proof['theorems']
    ev = {
        'property_id': pid, 'tier': tier, 'seed': seed, 'level': prop.LEVEL,
        'coverage': {
            'obligations': len(names), 'discharged': len(proof['discharged']),
            'theorems': names, 'failed_theorems': proof['failed'],
            'checker_cmd': 'cd lean && lake build BoltonsVerif.%s.Props drv_%s && lake env lean <audit: #print axioms of every theorem in Props.lean>%s'
                           % (pid, pid.lower(), ' && lake env leanchecker BoltonsVerif.%s.Props' % pid if prop.thorough else ''),
            'trusted_base': TRUSTED_BASE + list(prop.EXTRA_TRUSTED),
            'leanchecker': proof['leanchecker'],
            'evaluations': evaluations, 'distinct_nontrivial': len(distinct),
            'rule': getattr(prop, 'RULE', ''),
            'samples': samples or ['(no cases run)'],
            'traces_validated_against_impl': evaluations,
            'correspondence_mismatches': len(corr_mismatch),
            'known_finding_hits': known_hits,
            'histogram': prop.stats,
            'case_stream': stream_state,
            'notes': notes,
            'source_translated_functions': srctie_infos,    # --- source-translator tie (SrcTie) ---
            'source_translator_selftest': srctie_report,
            'source_tie_wall_s': {'translate_and_selftest': round(t_srctie, 2), 'build_and_audit': proof.get('srctie_wall_s')},
        },
        'assumptions': list(prop.ASSUMPTIONS),
        'wall_s': round(wall, 2),
        'violations': len(violations) + (1 if rc == 1 and not violations else 0),
    }
    if srctie_infos:     # --- source-translator tie (SrcTie) ---
        ev['coverage']['checker_cmd'] += ' ; SrcTie: /venv/bin/python harness/py2lean.py (regenerate Generated/Src_*.lean from the source) && lake build BoltonsVerif.%s.SrcTie && <audit: #print axioms of every theorem in SrcTie.lean>' % pid
        ev['coverage']['trusted_base'] = ev['coverage']['trusted_base'] + [
            'harness/py2lean.py (source translator, restricted Python -> Lean definitions; rules in notes/SRCTIE.md) and '
            'lean/BoltonsVerif/PyRt.lean (its runtime library); validated against CPython by harness/py2lean_selftest.py']
    evdir = os.environ.get('BV_EVIDENCE_DIR') or os.path.join(VERIF, 'evidence')
    os.makedirs(evdir, exist_ok=True)
    with open(os.path.join(evdir, pid + '.json'), 'w') as f:
        json.dump(ev, f, indent=1, default=str)
    print('%s %s seed=%d: theorems %d/%d, cases %d (distinct non-trivial %d), corr mismatches %d, '
          'oracle failures %d, known-finding hits %s, stream %s, %.1fs -> exit %d' % (
              pid, tier, seed, len(proof['discharged']), len(names), evaluations, len(distinct),
              len(corr_mismatch), len(violations), known_hits or '{}', stream_state['main'].split(' (')[0], wall, rc))
    return rc


def main(argv):
    import importlib
    if len(argv) < 2:
        print('usage: check <Cxx> <quick|thorough> | check <Cxx> --replay <file>')
        return 2
    pid = argv[1].upper()
    tier = os.environ.get('VERIF_TIER') or 'quick'
    replay = None
    rest = argv[2:]
    if rest and rest[0] in ('quick', 'thorough'):
        tier = rest[0]
        rest = rest[1:]
    if rest and rest[0] == '--replay':
        replay = rest[1]
    seed = int(os.environ.get('VERIF_SEED', '0') or 0)
    try:
        mod = importlib.import_module('bv.props.%s' % pid.lower())
        return run_check(mod.PROPERTY, tier, seed, replay)
    except InfraError as e:
        print('infrastructure error: %s' % e)
        return 2
    except subprocess.TimeoutExpired as e:
        print('timeout: %s' % e)
        return 2
    except Exception:
        traceback.print_exc()
        return 2
