import sys
from bv.common import main
sys.exit(main(sys.argv))
