"""C03 - concurrent LRI/LRU operations are atomic (serializable) under every interleaving.

Tie between the Lean theorem (C03.serializable: protected operations are atomic under every
schedule) and the code:
  (i)  translator: AST of LRI/LRU -> Generated/C03_CacheLocks.lean (which methods touch cache state,
       which run wholly under `with self._lock`, which dict mutators are not overridden);
       Lean re-proves `all_state_methods_protected` / `no_inherited_mutators` by `decide` every run;
  (ii) acceptance: real threads under the deterministic opcode-level scheduler (bv/sched.py); at every
       entry of a ring helper the running thread must own the cache's lock (dynamic lock-set);
  (iii) correspondence: the observed run (results of every locked operation + final contents + final
       eviction order) must equal what the Lean C02 model computes for the same operations executed
       atomically in the order in which they took the lock (the linearisation the theorem promises).
Independent oracle: the observed outcome must be one of the outcomes of the real code run
SEQUENTIALLY over all merges of the threads' programs (no model involved).
"""
import ast
import itertools
import os

from bv import common, sched
from bv.common import Property, Failure, time_limit, exc_name

READERS = {'len', 'contains', 'keys', 'items', 'values', 'iter'}
DICT_MUTATORS = ['__setitem__', '__delitem__', 'pop', 'popitem', 'clear', 'update', 'setdefault',
                 '__ior__']
STATE_ATTRS = {'_link_lookup', '_anchor'}


def on_miss_fn(k):
    return k * 10 + 7


def mk_cache(cu, cls, max_size, on_miss, init):
    c = getattr(cu, cls)(max_size=max_size, on_miss=on_miss_fn if on_miss else None)
    for k, v in init:
        c[k] = v
    return c


def canon(v):
    if isinstance(v, (list, tuple)):
        return [canon(x) for x in v]
    if isinstance(v, dict):
        return sorted([canon(k), canon(x)] for k, x in v.items())
    if v is None or isinstance(v, (int, str, bool)):
        return v
    return repr(v)


def apply_op(cache, op):
    kind = op[0]
    if kind == 'set':
        cache[op[1]] = op[2]
        return None
    if kind == 'get':
        return cache[op[1]]
    if kind == 'getd':
        return cache.get(op[1], 99)
    if kind == 'del':
        del cache[op[1]]
        return None
    if kind == 'pop':
        return cache.pop(op[1])
    if kind == 'popd':
        return cache.pop(op[1], 99)
    if kind == 'setdefault':
        return cache.setdefault(op[1], op[2])
    if kind == 'update':
        cache.update([tuple(p) for p in op[1]])
        return None
    if kind == 'popitem':
        return canon(cache.popitem())
    if kind == 'clear':
        cache.clear()
        return None
    if kind == 'copy':
        c2 = cache.copy()
        return sorted(canon(list(c2.items())))
    if kind == 'eq':
        return cache == dict((k, v) for k, v in op[1])
    if kind == 'len':
        return len(cache)
    if kind == 'contains':
        return op[1] in cache
    if kind == 'keys':
        return sorted(cache.keys())
    raise ValueError(op)


def probe_order(cache, max_size):
    """final eviction order through the public API: insert fresh keys, record what vanishes"""
    order = []
    for i in range(2 * max_size + 2):
        before = set(cache.keys())
        cache[1000 + i] = 0
        after = set(cache.keys())
        gone = sorted(before - after)
        order.append(gone)
        if len(cache) > max_size:
            order.append('OVER')
            break
    return order


def merges(progs):
    """all interleavings of the programs that respect each thread's order, as lists of tids"""
    counts = [len(p) for p in progs]

    def rec(rem):
        if not any(rem):
            yield []
            return
        for i, r in enumerate(rem):
            if r:
                rem2 = list(rem)
                rem2[i] -= 1
                for rest in rec(rem2):
                    yield [i] + rest
    return rec(counts)


class C03(Property):
    PID = 'C03'
    QUICK_BUDGET_S = 40
    THOROUGH_BUDGET_S = 800
    RULE = ('a case = cache class, max_size, on_miss, initial content, 2-3 thread programs of 1-3 public-API '
            'operations each, and a schedule (every choice of the opcode-level scheduler: systematic '
            'single/double pre-emption placements or a seeded random walk). Non-trivial = at least one '
            'pre-emption happened while some thread was inside a cache operation (a thread blocked on the '
            'lock or was switched out mid-operation); distinct = distinct (programs, realised schedule).')
    ASSUMPTIONS = ['CPython pre-empts threads only between bytecode instructions (GIL); C-level dict '
                   'operations are atomic', 'threading.RLock is a correct re-entrant lock (replaced by a '
                   'scheduler-aware equivalent in the harness)', 'free-threaded builds are out of scope']
    EXTRA_TRUSTED = ['bv/sched.py opcode-level scheduler + lock-set monitor', 'C02 Lean model (the atomic step '
                     'function the linearised run is compared with)']
    CORRESPONDENCE_NAME = ('real interleaved run (results, final contents, eviction order, lock-set) vs Lean C02 '
                           'model stepping the same operations atomically in lock-acquisition order')

    def __init__(self, tier, seed):
        super().__init__(tier, seed)
        import boltons.cacheutils as cu
        self.cu = cu
        self._serial_cache = {}
        self._obs_cache = {}
        self._warm = False

    def warm_up(self):
        """CPython 3.12 instruments a code object for per-opcode tracing lazily: the first traced execution
        of a function may deliver no opcode events.  Run every operation kind once under the scheduler and
        check that pre-emption points are being delivered before any case is judged."""
        if self._warm:
            return
        self._warm = True
        ops = [['set', 1, 1], ['get', 1], ['getd', 2], ['set', 2, 1], ['set', 3, 1], ['del', 3], ['popd', 1],
               ['setdefault', 4, 1], ['update', [[1, 1], [2, 2]]], ['popitem'], ['copy'], ['eq', [[1, 1]]],
               ['get', 4], ['pop', 2], ['clear']]
        for rep in range(2):
            for cls in ('LRI', 'LRU'):
                for om in (False, True):
                    case = {'cls': cls, 'max': 2, 'on_miss': om, 'init': [], 'progs': [ops, ops],
                            'sched': {'kind': 'random', 'seed': rep, 'sticky': 0.8}}
                    obs = self.impl(case)
        self._obs_cache.clear()
        if obs.get('steps', 0) < 200:
            raise common.InfraError('opcode tracing is not delivering pre-emption points (steps=%r)' % obs.get('steps'))

    # ------------------------------------------------------------------ translator
    def regen(self):
        src = open(os.path.join(common.REPO, 'boltons', 'cacheutils.py')).read()
        tree = ast.parse(src)
        rows = []
        overridden = {}
        for node in tree.body:
            if isinstance(node, ast.ClassDef) and node.name in ('LRI', 'LRU'):
                overridden[node.name] = set()
                for fn in node.body:
                    if not isinstance(fn, ast.FunctionDef):
                        continue
                    overridden[node.name].add(fn.name)
                    name = fn.name
                    if name == '__init__' or (name.startswith('_') and not name.startswith('__')):
                        continue   # constructor (object not shared yet) and private ring helpers
                    rows.append((node.name, name, self._touches_state(fn), self._protected(fn)))
        inherited = [m for m in DICT_MUTATORS if m not in overridden.get('LRI', set())]
        lines = ['/- GENERATED by harness/bv/props/c03.py from boltons/cacheutils.py (AST of LRI / LRU). Do not edit. -/',
                 'namespace Generated.C03', '',
                 'structure Method where', '  cls : String', '  name : String',
                 '  touches : Bool', '  locked : Bool', 'deriving Repr, DecidableEq', '',
                 'def methods : List Method := [']
        lines += ['  ⟨"%s", "%s", %s, %s⟩%s' % (c, n, str(t).lower(), str(p).lower(), ',' if i < len(rows) - 1 else '')
                  for i, (c, n, t, p) in enumerate(rows)]
        lines += [']', '', '/-- dict mutators that LRI does not override (they would bypass the ring and the lock) -/',
                  'def inheritedMutators : List String := [%s]' % ', '.join('"%s"' % m for m in inherited), '',
                  'end Generated.C03', '']
        return {'C03_CacheLocks.lean': '\n'.join(lines)}

    @staticmethod
    def _strip_doc(body):
        if body and isinstance(body[0], ast.Expr) and isinstance(getattr(body[0], 'value', None), ast.Constant) \
                and isinstance(body[0].value.value, str):
            return body[1:]
        return body

    def _protected(self, fn):
        body = self._strip_doc(fn.body)
        # comments are not in the AST; allow a trailing bare `return` / `return None`
        while body and isinstance(body[-1], ast.Return) and (
                body[-1].value is None or (isinstance(body[-1].value, ast.Constant) and body[-1].value.value is None)):
            body = body[:-1]
        if len(body) != 1 or not isinstance(body[0], ast.With):
            return False
        w = body[0]
        for item in w.items:
            e = item.context_expr
            if isinstance(e, ast.Attribute) and e.attr == '_lock' and isinstance(e.value, ast.Name) and e.value.id == 'self':
                return True
        return False

    def _touches_state(self, fn):
        for n in ast.walk(fn):
            if isinstance(n, ast.Attribute) and isinstance(n.value, ast.Name) and n.value.id == 'self':
                if n.attr in STATE_ATTRS:
                    return True
                if n.attr.startswith('_') and not n.attr.startswith('__') and n.attr not in ('_lock',):
                    return True     # private helper / private state
            if isinstance(n, ast.Call):
                f = n.func
                if isinstance(f, ast.Attribute) and isinstance(f.value, ast.Call) and \
                        isinstance(f.value.func, ast.Name) and f.value.func.id == 'super' and f.attr in DICT_MUTATORS:
                    return True     # C-level dict mutation through super() (a lone super() reader is one atomic C call)
                if isinstance(f, ast.Name) and f.id in ('len', 'list', 'dict', 'iter', 'sorted', 'tuple'):
                    if any(isinstance(a, ast.Name) and a.id == 'self' for a in n.args):
                        return True
                # bare `self` handed to another callable (it will iterate the cache)
                if any(isinstance(a, ast.Name) and a.id == 'self' for a in n.args) or \
                        any(isinstance(k.value, ast.Name) and k.value.id == 'self' for k in n.keywords):
                    return True
            if isinstance(n, ast.For) and isinstance(n.iter, ast.Name) and n.iter.id == 'self':
                return True
        return False

    # ------------------------------------------------------------------ generation
    KEYS = [1, 2, 3, 4]

    def rand_op(self, rng, on_miss):
        k = rng.choice(self.KEYS)
        r = rng.random()
        if r < 0.30:
            return ['set', k, rng.randint(0, 9)]
        if r < 0.42:
            return ['get', k]
        if r < 0.52:
            return ['getd', k]
        if r < 0.58:
            return ['del', k]
        if r < 0.64:
            return ['popd', k]
        if r < 0.70:
            return ['setdefault', k, rng.randint(0, 9)]
        if r < 0.76:
            return ['update', [[rng.choice(self.KEYS), rng.randint(0, 9)] for _ in range(rng.randint(1, 3))]]
        if r < 0.80:
            return ['popitem']
        if r < 0.83:
            return ['clear']
        if r < 0.87:
            return ['copy']
        if r < 0.92:
            return ['len']
        if r < 0.97:
            return ['contains', k]
        return ['eq', [[rng.choice(self.KEYS), rng.randint(0, 9)]]]

    def rand_programs(self, rng, nthreads, maxops):
        cls = rng.choice(['LRI', 'LRU'])
        m = rng.choice([1, 2, 2, 3])
        on_miss = rng.random() < 0.3
        init = [[k, 0] for k in rng.sample(self.KEYS, rng.randint(0, min(m, 3)))]
        progs = [[self.rand_op(rng, on_miss) for _ in range(rng.randint(1, maxops))] for _ in range(nthreads)]
        return {'cls': cls, 'max': m, 'on_miss': on_miss, 'init': init, 'progs': progs}

    FIXED = [
        # eviction race: both threads insert a new key into a full cache
        {'cls': 'LRU', 'max': 2, 'on_miss': False, 'init': [[1, 0], [2, 0]], 'progs': [[['set', 3, 1]], [['set', 4, 2]]]},
        {'cls': 'LRI', 'max': 1, 'on_miss': False, 'init': [], 'progs': [[['set', 1, 1], ['set', 2, 1]], [['set', 3, 2]]]},
        # lookup that reorders vs insert that evicts
        {'cls': 'LRU', 'max': 2, 'on_miss': False, 'init': [[1, 0], [2, 0]], 'progs': [[['get', 1]], [['set', 3, 5]]]},
        # on_miss insertion vs delete
        {'cls': 'LRU', 'max': 2, 'on_miss': True, 'init': [[1, 0]], 'progs': [[['get', 2]], [['del', 1], ['set', 2, 9]]]},
        {'cls': 'LRI', 'max': 2, 'on_miss': False, 'init': [[1, 0], [2, 0]], 'progs': [[['pop', 1]], [['update', [[3, 1], [4, 1]]]]]},
        {'cls': 'LRU', 'max': 2, 'on_miss': False, 'init': [[1, 0], [2, 0]], 'progs': [[['copy']], [['set', 3, 1], ['del', 2]]]},
        {'cls': 'LRI', 'max': 2, 'on_miss': False, 'init': [[1, 0]], 'progs': [[['setdefault', 2, 5]], [['setdefault', 2, 6]], [['popitem']]]},
        {'cls': 'LRU', 'max': 2, 'on_miss': False, 'init': [[1, 0], [2, 0]], 'progs': [[['clear']], [['set', 3, 1]]]},
        # unlocked inherited readers racing with an evicting insert (known finding C03-readers)
        {'cls': 'LRU', 'max': 2, 'on_miss': False, 'init': [[1, 0], [2, 0]], 'progs': [[['set', 3, 1]], [['len']]]},
        {'cls': 'LRI', 'max': 2, 'on_miss': False, 'init': [[1, 0], [2, 0]], 'progs': [[['set', 3, 1]], [['contains', 1], ['contains', 3]]]},
    ]

    def schedules_for(self, base, rng, systematic, nrandom):
        """yield cases = base + schedule"""
        n = len(base['progs'])
        if systematic:
            # measure the length of an unpreempted run, then place one pre-emption at every step
            for first in range(n):
                probe = dict(base, sched={'kind': 'preempt', 'first': first, 'points': []})
                obs = self.impl(probe)
                steps = obs.get('steps', 0)
                stride = 1 if self.thorough else max(1, steps // 35)
                off = 0 if self.thorough else self.rng.randrange(stride)
                for p in range(off, steps, stride):
                    yield dict(base, sched={'kind': 'preempt', 'first': first, 'points': [p]})
                if self.thorough and n == 2 and steps < 500:
                    pts = list(range(0, steps, max(1, steps // 25)))
                    for a, b in itertools.combinations(pts, 2):
                        yield dict(base, sched={'kind': 'preempt', 'first': first, 'points': [a, b]})
        for _ in range(nrandom):
            yield dict(base, sched={'kind': 'random', 'seed': rng.randrange(1 << 30),
                                    'sticky': rng.choice([0.5, 0.9, 0.97])})

    def cases(self, budget_s):
        rng = self.rng
        self.warm_up()
        for base in self.FIXED:
            yield from self.schedules_for(base, rng, systematic=True, nrandom=10 if not self.thorough else 60)
        n = 60 if not self.thorough else 1500
        for i in range(n):
            base = self.rand_programs(rng, rng.choice([2, 2, 3]), 2 if i % 3 else 3)
            yield from self.schedules_for(base, rng, systematic=(self.thorough and i % 10 == 0),
                                          nrandom=6 if not self.thorough else 12)

    def deep_cases(self, budget_s):
        rng = self.rng
        self.warm_up()
        for base in self.FIXED:
            yield from self.schedules_for(base, rng, systematic=True, nrandom=40)
        while True:
            base = self.rand_programs(rng, rng.choice([2, 3]), 3)
            yield from self.schedules_for(base, rng, systematic=rng.random() < 0.3, nrandom=10)

    # ------------------------------------------------------------------ implementation under the scheduler
    def chooser(self, sd, n):
        import random as _r
        if sd['kind'] == 'list':
            ch = list(sd['choices'])

            def choose(step, runnable):
                return ch[step] if step < len(ch) and ch[step] in runnable else runnable[0]
            return choose
        if sd['kind'] == 'random':
            r = _r.Random(sd['seed'])
            sticky = sd.get('sticky', 0.9)
            state = {'cur': None}

            def choose(step, runnable):
                if state['cur'] in runnable and r.random() < sticky:
                    return state['cur']
                state['cur'] = r.choice(runnable)
                return state['cur']
            return choose
        # preempt: run `first` (then round-robin) and switch to the next runnable thread at the given steps
        pts = set(sd['points'])
        state = {'cur': sd['first']}

        def choose(step, runnable):
            if step in pts or state['cur'] not in runnable:
                later = [t for t in runnable if t > state['cur']] + [t for t in runnable if t <= state['cur']]
                nxt = [t for t in later if t != state['cur']] or later
                state['cur'] = nxt[0]
            return state['cur']
        return choose

    def impl(self, case):
        if not self._warm:
            self.warm_up()
        key = self.key(case)
        if key in self._obs_cache:
            return self._obs_cache[key]
        cu = self.cu
        progs = [[(lambda c, op=op: canon(apply_op(c, op))) for op in p] for p in case['progs']]
        obs = {}
        try:
            with time_limit(30):
                r = sched.run(cu, progs, self.chooser(case['sched'], len(progs)),
                              lambda: mk_cache(cu, case['cls'], case['max'], case['on_miss'], case['init']),
                              max_steps=60000)
            cache = r['cache']
            obs = {'results': r['results'], 'steps': r['steps'], 'deadlock': r['deadlock'],
                   'step_limit': r['step_limit'], 'acquire_log': r['acquire_log'],
                   'lockset': [list(x) for x in r['lockset_violations']],
                   'switches': sum(1 for a, b in zip(r['schedule'], r['schedule'][1:]) if a != b),
                   'schedule_len': len(r['schedule'])}
            try:
                with time_limit(5):
                    obs['final'] = sorted(canon(list(dict.items(cache))))
                    obs['len'] = len(cache)
                    obs['order'] = probe_order(cache, case['max'])
            except Exception as e:  # cache unusable afterwards
                obs['unusable'] = exc_name(e)
        except Exception as e:
            obs = {'exc': exc_name(e), 'results': [], 'steps': 0}
        if len(self._obs_cache) > 20000:
            self._obs_cache.clear()
        self._obs_cache[key] = obs
        return obs

    # ------------------------------------------------------------------ independent oracle: real serial runs
    def serial_outcomes(self, case):
        k = self.key({k2: v for k2, v in case.items() if k2 != 'sched'})
        if k in self._serial_cache:
            return self._serial_cache[k]
        cu = self.cu
        outs = {}
        for order in merges(case['progs']):
            c = mk_cache(cu, case['cls'], case['max'], case['on_miss'], case['init'])
            idx = [0] * len(case['progs'])
            res = [[] for _ in case['progs']]
            for t in order:
                op = case['progs'][t][idx[t]]
                idx[t] += 1
                try:
                    res[t].append(['ok', canon(apply_op(c, op))])
                except Exception as e:
                    res[t].append(['exc', exc_name(e)])
            final = sorted(canon(list(dict.items(c))))
            order_probe = probe_order(c, case['max'])
            outs[self._okey(res, final, order_probe)] = order
        if len(self._serial_cache) > 5000:
            self._serial_cache.clear()
        self._serial_cache[k] = outs
        return outs

    @staticmethod
    def _okey(res, final, order):
        import json
        return json.dumps([res, final, order], sort_keys=True)

    def _mask_readers(self, case, res):
        out = []
        for t, rs in enumerate(res):
            row = []
            for i, r in enumerate(rs):
                op = case['progs'][t][i] if i < len(case['progs'][t]) else ['?']
                row.append(['reader'] if op[0] in READERS else r)
            out.append(row)
        return out

    def oracle(self, case, obs):
        self._nt = False
        if 'exc' in obs:
            return Failure('harness', 'scheduled run failed: %s' % obs['exc'])
        if obs.get('deadlock'):
            return Failure('deadlock', 'all threads blocked (schedule %r)' % (case['sched'],))
        if obs.get('step_limit'):
            return Failure('livelock', 'run exceeded the step limit')
        if 'unusable' in obs:
            return Failure('unusable', 'cache unusable after the run: %s' % obs['unusable'])
        if obs['len'] > case['max'] or 'OVER' in obs['order']:
            return Failure('exceeds_max', 'len %d > max_size %d after the run' % (obs['len'], case['max']))
        serial = self.serial_outcomes(case)
        self._nt = obs.get('switches', 0) >= 1 and obs['steps'] > 0
        self.stats['runs'] = self.stats.get('runs', 0) + 1
        self.stats['steps'] = self.stats.get('steps', 0) + obs['steps']
        self.stats['switches'] = self.stats.get('switches', 0) + obs.get('switches', 0)
        if self._okey(obs['results'], obs['final'], obs['order']) in serial:
            return None
        # not a serial outcome.  Is the deviation confined to unlocked inherited readers?
        masked = {self._okey(self._mask_readers(case, __import__('json').loads(k)[0]),
                             __import__('json').loads(k)[1], __import__('json').loads(k)[2]) for k in serial}
        if self._okey(self._mask_readers(case, obs['results']), obs['final'], obs['order']) in masked:
            return Failure('reader_not_atomic', 'an unlocked inherited reader (len / in / keys) returned a value no '
                           'sequential execution gives: results %r' % (obs['results'],))
        return Failure('not_serializable', 'results %r final %r order %r is not the outcome of any of the %d sequential '
                       'executions' % (obs['results'], obs['final'], obs['order'], len(serial)))

    def nontrivial(self, case, obs):
        return getattr(self, '_nt', False)

    # known finding: len()/in/keys() are inherited from dict, take no lock and can observe the intermediate
    # state of a concurrent locked operation (e.g. between the eviction and the insertion of __setitem__)
    def finding_reader_not_atomic(self, case, failure):
        return failure.tag == 'reader_not_atomic'

    # ------------------------------------------------------------------ correspondence with the Lean C02 model
    @staticmethod
    def _ptxt(pairs):
        return ','.join('%d.%d' % (k, v) for k, v in pairs) or '-'

    def line(self, case):
        obs = self._obs_cache.get(self.key(case))
        if obs is None or 'exc' in obs or 'unusable' in obs or obs.get('deadlock') or obs.get('step_limit'):
            return None
        serial_ops = self._linearised(case, obs)
        if serial_ops is None:
            return None
        toks = ['1' if case['cls'] == 'LRU' else '0', str(case['max']), '1' if case['on_miss'] else '0',
                self._ptxt(case['init'])]
        for _t, _i, op in serial_ops:
            k = op[0]
            if k == 'set':
                toks.append('s:%d:%d' % (op[1], op[2]))
            elif k == 'get':
                toks.append('g:%d' % op[1])
            elif k == 'getd':
                toks.append('G:%d:99' % op[1])
            elif k == 'del':
                toks.append('d:%d' % op[1])
            elif k == 'pop':
                toks.append('p:%d' % op[1])
            elif k == 'popd':
                toks.append('P:%d:99' % op[1])
            elif k == 'setdefault':
                toks.append('D:%d:%d' % (op[1], op[2]))
            elif k == 'update':
                toks.append('u:' + self._ptxt(op[1]))
            elif k == 'popitem':
                toks.append('I')
            elif k == 'clear':
                toks.append('c')
            elif k == 'copy':
                toks.append('C')
            elif k == 'eq':
                toks.append('e:' + self._ptxt(op[1]))
            else:
                return None
        return ' '.join(toks)

    def _linearised(self, case, obs):
        """locked operations in lock-acquisition order (unlocked readers are not part of the model run)"""
        idx = [0] * len(case['progs'])
        ops = []
        for t in obs['acquire_log']:
            p = case['progs'][t]
            while idx[t] < len(p) and p[idx[t]][0] in READERS:
                idx[t] += 1
            if idx[t] >= len(p):
                return None
            ops.append((t, idx[t], p[idx[t]]))
            idx[t] += 1
        return ops

    def render(self, case, obs):
        serial_ops = self._linearised(case, obs) or []
        outs = []
        for t, i, op in serial_ops:
            try:
                r = obs['results'][t][i]
            except IndexError:
                outs.append('?')
                continue
            if r[0] == 'exc':
                outs.append('!' + r[1])
            else:
                v = r[1]
                if v is None:
                    outs.append('N')
                elif v is True:
                    outs.append('t')
                elif v is False:
                    outs.append('f')
                elif isinstance(v, int):
                    outs.append('v%d' % v)
                elif op[0] == 'popitem':
                    outs.append('p%d.%d' % (v[0], v[1]))
                else:
                    outs.append('L' + self._ptxt(v))
        order = ';'.join(('+'.join(str(x) for x in g) or '-') if isinstance(g, list) else str(g) for g in obs.get('order', []))
        txt = (','.join(outs) or '-') + '|' + self._ptxt(obs.get('final', [])) + '|' + order
        if obs.get('lockset'):
            txt += ' LOCKSET-VIOLATION %r' % (obs['lockset'][:3],)
        return txt

    def shrink(self, case):
        progs = case['progs']
        for t in range(len(progs)):
            for i in range(len(progs[t])):
                if sum(len(p) for p in progs) > 2:
                    np = [list(p) for p in progs]
                    del np[t][i]
                    if all(np) or len([p for p in np if p]) >= 2:
                        yield dict(case, progs=[p for p in np if p])
        if case['init']:
            yield dict(case, init=case['init'][:-1])

    def describe(self, case):
        return case


PROPERTY = C03
